"""C09 — Atoms objects stay consistent and type ids keep their meaning, over operation histories.

A history is a list of operations on four slots holding real `mofun.Atoms` objects:
construct / copy / del a[idx] / pop / extend (default or explicit offsets, any identity map) / replicate / a[idx].
After EVERY step
  * the full canonical dump of all slots is compared with the Lean model (`Model/Hist.lean`, driver op "hist"),
    together with the driver's verdict whether the op satisfied the theorems' guard (`GuardedOp ∧ AlignedOp`,
    decided in Lean) against the generator's own notion of a valid op (`lean_guard`);
  * the INDEPENDENT oracle inspects the real objects: array shapes, term indices, type-level data for every type
    id in use, and — through identity tags (unique charge per atom, unique extra-column value per term, given at
    creation together with the label / element / mass / pair-coefficient / coefficient TEXT the atom or term was
    defined with) — that every surviving atom and term still resolves to the texts it was defined with;
  * the object the step wrote, if it has >= 1 atom and a LAMMPS-writable cell, is written with `save_lmpdat`,
    read by an independent mini-reader (declared counts = section lengths, ids inside the declared ranges, same
    atoms / terms as the object) and read back with `load_lmpdat` (same atom types, term types, tuples, tables).

Streams: (0) directed histories for the special cases the property names (a term kind emptied, or all atoms
removed, and then an extend with a typed fragment); (a) bounded-exhaustive op sequences over a pool of <= 3-atom
structures (every deletion subset, every injective identity map, with / without coefficient tables);
(b) random histories over structures of <= 30 atoms; (m) a malformed stream (incompatible extends, bad indices)
compared model-vs-code only; (al) aliasing probes: objects constructed from SHARED numpy arrays / from the attribute
arrays of an existing object (also sprinkled over the random stream), then mutated one at a time — after every step of
EVERY history all slots are checked and the slots the op did not write must be unchanged; (k) the KNOWN FINDING C09-coefficient-table-misaligned: histories with exactly one extend
in which one consistent object uses ids of a kind without a coefficient table and the other brings a table — the
normal oracle runs on them, its failure is attributed (tag "coefficient-table-misaligned") only when it arises at
that extend and concerns the coefficient data of exactly that kind; model and code are still compared.
"""
import io
import os
import itertools
import re
from fractions import Fraction

from .. import accessors, core, gen

RULE = ("histories over 4 slots of real Atoms objects (about half of the structures have an atom type whose mass is not the "
        "periodic-table mass of its element and whose label differs from the element); ops construct/copy/delete/pop/extend/replicate/getitem; valid "
        "stream = deletion indices distinct and inside the object, identity maps injective, extends compatible (per "
        "kind: neither side has a coefficient table, or every side with terms has one; explicit offsets only where "
        "the shifted ids denote identical table entries). One case = one history (bounded-exhaustive: one maximal op "
        "sequence of the enumeration tree). Non-trivial = distinct history that contains at least one deletion/pop "
        "and at least one extend executed on an object that already went through another op, and ends with at least "
        "one term alive.")

KINDS = gen.KINDS
ARITY = gen.ARITY
NSLOTS = 4
TAGCOL = {k: "_geom_%s_tag" % k for k in KINDS}
MAXATOMS = 30


# =============================================================================================== structures

class Tagger:
    """unique identity tags within one history: a charge per atom, a string per term"""

    def __init__(self):
        self.n = 0

    def charge(self):
        self.n += 1
        return core.q(Fraction(self.n, 64))

    def term(self, kind):
        self.n += 1
        return "%s%d" % (kind[0].upper(), self.n)


def retag(aj, tg, rng=None, tagcols=True):
    """give every atom a unique charge and every term a unique value in the tag column of its kind (added as the
    first extra column when the kind has terms and no such column; `tagcols=False` leaves kinds without extra
    columns untagged)"""
    for r in aj["atoms"]:
        r["q"] = tg.charge()
    for k in KINDS:
        ts = aj["terms"].get(k, [])
        xl = aj["xlabels"].get(k, [])
        if not ts:
            continue
        if TAGCOL[k] not in xl:
            if not tagcols:
                continue
            xl = [TAGCOL[k]] + xl
            aj["xlabels"][k] = xl
            for t in ts:
                t["x"] = ["?"] + list(t["x"])
        c = xl.index(TAGCOL[k])
        for t in ts:
            t["x"][c] = tg.term(k)
    return aj


def odd_mass(aj, rng, p=1.0):
    """with probability p give one atom type (one that is in use, if any) a mass that is NOT the periodic-table
    mass of its element (isotope / united-atom / dummy-site types) and a label different from the element, so that
    "resolves to the mass it was defined with" cannot be satisfied by re-deriving masses from elements"""
    t = aj["types"]
    if not t["elem"] or rng.random() >= p:
        return aj
    used = sorted({r["ty"] for r in aj["atoms"] if r["ty"] < len(t["elem"])})
    k = rng.choice(used) if used else rng.randrange(len(t["elem"]))
    base = float(core.unq(t["mass"][k]))
    t["mass"][k] = core.q(round(base + rng.choice([1.0063, 3.0243, 0.4375, 2.5, 7.25]), 4))
    if t["label"][k] == t["elem"][k]:
        t["label"] = list(t["label"])
        t["label"][k] = "%sx%d" % (t["elem"][k], k + 1)
    return aj


def has_odd_mass(aj):
    M = gen.masses()
    t = aj["types"]
    return any(e not in M or abs(float(core.unq(m)) - M[e]) > 0.1 for e, m in zip(t["elem"], t["mass"]))


# neighbours in the periodic table whose masses are NOT in the order of their atomic numbers: a mass -> element lookup
# that assumes a sorted table goes wrong exactly here (and LAMMPS files store masses, not elements)
INVERTED = ["Ar", "K", "Co", "Ni", "Te", "I", "Th", "Pa"]


def inverted_elements(aj, rng, p=1.0):
    """with probability p re-cast the atom types of `aj` as elements taken from the mass-inverted neighbour pairs
    (table masses, labels follow)"""
    t = aj["types"]
    if not t["elem"] or rng.random() >= p:
        return aj
    M = gen.masses()
    pair = rng.choice([INVERTED[0:2], INVERTED[2:4], INVERTED[4:6], INVERTED[6:8]])
    pool = pair + [rng.choice(INVERTED), rng.choice(gen.ELEMENTS)]
    new = [pool[i] if i < 2 else rng.choice(pool) for i in range(len(t["elem"]))]
    rng.shuffle(new)
    labels = []
    for old_e, lab, e in zip(t["elem"], t["label"], new):
        labels.append(e if lab == old_e else e + lab[len(old_e):] if lab.startswith(old_e) else lab)
    t["elem"], t["label"] = new, labels
    t["mass"] = [core.q(M[e]) for e in new]
    return aj


def hash_texts(aj, rng, p=1.0):
    """with probability p put a '#' INTO a label and a second '#' into a coefficient string (LAMMPS data lines are
    split at their first '#' only)"""
    t = aj["types"]
    if rng.random() >= p:
        return aj
    if t["label"]:
        k = rng.randrange(len(t["label"]))
        t["label"] = list(t["label"])
        t["label"][k] = t["label"][k] + "#" + "sp%d" % rng.randint(1, 3)
    for kind in KINDS + ["pair"]:
        if t.get(kind) and rng.random() < 0.5:
            k = rng.randrange(len(t[kind]))
            t[kind] = list(t[kind])
            t[kind][k] = t[kind][k] + " # see#%d" % rng.randint(1, 9)
    return aj


def rand_struct(rng, tg, nmax=8, **kw):
    n = rng.randint(1, nmax)
    aj = hash_texts(odd_mass(inverted_elements(gen.rand_atoms(rng, n=n, **kw), rng, 0.3), rng, 0.5), rng, 0.15)
    if aj.get("cell") is not None and rng.random() < 0.75:
        # most cells LAMMPS-writable so that the save/load part of the property is exercised
        if not lammps_cell(aj["cell"]):
            aj["cell"], _ = gen.rand_cell(rng, rng.choice(["ortho", "tri+", "tri-"]))
    return retag(aj, tg, rng, tagcols=rng.random() < 0.85)


def mk(atoms, terms=None, types=None, xlabels=None, cell=None, elems=("C",), labels=None, pair=None, masses=None):
    """hand-made structure: atoms = [(ty, (x,y,z), group)], terms = {kind: [(tuple, ty)]}, types = {kind: [coeff]}"""
    M = gen.masses()
    j = {"cell": cell, "atoms": [{"ty": ty, "pos": [core.q(Fraction(v)) for v in pos], "q": "0", "g": g, "x": []}
                                 for ty, pos, g in atoms],
         "terms": {}, "types": {}, "xlabels": {"atom": []}}
    for k in KINDS:
        j["terms"][k] = [{"a": list(t), "ty": ty, "x": []} for t, ty in (terms or {}).get(k, [])]
        j["types"][k] = list((types or {}).get(k, []))
        j["xlabels"][k] = list((xlabels or {}).get(k, []))
        for t in j["terms"][k]:
            t["x"] = ["x" for _ in j["xlabels"][k]]
    j["types"]["elem"] = list(elems)
    j["types"]["label"] = list(labels) if labels else list(elems)
    j["types"]["mass"] = [core.q(M[e]) for e in elems] if masses is None else [core.q(m) for m in masses]
    j["types"]["pair"] = list(pair) if pair else []
    return j


ORTHO = [["10", "0", "0"], ["0", "11", "0"], ["0", "0", "12"]]
TRI = [["10", "0", "0"], ["3/2", "11", "0"], ["-1", "2", "12"]]


def pool():
    """the pool of <= 3-atom structures of the bounded-exhaustive stream: (name, json, role)"""
    P = []
    line3 = [(0, (0, 0, 0), 0), (1, (1, 0, 0), 1), (1, (2, 0, 0), 2)]
    # P1: everything: two bond types + unused third entry, an angle, pair table, labels != elements, cell
    P.append(("P1", mk(line3, {"bond": [((0, 1), 0), ((1, 2), 1)], "angle": [((0, 1, 2), 0)]},
                       {"bond": ["harm 1.0 # b0", "harm 2.0 # b1", "harm 3.0 # b2"], "angle": ["cos 5.0 # a0"]},
                       cell=ORTHO, elems=("C", "H"), labels=("C_1", "D_2"), pair=["0.1 3.0 # C_1", "0.2 2.5 # D_2"],
                       masses=(15.035, 2.0141))))     # united-atom carbon, deuterium: NOT the table masses of C / H
    # P2: same topology, no coefficient tables at all, no cell
    P.append(("P2", mk(line3, {"bond": [((0, 1), 0), ((1, 2), 1)], "angle": [((0, 1, 2), 0)]},
                       elems=("K", "Ar"))))      # table masses, in the "wrong" order of their atomic numbers
    # P3: bonds only, table exactly as long as the ids, triclinic cell, an extra column besides the tag
    P.append(("P3", mk(line3, {"bond": [((1, 0), 1), ((2, 1), 0)]}, {"bond": ["morse 1 # m0", "morse 2 # m1"]},
                       xlabels={"bond": ["_geom_bond_aux"]}, cell=TRI, elems=("O", "Zr"), labels=("O_a", "Zr_b"),
                       masses=(15.9994, 93.5))))
    # Q1: typed fragment with its own tables
    two = [(0, (5, 0, 0), 0), (0, (6, 0, 0), 1)]
    P.append(("Q1", mk(two, {"bond": [((0, 1), 0)]}, {"bond": ["harm 9.0 # q0"]}, elems=("N",), labels=("N_q",),
                       pair=["0.3 3.3 # N_q"], masses=(16.0225,))))     # united-atom NH2
    # Q2: fragment without tables
    P.append(("Q2", mk(two, {"bond": [((0, 1), 0)]}, elems=("Ni",))))
    # Q3: a single atom with a pair table and an (unused) bond table
    P.append(("Q3", mk([(0, (7, 0, 0), 2)], types={"bond": ["harm 7.0 # s0"]}, elems=("F",), labels=("F_s",),
                       pair=["0.4 3.4 # F_s"])))
    # Q4: two types, bond of type 1 with a two-entry table, reversed tuple, no pair table, with cell
    P.append(("Q4", mk([(1, (5, 1, 0), 0), (0, (6, 1, 0), 0)], {"bond": [((1, 0), 1)]},
                       {"bond": ["harm 4.0 # r0", "harm 5.0 # r1"]}, cell=ORTHO, elems=("S", "Cu"), labels=("S_r", "Cu_r"),
                       masses=(32.065, 64.9278))))      # an isotope mass for Cu
    # T1: NO atoms, but an element / label / mass / pair table and a bond table (fix 84d3f69: such a structure keeps its
    # tables and can be extended)
    P.append(("T1", tables_only(mk([(0, (0, 0, 0), 0)], types={"bond": ["harm 1.5 # t0"]}, cell=ORTHO, elems=("O",),
                                   labels=("O_t",), pair=["0.5 3.1 # O_t"]))))
    return P


def lammps_cell(cell):
    if cell is None:
        return True
    z = lambda v: core.unq(v) == 0
    return z(cell[0][1]) and z(cell[0][2]) and z(cell[1][2])


# =============================================================================================== guards (generator side)

def type_counts(d):
    """the offsets `extend_types` must return for this object, by the property's definition (table length, or
    beyond the ids in use when there is no table)"""
    out = [len(d["types"]["elem"])]
    for k in KINDS:
        ids = [t["ty"] for t in d["terms"][k]]
        out.append(max([len(d["types"][k])] + [i + 1 for i in ids]))
    return out


def compat(d, s):
    """the property's compatibility clause for `d.extend(s)` with default offsets (cf. Lean `Compat`)"""
    def side(has_items, table):
        return (not has_items) or len(table) > 0
    dp, sp = d["types"]["pair"], s["types"]["pair"]
    if not ((not dp and not sp) or (side(d["types"]["elem"], dp) and side(s["types"]["elem"], sp))):
        return False
    for k in KINDS:
        dt, st = d["types"][k], s["types"][k]
        if not ((not dt and not st) or (side(d["terms"][k], dt) and side(s["terms"][k], st))):
            return False
    return True


def offsets_valid(d, s, o):
    """explicit offsets are inside the quantifier when every shifted id of `s` denotes, in `d`'s tables, an entry
    with the same texts as in `s`'s own tables (the documented use: types already shared / merged before)"""
    dt, st = d["types"], s["types"]
    for r in s["atoms"]:
        t, u = r["ty"], r["ty"] + o[0]
        if t >= len(st["elem"]) or u >= len(dt["elem"]) or u >= len(dt["label"]) or u >= len(dt["mass"]):
            return False
        if (st["elem"][t], st["label"][t], st["mass"][t]) != (dt["elem"][u], dt["label"][u], dt["mass"][u]):
            return False
        if dt["pair"]:
            if not st["pair"] or t >= len(st["pair"]) or u >= len(dt["pair"]) or st["pair"][t] != dt["pair"][u]:
                return False
    for i, k in enumerate(KINDS):
        for t in s["terms"][k]:
            u = t["ty"] + o[i + 1]
            if dt[k] and (not st[k] or u >= len(dt[k]) or t["ty"] >= len(st[k]) or st[k][t["ty"]] != dt[k][u]):
                return False
    return True


def wf_dump(d):
    """python mirror of the Lean invariant `WF` (used only to predict the driver's "guarded" flag)"""
    t, n = d["types"], len(d["atoms"])
    if any(r["ty"] >= len(t["elem"]) or len(r["x"]) != len(d["xlabels"]["atom"]) for r in d["atoms"]):
        return False
    if len(t["elem"]) > len(t["label"]) or len(t["elem"]) > len(t["mass"]):
        return False
    if t["pair"] and len(t["elem"]) > len(t["pair"]):
        return False
    for k in KINDS:
        for tm in d["terms"][k]:
            if any(x >= n for x in tm["a"]) or len(tm["x"]) != len(d["xlabels"][k]):
                return False
            if t[k] and tm["ty"] >= len(t[k]):
                return False
    return True


def aligned_dump(d):
    t = d["types"]
    return len(t["label"]) == len(t["elem"]) == len(t["mass"]) and (not t["pair"] or len(t["pair"]) == len(t["elem"]))


def offsets_ok(d, s, o):
    """python mirror of the Lean guard `OffsetsOk`"""
    if any(r["ty"] + o[0] >= len(d["types"]["elem"]) for r in s["atoms"]):
        return False
    for i, k in enumerate(KINDS):
        if d["types"][k] and any(tm["ty"] + o[i + 1] >= len(d["types"][k]) for tm in s["terms"][k]):
            return False
    return True


def lean_guard(dumps, op):
    """python mirror of `GuardedOpW s op ∧ AlignedOpW op` (Proofs/HistWideLemmas.lean): no guard on deletions and
    subsets (repeated / negative indices), an object extended with itself needs a diagonal identity map"""
    k = op["k"]
    if k == "construct":
        return wf_dump(op["a"]) and aligned_dump(op["a"])
    if k == "extend":
        g = lambda i: dumps[i] if 0 <= i < len(dumps) else None
        d, sd = g(op["dst"]), g(op["src"])
        if d is None or sd is None:
            return True
        nm = norm_map(op["map"], len(sd["atoms"]), len(d["atoms"]))
        if nm is None:
            return True          # rejected map: the step fails, the guard is vacuous
        if op["dst"] == op["src"] and any(a != b for a, b in nm):
            return False
        return compat(d, sd) if op.get("offsets") is None else offsets_ok(d, sd, pad_offsets(op["offsets"]))
    return True


def norm_map(pairs, ns, n):
    """the identity map as the code normalises it (numpy reading of negative indices); None = IndexError"""
    out = []
    for a, b in pairs:
        if not (-ns <= a < ns and -n <= b < n):
            return None
        out.append([a % ns, b % n])
    return out


def pad_offsets(o):
    o = list(o)
    return (o + [0] * 5)[:5]


def guard_ok(dumps, op):
    """is this op inside the property's quantifier in this state? (used when shrinking a failing history)"""
    k = op["k"]
    g = lambda i: dumps[i] if 0 <= i < len(dumps) else None
    if k == "construct":
        return True
    if k in ("copy", "replicate", "getitem"):
        d = g(op["src"])
        if d is None:
            return False
        if k == "getitem":
            # any integers in [-n, n), also none at all: the empty selection is the atom-less subset
            return all(-len(d["atoms"]) <= i < len(d["atoms"]) for i in op["idx"])
        if k == "replicate":
            return d["cell"] is not None
        return True
    if k in ("delete", "pop"):
        d = g(op["slot"])
        if d is None:
            return False
        if k == "pop":
            return len(d["atoms"]) > 0
        # any integers in [-n, n): the code normalises them to a set of positions (negative, repeated, unsorted)
        return all(-len(d["atoms"]) <= i < len(d["atoms"]) for i in op["idx"])
    if k == "extend":
        d, sd = g(op["dst"]), g(op["src"])
        if d is None or sd is None:
            return False
        nm = norm_map(op["map"], len(sd["atoms"]), len(d["atoms"]))     # negative = from the end, as numpy reads it
        if nm is None:
            return False
        if op["dst"] == op["src"] and any(a != b for a, b in nm):
            return False       # an object extended with itself: only "atom k is atom k" respects the map's contract
        keys = [a for a, _ in nm]
        vals = [b for _, b in nm]
        if len(set(keys)) != len(keys) or len(set(vals)) != len(vals):
            return False
        return compat(d, sd) if op.get("offsets") is None else offsets_valid(d, sd, pad_offsets(op["offsets"]))
    return False


# =============================================================================================== real code

def np_kwargs(aj):
    """constructor keywords for the literal `aj` as NUMPY arrays (per-atom arrays, term arrays, type tables)"""
    import numpy as np
    rows = aj["atoms"]
    ty = aj["types"]
    kw = {"atom_types": np.array([r["ty"] for r in rows], dtype=int),
          "positions": np.array([[float(core.unq(v)) for v in r["pos"]] for r in rows], dtype=float).reshape(len(rows), 3),
          "charges": np.array([float(core.unq(r["q"])) for r in rows], dtype=float),
          "groups": np.array([r["g"] for r in rows], dtype=int),
          "atom_type_elements": np.array(list(ty["elem"])), "atom_type_labels": np.array(list(ty["label"])),
          "atom_type_masses": np.array([float(core.unq(m)) for m in ty["mass"]], dtype=float),
          "pair_coeffs": np.array(list(ty["pair"]))}
    xl = aj["xlabels"]
    kw["extra_atom_labels"] = list(xl["atom"])
    if xl["atom"]:
        kw["extra_atom_fields"] = np.array([r["x"] for r in rows], dtype=object).reshape(len(rows), len(xl["atom"]))
    for k, tups, types, xf, xlab, coeffs in core.KINDS:
        ts = aj["terms"][k]
        kw[tups] = np.array([t["a"] for t in ts], dtype=int).reshape(len(ts), ARITY[k])
        kw[types] = np.array([t["ty"] for t in ts], dtype=int)
        kw[coeffs] = np.array(list(ty[k]))
        kw[xlab] = list(xl[k])
        if xl[k]:
            kw[xf] = np.array([t["x"] for t in ts], dtype=object).reshape(len(ts), len(xl[k]))
    if aj.get("cell") is not None:
        kw["cell"] = np.array([[float(core.unq(v)) for v in row] for row in aj["cell"]], dtype=float)
    return kw


def atomless_from_json(aj):
    """a structure WITHOUT atoms but with the type tables / labels / cell of the literal (since 84d3f69 the
    constructor keeps them): `Atoms(atom_type_elements=…, atom_type_labels=…, …)`"""
    from mofun import Atoms
    ty, xl = aj["types"], aj["xlabels"]
    kw = {}
    if ty.get("elem"):
        kw["atom_type_elements"] = list(ty["elem"])
    if ty.get("label"):
        kw["atom_type_labels"] = list(ty["label"])
    if ty.get("mass"):
        kw["atom_type_masses"] = [float(core.unq(m)) for m in ty["mass"]]
    if ty.get("pair"):
        kw["pair_coeffs"] = list(ty["pair"])
    if xl.get("atom"):
        kw["extra_atom_labels"] = list(xl["atom"])
    for k, tups, types, xf, xlab, coeffs in core.KINDS:
        if ty.get(k):
            kw[coeffs] = list(ty[k])
        if xl.get(k):
            kw[xlab] = list(xl[k])
    if aj.get("cell") is not None:
        kw["cell"] = [[float(core.unq(v)) for v in row] for row in aj["cell"]]
    with core.quiet():
        return Atoms(**kw)


def converted(orig, via):
    """an object that reaches the history through another public constructor: written as a LAMMPS data file and
    loaded again (`load_lmpdat`), or converted to an ASE object and back (`from_ase_atoms`). The history's literal is
    the dump of THIS object (the model starts from what the loader produced)."""
    from mofun import Atoms
    with core.quiet():
        a = core.atoms_from_json(orig)
        if via == "lmpdat":
            f = io.StringIO()
            a.save_lmpdat(f)
            f.seek(0)
            return Atoms.load_lmpdat(f)
        if via == "ase":
            return Atoms.from_ase_atoms(a.to_ase())
    raise ValueError(via)


def tables_only(aj):
    """the literal `aj` without its atoms and terms: type tables, coefficient tables, extra labels and cell stay"""
    j = _deep(aj)
    j["atoms"] = []
    for k in KINDS:
        j["terms"][k] = []
    return j


def attr_kwargs(o):
    """constructor keywords taken straight from the attributes of an existing object (no copies made here)"""
    kw = {"atom_types": o.atom_types, "positions": o.positions, "charges": o.charges, "groups": o.groups,
          "atom_type_elements": o.atom_type_elements, "atom_type_labels": o.atom_type_labels,
          "atom_type_masses": o.atom_type_masses, "pair_coeffs": o.pair_coeffs, "cell": o.cell,
          "extra_atom_labels": o.extra_atom_labels, "extra_atom_fields": o.extra_atom_fields}
    for k, tups, types, xf, xlab, coeffs in core.KINDS:
        kw[tups], kw[types], kw[coeffs] = getattr(o, tups), getattr(o, types), getattr(o, coeffs)
        kw[xlab], kw[xf] = getattr(o, xlab), getattr(o, xf)
    return kw


SPELLINGS = ["list", "list", "tuple", "array", "npint", "range"]


def spell(idx, how):
    """the same index list in another public spelling (the model sees the plain list): tuple, integer ndarray, list of
    numpy integers, range (only where the list IS a range; else the list)"""
    import numpy as np
    idx = list(idx)
    if how == "tuple":
        return tuple(idx)
    if how == "array":
        return np.array(idx, dtype=int)
    if how == "npint":
        return [np.int64(i) for i in idx]
    if how == "range" and len(idx) >= 1 and all(i >= 0 for i in idx) and idx == list(range(idx[0], idx[0] + len(idx))):
        return range(idx[0], idx[0] + len(idx))
    return idx


def apply_real(objs, op, cache=None):
    """run one op on the real objects (in place on the list `objs`); exceptions propagate.
    construct: from fresh python lists (default); "np": key -> from numpy arrays that are SHARED by every construct
    of the history carrying the same key; "twin_of": slot -> from the attribute arrays of the object in that slot
    (the literal "a" is then that object's dump). The model sees the same literal in all three cases."""
    k = op["k"]
    if k == "construct":
        from mofun import Atoms
        if op.get("twin_of") is not None:
            objs[op["dst"]] = Atoms(**attr_kwargs(objs[op["twin_of"]]))
        elif op.get("np") is not None and op["a"]["atoms"]:
            cache = cache if cache is not None else {}
            if op["np"] not in cache:
                cache[op["np"]] = np_kwargs(op["a"])
            objs[op["dst"]] = Atoms(**cache[op["np"]])
        elif op.get("via"):
            objs[op["dst"]] = converted(op["from"], op["via"])
        elif not op["a"]["atoms"]:
            objs[op["dst"]] = atomless_from_json(op["a"])
        else:
            objs[op["dst"]] = core.atoms_from_json(op["a"])
    elif k == "copy":
        objs[op["dst"]] = objs[op["src"]].copy()
    elif k == "delete":
        del objs[op["slot"]][spell(op["idx"], op.get("spell"))]
    elif k == "pop":
        if op.get("default"):
            objs[op["slot"]].pop()
        else:
            objs[op["slot"]].pop(op["i"])
    elif k == "extend":
        kw = {}
        if op.get("offsets") is not None:
            kw["offsets"] = tuple(op["offsets"])
        if op.get("spell") == "npint":
            import numpy as np
            m = {np.int64(a): np.int64(b) for a, b in op["map"]}
            if "offsets" in kw:
                kw["offsets"] = np.array(kw["offsets"], dtype=int)
        else:
            m = {a: b for a, b in op["map"]}
        objs[op["dst"]].extend(objs[op["src"]], structure_index_map=m, **kw)
    elif k == "replicate":
        objs[op["dst"]] = objs[op["src"]].replicate(tuple(op["dims"]))
    elif k == "getitem":
        objs[op["dst"]] = objs[op["src"]][spell(op["idx"], op.get("spell"))]
    else:
        raise ValueError(k)


def target(op):
    return op["slot"] if "slot" in op else op["dst"]


def dump_state(objs):
    return [None if o is None else core.canon_atoms(o) for o in objs]


# =============================================================================================== oracle

class Expect:
    """what each identity tag may resolve to in one object (sets: copies of an atom share its tag)"""

    def __init__(self):
        self.atom = set()      # (charge, label, element, mass, group)
        self.pair = set()      # (charge, pair text)
        self.term = {k: set() for k in KINDS}   # (tag, coefficient text or None)
        self.tatoms = {k: set() for k in KINDS}  # (tag, tuple of the charges of the atoms the term connects, in order)

    def copy(self):
        e = Expect()
        e.atom, e.pair = set(self.atom), set(self.pair)
        e.term = {k: set(v) for k, v in self.term.items()}
        e.tatoms = {k: set(v) for k, v in self.tatoms.items()}
        return e

    def union(self, o):
        self.atom |= o.atom
        self.pair |= o.pair
        for k in KINDS:
            self.term[k] |= o.term[k]


def resolve_atom(d, i):
    """(label, element, mass) of atom i by table lookup, None where the table has no such entry"""
    ty = d["atoms"][i]["ty"]
    t = d["types"]
    g = lambda l: l[ty] if 0 <= ty < len(l) else None
    return g(t["label"]), g(t["elem"]), g(t["mass"])


def record(aj):
    """expected identity of a freshly defined object, read off the literal input (not off the constructed object)"""
    e = Expect()
    t = aj["types"]
    for i, r in enumerate(aj["atoms"]):
        lab, el, m = resolve_atom(aj, i)
        e.atom.add((r["q"], lab, el, m, r["g"]))
        if t["pair"]:
            e.pair.add((r["q"], t["pair"][r["ty"]] if r["ty"] < len(t["pair"]) else None))
    for k in KINDS:
        xl = aj["xlabels"].get(k, [])
        if TAGCOL[k] in xl:
            c = xl.index(TAGCOL[k])
            for tm in aj["terms"][k]:
                e.term[k].add((tm["x"][c], t[k][tm["ty"]] if tm["ty"] < len(t[k]) else None))
                if all(0 <= x < len(aj["atoms"]) for x in tm["a"]):
                    e.tatoms[k].add((tm["x"][c], tuple(aj["atoms"][x]["q"] for x in tm["a"])))
    return e


def transfer(exp, op, pre):
    """the expected identities after a VALID op, from those before it and the pre-state dumps `pre`"""
    k = op["k"]
    if k == "construct":
        exp[op["dst"]] = record(op["a"])
    elif k in ("copy", "replicate"):
        exp[op["dst"]] = exp[op["src"]].copy()
    elif k == "getitem":
        e = exp[op["src"]].copy()
        e.term = {kk: set() for kk in KINDS}     # by design a subset carries no terms
        e.tatoms = {kk: set() for kk in KINDS}
        exp[op["dst"]] = e
    elif k == "extend":
        e = exp[op["dst"]].copy()
        e.union(exp[op["src"]])
        d, s = pre[op["dst"]], pre[op["src"]]
        op = dict(op, map=norm_map(op["map"], len(s["atoms"]), len(d["atoms"])) or [])
        # the other's terms now connect, for every atom of the identity map, the atom of self it is identified with
        m = dict((a, b) for a, b in op["map"])
        for kk in KINDS:
            xl = s["xlabels"][kk]
            if TAGCOL[kk] in xl:
                c = xl.index(TAGCOL[kk])
                for tm in s["terms"][kk]:
                    if tm["x"][c] != "." and all(0 <= x < len(s["atoms"]) for x in tm["a"]):
                        e.tatoms[kk].add((tm["x"][c], tuple(d["atoms"][m[x]]["q"] if x in m else s["atoms"][x]["q"]
                                                            for x in tm["a"])))
        for a, b in op["map"]:
            # identity map: the atom of self adopts the type of the other's atom (its charge and group stay)
            lab, el, m = resolve_atom(s, a)
            e.atom.add((d["atoms"][b]["q"], lab, el, m, d["atoms"][b]["g"]))
            if s["types"]["pair"]:
                ty = s["atoms"][a]["ty"]
                e.pair.add((d["atoms"][b]["q"], s["types"]["pair"][ty] if ty < len(s["types"]["pair"]) else None))
        exp[op["dst"]] = e
    # delete / pop: unchanged


def check_arrays(a):
    """raw numpy arrays of the real object: one entry per atom / per term everywhere, shapes of the extra fields"""
    import numpy as np
    n = len(a.atom_types)
    pos = np.asarray(a.positions)
    if n == 0:
        if pos.size != 0:
            return "positions has %d values for 0 atoms" % pos.size
    elif pos.shape != (n, 3):
        return "positions has shape %s for %d atoms" % (pos.shape, n)
    for name in ("charges", "groups"):
        if len(getattr(a, name)) != n:
            return "%s has %d entries for %d atoms" % (name, len(getattr(a, name)), n)
    xf = np.asarray(a.extra_atom_fields)
    if xf.ndim != 2 or xf.shape != (n, len(a.extra_atom_labels)):
        return "extra_atom_fields has shape %s for %d atoms and %d labels" % (xf.shape, n, len(a.extra_atom_labels))
    for k, tups, types, xfn, xln, _ in core.KINDS:
        t = np.asarray(getattr(a, tups))
        ty = np.asarray(getattr(a, types))
        m = len(ty)
        if len(t) != m:
            return "%s has %d rows but %s has %d" % (tups, len(t), types, m)
        if m > 0 and (t.ndim != 2 or t.shape[1] != ARITY[k]):
            return "%s has shape %s" % (tups, t.shape)
        x = np.asarray(getattr(a, xfn))
        if x.ndim != 2 or x.shape != (m, len(getattr(a, xln))):
            return "%s has shape %s for %d terms and %d labels" % (xfn, x.shape, m, len(getattr(a, xln)))
        if m > 0 and (t.min() < 0 or ty.min() < 0):
            return "negative index or type id in %s" % tups
    return None


def check_object(a, d, e):
    """the property on one real object `a` (canonical dump `d`) with expected identities `e`; None or text"""
    bad = check_arrays(a)
    if bad:
        return "arrays inconsistent: " + bad
    n = len(d["atoms"])
    t = d["types"]
    known_q = {x[0] for x in e.atom}
    for i, r in enumerate(d["atoms"]):
        lab, el, m = resolve_atom(d, i)
        if lab is None or el is None or m is None:
            return "atom %d has type id %d without element/label/mass (tables of %d/%d/%d entries)" % (
                i, r["ty"], len(t["elem"]), len(t["label"]), len(t["mass"]))
        if r["q"] not in known_q:
            return "atom %d carries charge %s that no atom of this history was created with (per-atom arrays misaligned)" % (i, r["q"])
        if (r["q"], lab, el, m, r["g"]) not in e.atom:
            want = sorted(x[1:] for x in e.atom if x[0] == r["q"])
            return "atom %d (tag %s) resolves to label/element/mass/group %s, defined as %s" % (i, r["q"], (lab, el, m, r["g"]), want)
        if t["pair"]:
            if r["ty"] >= len(t["pair"]):
                return "atom %d has type id %d without a pair coefficient (table of %d)" % (i, r["ty"], len(t["pair"]))
            if (r["q"], t["pair"][r["ty"]]) not in e.pair:
                want = sorted(str(x[1]) for x in e.pair if x[0] == r["q"])
                return "atom %d (tag %s) resolves to pair coefficient %r, defined with %s" % (i, r["q"], t["pair"][r["ty"]], want)
    for k in KINDS:
        xl = d["xlabels"][k]
        c = xl.index(TAGCOL[k]) if TAGCOL[k] in xl else None
        for j, tm in enumerate(d["terms"][k]):
            if any(x < 0 or x >= n for x in tm["a"]):
                return "%s %d refers to atom outside 0..%d: %s" % (k, j, n - 1, tm["a"])
            if t[k] and tm["ty"] >= len(t[k]):
                return "%s %d has type id %d without a coefficient entry (table of %d)" % (k, j, tm["ty"], len(t[k]))
            if c is None or tm["x"][c] == ".":
                continue
            tag = tm["x"][c]
            defs = [x[1] for x in e.term[k] if x[0] == tag]
            if not defs:
                return "%s %d carries tag %r that no term of this history was created with" % (k, j, tag)
            if t[k] and t[k][tm["ty"]] not in defs:
                return "%s %d (tag %s) resolves to coefficient %r, defined with %r" % (k, j, tag, t[k][tm["ty"]], defs)
            who = tuple(d["atoms"][x]["q"] for x in tm["a"])
            if (tag, who) not in e.tatoms[k]:
                want = sorted(x[1] for x in e.tatoms[k] if x[0] == tag)
                return "%s %d (tag %s) now connects the atoms with identity tags %s, it was defined between %s" % (
                    k, j, tag, list(who), [list(w) for w in want])
    return None


# ---- LAMMPS data file: independent mini-reader

SECTIONS = ["Masses", "Pair Coeffs", "Bond Coeffs", "Angle Coeffs", "Dihedral Coeffs", "Improper Coeffs",
            "Atoms", "Bonds", "Angles", "Dihedrals", "Impropers"]
COUNT = {"bond": "bonds", "angle": "angles", "dihedral": "dihedrals", "improper": "impropers"}
SECT = {"bond": "Bonds", "angle": "Angles", "dihedral": "Dihedrals", "improper": "Impropers"}
CSECT = {"bond": "Bond Coeffs", "angle": "Angle Coeffs", "dihedral": "Dihedral Coeffs", "improper": "Improper Coeffs"}


def read_lmp(text):
    """header counts and the token rows of every section (comments stripped)"""
    header, sect, cur = {}, {}, None
    for raw in text.split("\n")[1:]:
        line = raw.split("#")[0].strip()
        if not line:
            continue
        if line in SECTIONS:
            cur = line
            sect[cur] = []
            continue
        if cur is None:
            m = re.match(r"^(\d+)\s+(atoms|bonds|angles|dihedrals|impropers|atom types|bond types|angle types|dihedral types|improper types)$", line)
            if m:
                header[m.group(2)] = int(m.group(1))
            continue
        sect[cur].append((line.split(), raw))
    return header, sect


def norm_ws(s):
    return " ".join(str(s).split())


def check_lammps(a, d):
    """save_lmpdat -> mini-reader -> load_lmpdat; None or text. Pre: >= 1 atom, cell None or lower-triangular."""
    from mofun import Atoms
    f = io.StringIO()
    try:
        with core.quiet():
            a.save_lmpdat(f)
    except Exception as ex:  # noqa
        return "save_lmpdat raised %s: %s" % (type(ex).__name__, ex)
    text = f.getvalue()
    hd, sc = read_lmp(text)
    n = len(d["atoms"])
    rows = lambda name: sc.get(name, [])
    if hd.get("atoms") != n or len(rows("Atoms")) != n:
        return "file declares %s atoms, Atoms section has %d, object has %d" % (hd.get("atoms"), len(rows("Atoms")), n)
    nat = hd.get("atom types", 0)
    if len(rows("Masses")) != nat:
        return "file declares %d atom types but Masses has %d lines" % (nat, len(rows("Masses")))
    if "Pair Coeffs" in sc and len(rows("Pair Coeffs")) != nat:
        return "file declares %d atom types but Pair Coeffs has %d lines" % (nat, len(rows("Pair Coeffs")))
    for i, (tok, _) in enumerate(rows("Atoms")):
        r = d["atoms"][i]
        if len(tok) != 7 or int(tok[0]) != i + 1 or int(tok[1]) != r["g"] + 1 or int(tok[2]) != r["ty"] + 1:
            return "Atoms line %d %s is not atom %d (group %d, type %d)" % (i + 1, tok, i, r["g"], r["ty"])
        if not 1 <= int(tok[2]) <= nat:
            return "Atoms line %d uses type %s outside the declared 1..%d" % (i + 1, tok[2], nat)
        if abs(float(tok[3]) - float(core.unq(r["q"]))) > 1e-5:
            return "Atoms line %d charge %s vs %s" % (i + 1, tok[3], r["q"])
        if any(abs(float(tok[4 + c]) - float(core.unq(r["pos"][c]))) > 1e-5 for c in range(3)):
            return "Atoms line %d position differs" % (i + 1)
    for k in KINDS:
        m = len(d["terms"][k])
        if hd.get(COUNT[k]) != m or len(rows(SECT[k])) != m:
            return "file declares %s %s, section has %d, object has %d" % (hd.get(COUNT[k]), COUNT[k], len(rows(SECT[k])), m)
        ntk = hd.get("%s types" % k, 0)
        if CSECT[k] in sc and len(rows(CSECT[k])) != ntk:
            return "file declares %d %s types but %s has %d lines" % (ntk, k, CSECT[k], len(rows(CSECT[k])))
        if len(rows(CSECT[k])) != len(d["types"][k]):
            return "%s has %d lines, the object's table %d entries" % (CSECT[k], len(rows(CSECT[k])), len(d["types"][k]))
        for i, (tok, _) in enumerate(rows(SECT[k])):
            tm = d["terms"][k][i]
            if [int(x) for x in tok] != [i + 1, tm["ty"] + 1] + [x + 1 for x in tm["a"]]:
                return "%s line %d %s is not term %s of type %d" % (SECT[k], i + 1, tok, tm["a"], tm["ty"])
            if not 1 <= int(tok[1]) <= ntk:
                return "%s line %d uses type %s outside the declared 1..%d" % (SECT[k], i + 1, tok[1], ntk)
            if any(not 1 <= int(x) <= n for x in tok[2:]):
                return "%s line %d refers to an atom outside 1..%d" % (SECT[k], i + 1, n)
    # read back with the real loader; for a share of the objects through the public dispatcher instead
    # (Atoms.save(path) / Atoms.load(path), path as str or pathlib.Path, file type from the extension or keyword)
    via = len(text) % 6
    try:
        with core.quiet():
            if via in (0, 1, 2):
                import pathlib
                import tempfile
                with tempfile.TemporaryDirectory(prefix="c09_") as tmp:
                    path = os.path.join(tmp, "x.lmpdat" if via != 2 else "x.dat")
                    arg = pathlib.Path(path) if via == 1 else path
                    kw = {"filetype": "lmpdat"} if via == 2 else {}
                    a.save(arg, **kw)
                    if open(path).read() != text:
                        return "Atoms.save(%s) wrote a file that differs from save_lmpdat" % type(arg).__name__
                    b = Atoms.load(arg, **kw)
            else:
                b = Atoms.load_lmpdat(io.StringIO(text))
        e = core.canon_atoms(b)
    except Exception as ex:  # noqa
        return "%s of the written file raised %s: %s" % ("Atoms.load" if via in (0, 1, 2) else "load_lmpdat", type(ex).__name__, ex)
    if [r["ty"] for r in e["atoms"]] != [r["ty"] for r in d["atoms"]]:
        return "atom types read back differ"
    if [r["g"] for r in e["atoms"]] != [r["g"] for r in d["atoms"]]:
        return "groups read back differ"
    if any(abs(float(core.unq(x["q"])) - float(core.unq(y["q"]))) > 1e-5 for x, y in zip(e["atoms"], d["atoms"])):
        return "charges read back differ"
    for k in KINDS:
        if [(t["a"], t["ty"]) for t in e["terms"][k]] != [(t["a"], t["ty"]) for t in d["terms"][k]]:
            return "%s terms read back differ" % k
        if [norm_ws(x) for x in e["types"][k]] != [norm_ws(x) for x in d["types"][k]]:
            return "%s coefficient table read back differs" % k
    if [norm_ws(x) for x in e["types"]["pair"]] != [norm_ws(x) for x in d["types"]["pair"]]:
        return "pair coefficient table read back differs"
    M = gen.masses()
    if all(el in M and abs(float(core.unq(m)) - M[el]) < 1e-4 for el, m in zip(d["types"]["elem"], d["types"]["mass"])):
        # a LAMMPS file stores masses, not elements: when every type carries the periodic-table mass of its element
        # the reader must find that element again (with a non-table mass anywhere it falls back to type ids: skipped)
        if e["types"]["elem"] != [str(x) for x in d["types"]["elem"]]:
            return "elements read back differ: %s, the object has %s (masses %s)" % (
                e["types"]["elem"], list(d["types"]["elem"]), [round(float(core.unq(m)), 4) for m in d["types"]["mass"]])
    if e["types"]["label"] != [str(x) for x in d["types"]["label"]]:
        return "atom type labels read back differ: %s vs %s" % (e["types"]["label"], d["types"]["label"])
    if len(e["types"]["mass"]) != len(d["types"]["mass"]) or any(
            abs(float(core.unq(x)) - float(core.unq(y))) > 1e-5 for x, y in zip(e["types"]["mass"], d["types"]["mass"])):
        return "masses read back differ"
    return None


# =============================================================================================== running a history

class Runner:
    """real objects + dumps + expected identities; `step` applies one op and evaluates the oracle"""

    def __init__(self, init=None, lammps=True):
        self.objs = [None] * NSLOTS
        self.exp = [None] * NSLOTS
        self.lammps = lammps
        self.npcache = {}
        if init:
            for i, aj in enumerate(init):
                if aj is not None:
                    self.objs[i] = core.atoms_from_json(aj) if aj["atoms"] else atomless_from_json(aj)
                    self.exp[i] = record(aj)
        self.dumps = dump_state(self.objs)
        self.oracle_on = True

    def fork(self, slots):
        """a copy that shares the objects of the slots not listed (the next op touches only `slots`)"""
        r = Runner.__new__(Runner)
        r.objs = list(self.objs)
        for i in slots:
            if r.objs[i] is not None:
                r.objs[i] = r.objs[i].copy()
        r.exp = [None if e is None else e.copy() for e in self.exp]
        r.dumps = list(self.dumps)
        r.lammps = self.lammps
        r.oracle_on = self.oracle_on
        r.npcache = self.npcache
        return r

    def step(self, op, valid=True):
        """-> (result, failure text or None); result = {"ok": dumps} | {"err": text}"""
        pre = self.dumps
        involved = {target(op)} | ({op["src"]} if "src" in op else set())
        for i in involved:       # accessors read BEFORE the op (whatever memoises, memoises the pre-state now)
            if 0 <= i < NSLOTS and self.objs[i] is not None:
                accessors.touch(self.objs[i])
        try:
            with core.quiet():
                apply_real(self.objs, op, self.npcache)
        except Exception as ex:  # noqa
            bad = None
            if valid and self.oracle_on:
                bad = "a valid %s raised %s: %s" % (op["k"], type(ex).__name__, ex)
            return {"err": "error:" + type(ex).__name__}, bad
        try:
            self.dumps = dump_state(self.objs)
        except Exception as ex:  # noqa
            return {"err": "dump:" + type(ex).__name__}, ("object can no longer be dumped after %s: %s" % (op["k"], ex)) if valid else None
        bad = None
        if not valid:
            self.oracle_on = False
        if self.oracle_on:
            transfer(self.exp, op, pre)
            tg = target(op)
            for i in range(NSLOTS):
                if self.objs[i] is None:
                    continue
                if i != tg and self.dumps[i] != pre[i]:
                    bad = "slot %d was changed by a %s on slot %d" % (i, op["k"], tg)
                    break
                bad = check_object(self.objs[i], self.dumps[i], self.exp[i])
                if not bad and i in involved:
                    # …and read AFTER it on the same object: accessors must say what the arrays say now
                    bad = accessors.problem(self.objs[i], ase_too=(i == tg))
                    if bad:
                        bad = "accessor out of date: " + bad
                if bad:
                    bad = "slot %d after %s: %s" % (i, op["k"], bad)
                    break
            if not bad and self.lammps:
                d = self.dumps[tg]
                if (d["atoms"] or d["types"]["elem"]) and lammps_cell(d["cell"]):
                    # (an atom-less object that carries type tables is written and read back too: the reader accepts
                    # files without atoms)
                    bad = check_lammps(self.objs[tg], d)
                    if bad:
                        bad = "slot %d after %s: LAMMPS file: %s" % (tg, op["k"], bad)
        return {"ok": self.dumps, "guarded": lean_guard(pre, op)}, bad


def run_history(init, ops, valid_upto=None, lammps=True, strict=False):
    """-> (per-step results, index of the first failing step or None, failure text);
    strict: stop with failure text "invalid" at an op that is outside the property's quantifier"""
    r = Runner(init, lammps)
    out, fail_at, what = [], None, None
    for i, op in enumerate(ops):
        if out and "err" in out[-1] or (out and out[-1].get("skipped")):
            out.append({"skipped": True})
            continue
        if strict and not guard_ok(r.dumps, op):
            return out, i, "invalid"
        res, bad = r.step(op, valid=(valid_upto is None or i < valid_upto))
        out.append(res)
        if bad and fail_at is None:
            fail_at, what = i, bad
    return out, fail_at, what


def oracle_history(h):
    out, k, what = run_history(h.get("init"), h["ops"], h.get("valid_upto"))
    return what


def shrink(h, budget=60):
    """greedy: drop ops (from the front) while the oracle still fails"""
    ops = list(h["ops"])
    i = 0
    while i < len(ops) and budget > 0:
        cand = ops[:i] + ops[i + 1:]
        budget -= 1
        try:
            w = run_history(h.get("init"), cand, h.get("valid_upto"), strict=True)[2]
        except Exception:  # noqa
            w = None
        if w and w != "invalid" and "raised" not in w:
            ops = cand
        else:
            i += 1
    return dict(h, ops=ops)


# =============================================================================================== op generators

def subsets(n):
    for r in range(1, n + 1):
        for c in itertools.combinations(range(n), r):
            yield list(c)


def injections(ns, nd):
    """every injective partial map from range(ns) into range(nd), as lists of [key, value]"""
    for r in range(0, min(ns, nd) + 1):
        for keys in itertools.combinations(range(ns), r):
            for vals in itertools.permutations(range(nd), r):
                yield [[k, v] for k, v in zip(keys, vals)]


def enum_ops(dumps, depth_left):
    """all ops of the bounded-exhaustive stream in a state: slot 0 = the structure worked on, slot 1 = the
    fragment, slot 2 = scratch (copies / subsets / replicas); only valid ops.  Every deletion subset of slot 0,
    every injective identity map from the fragment into slot 0."""
    d0, d1, d2 = dumps[0], dumps[1], dumps[2]
    out = []
    n0 = len(d0["atoms"])
    if n0 <= 4:
        for idx in subsets(n0):
            out.append({"k": "delete", "slot": 0, "idx": idx})
    else:   # after a replication / extension: singles, the full set and the complement of the first atom
        for idx in [[i] for i in range(n0)] + [list(range(n0)), list(range(1, n0))]:
            out.append({"k": "delete", "slot": 0, "idx": idx})
    if n0:
        out.append({"k": "pop", "slot": 0, "i": -1, "default": True})
    for s, ds in ((1, d1), (2, d2)):
        if ds is None:
            continue
        ns = len(ds["atoms"])
        if n0 + ns > 12:
            continue
        if compat(d0, ds):
            if s == 1 and n0 <= 3:
                maps = injections(ns, n0)
            else:
                maps = [[], [[0, 0]]] if (ns and n0) else [[]]
            for m in maps:
                out.append({"k": "extend", "dst": 0, "src": s, "offsets": None, "map": m})
        z = [0, 0, 0, 0, 0]
        if s == 2 and ns and offsets_valid(d0, ds, z):
            out.append({"k": "extend", "dst": 0, "src": 2, "offsets": z, "map": []})
    if d0["cell"] is not None and n0 and n0 * 2 <= 12:
        out.append({"k": "replicate", "src": 0, "dst": 0, "dims": [2, 1, 1]})
    if n0:
        for idx in [[i] for i in range(min(n0, 3))] + ([list(range(n0))] if n0 > 1 else []):
            out.append({"k": "getitem", "src": 0, "dst": 2, "idx": idx})
    out.append({"k": "copy", "src": 0, "dst": 2})
    # widened index conventions: negative / repeated integers in a deletion or subset, the object extended with
    # itself — as LAST op of a sequence only (they reach states the other ops reach too; keeps the tree size)
    if n0 and depth_left == 1:
        out.append({"k": "delete", "slot": 0, "idx": [-1, n0 - 1, -1]})
        out.append({"k": "getitem", "src": 0, "dst": 2, "idx": [-1, 0, -1]})
        out.append({"k": "getitem", "src": 0, "dst": 2, "idx": [], "spell": "tuple"})
        if d1 is not None and d1["atoms"] and compat(d0, d1) and n0 + len(d1["atoms"]) <= 12:
            out.append({"k": "extend", "dst": 0, "src": 1, "offsets": None, "map": [[-1, -1]]})
        if 2 * n0 <= 12:
            out.append({"k": "extend", "dst": 0, "src": 0, "offsets": None, "map": []})
            out.append({"k": "extend", "dst": 0, "src": 0, "offsets": None, "map": [[n0 - 1, n0 - 1]]})
    return out


def rand_map(rng, ns, nd, big=False):
    r = rng.choice([0, 0, 1, 1, 2, 3]) if not big else rng.randint(0, min(ns, nd))
    r = min(r, ns, nd)
    keys = rng.sample(range(ns), r)
    vals = rng.sample(range(nd), r)
    return [[k, v] for k, v in zip(keys, vals)]


def kill_kind_indices(d, rng):
    """a minimal-ish set of atoms whose deletion removes every term of one kind that has terms"""
    ks = [k for k in KINDS if d["terms"][k]]
    if not ks:
        return None
    k = rng.choice(ks)
    idx = set()
    for t in d["terms"][k]:
        if not (set(t["a"]) & idx):
            idx.add(rng.choice(t["a"]))
    return sorted(idx)


def rand_op(rng, run, tg, last_offsets):
    """one random VALID op for the current state of `run` (None when the draw is not applicable)"""
    dumps = run.dumps
    full = [i for i in range(NSLOTS) if dumps[i] is not None]
    kind = rng.choice(["construct", "copy", "delete", "delete", "pop", "extend", "extend", "extend", "replicate", "getitem"])
    if kind == "construct" or not full:
        empty = [i for i in range(NSLOTS) if dumps[i] is None]
        dst = rng.choice(empty) if empty and rng.random() < 0.8 else rng.randrange(NSLOTS)
        u = rng.random()
        cands = [i for i in full if i != dst and dumps[i]["atoms"]]
        if u < 0.3 and cands:
            # a twin built from the attribute arrays of an existing object: later ops on either must not reach the other
            j = rng.choice(cands)
            return {"k": "construct", "dst": dst, "a": _deep(dumps[j]), "twin_of": j}
        op = {"k": "construct", "dst": dst, "a": rand_struct(rng, tg, nmax=rng.choice([3, 6, 8]))}
        if u > 0.88:
            # an atom-less structure that carries type tables (to be extended later)
            op["a"] = tables_only(op["a"])
        elif u > 0.70 and op["a"]["atoms"]:
            # a starting point that comes out of a loader / converter instead of the constructor
            via = "lmpdat" if (u > 0.76 and lammps_cell(op["a"]["cell"])) else "ase"
            if via == "ase":
                from ase.data import atomic_numbers
                if not all(e in atomic_numbers for e in op["a"]["types"]["elem"]):
                    via = None
            if via:
                try:
                    lit = core.canon_atoms(converted(op["a"], via))
                    op = {"k": "construct", "dst": dst, "a": lit, "via": via, "from": op["a"]}
                except Exception:  # noqa  (a loader that raises on a written file is check_lammps's business)
                    pass
        elif u < 0.6:
            op["np"] = "r%d" % tg.n
        return op
    s = rng.choice(full)
    d = dumps[s]
    n = len(d["atoms"])
    if kind == "copy":
        return {"k": "copy", "src": s, "dst": rng.choice([i for i in range(NSLOTS) if i != s])}
    if kind == "delete":
        if n == 0:
            return None
        u = rng.random()
        if u < 0.12:
            idx = list(range(n))
        elif u < 0.35:
            idx = kill_kind_indices(d, rng) or [rng.randrange(n)]
        else:
            idx = rng.sample(range(n), rng.randint(1, max(1, min(n, 1 + n // 3))))
        rng.shuffle(idx)
        u = rng.random()
        if u < 0.35:        # numpy spelling of the same positions: k or k - n
            idx = [i - n if rng.random() < 0.5 else i for i in idx]
        if u < 0.12:        # a repeated position (possibly in the other spelling)
            k = rng.choice(idx)
            idx.insert(rng.randrange(len(idx) + 1), rng.choice([k, k % n, k % n - n]))
        return {"k": "delete", "slot": s, "idx": idx, "spell": rng.choice(SPELLINGS)}
    if kind == "pop":
        if n == 0:
            return None
        if rng.random() < 0.4:
            return {"k": "pop", "slot": s, "i": -1, "default": True}
        if rng.random() < 0.3:      # positions outside [-n, n) are folded by the code (pos % n), not rejected
            return {"k": "pop", "slot": s, "i": rng.choice([rng.randint(-4 * n, 4 * n), n, -n - 1])}
        return {"k": "pop", "slot": s, "i": rng.randint(-n, n - 1)}
    if kind == "extend":
        if n and 2 * n <= MAXATOMS and rng.random() < 0.12:
            # the object extended with ITSELF; only diagonal identity maps ("atom k is atom k") are inside the quantifier
            keys = rng.sample(range(n), rng.choice([0, 0, 1, min(2, n), n]))
            return {"k": "extend", "dst": s, "src": s, "offsets": rng.choice([None, None, [0, 0, 0, 0, 0], [0, 0, 0, 0]]),
                    "map": [[k - n if rng.random() < 0.3 else k, k - n if rng.random() < 0.3 else k] for k in keys]}
        others = [i for i in full if i != s]
        if not others:
            return None
        src = rng.choice(others)
        ds = dumps[src]
        ns = len(ds["atoms"])
        if n + ns > MAXATOMS:
            return None
        cands = []
        if compat(d, ds):
            cands.append(None)
            cands.append(None)
        z = [0, 0, 0, 0, 0]
        if ns and offsets_valid(d, ds, z):
            cands.append(z)
        lo = last_offsets.get((s, src))
        if lo and ns and offsets_valid(d, ds, lo):
            cands.append(lo)
        if not cands:
            return None
        off = rng.choice(cands)
        m = rand_map(rng, ns, n)
        if rng.random() < 0.35:      # numpy spelling of the same atoms: k - len(other), v - len(self)
            m = [[a - ns if rng.random() < 0.5 else a, b - n if rng.random() < 0.5 else b] for a, b in m]
        if off is not None and rng.random() < 0.4 and not ds["terms"]["improper"]:
            off = off[:4]            # the documented four-entry tuple (from before impropers had an offset of their own)
        op = {"k": "extend", "dst": s, "src": src, "offsets": off, "map": m,
              "spell": rng.choice(["dict", "dict", "npint"])}
        if off is not None and op["map"]:
            # with explicit offsets a mapped atom adopts (type + offset): fine, `offsets_valid` covers every atom
            pass
        return op
    if kind == "replicate":
        if d["cell"] is None or n == 0:
            return None
        dims = rng.choice([[1, 1, 1], [2, 1, 1], [1, 2, 1], [1, 1, 2], [2, 2, 1], [3, 1, 1], [2, 1, 2], [1, 3, 2]])
        if n * dims[0] * dims[1] * dims[2] > MAXATOMS:
            return None
        return {"k": "replicate", "src": s, "dst": rng.randrange(NSLOTS), "dims": dims}
    if kind == "getitem":
        if n == 0:
            return None
        idx = rng.sample(range(n), rng.randint(1, n))
        if rng.random() < 0.15:
            idx.append(rng.choice(idx))
        if rng.random() < 0.4:      # np.take wraps negative integers: any of them may be written as i - n
            idx = [i - n if rng.random() < 0.5 else i for i in idx]
        if rng.random() < 0.08:
            idx = []                # the empty selection: the atom-less subset that keeps the type tables
        return {"k": "getitem", "src": s, "dst": rng.randrange(NSLOTS), "idx": idx, "spell": rng.choice(SPELLINGS)}
    return None


def gen_random_history(rng, length, lammps=True):
    """a random valid history generated against the real code (ops depend on the evolving state);
    -> (history, per-step results, failing step, failure text)"""
    tg = Tagger()
    run = Runner(None, lammps)
    ops, out = [], []
    fail_at = what = None
    last_offsets = {}
    # start: two or three objects
    starts = [{"k": "construct", "dst": i, "a": rand_struct(rng, tg, nmax=rng.choice([3, 5, 8]))}
              for i in range(rng.choice([2, 2, 3]))]
    tries = 0
    while len(ops) < length and tries < length * 20:
        tries += 1
        op = starts.pop(0) if starts else rand_op(rng, run, tg, last_offsets)
        if op is None:
            continue
        if op["k"] == "extend" and op["offsets"] is None:
            last_offsets[(op["dst"], op["src"])] = type_counts(run.dumps[op["dst"]])
        res, bad = run.step(op)
        ops.append(op)
        out.append(res)
        if bad and fail_at is None:
            fail_at, what = len(ops) - 1, bad
        if "err" in res or bad:
            break
    return {"op": "hist", "init": [None] * NSLOTS, "ops": ops, "dump": "changed"}, out, fail_at, what


def directed(rng):
    """the special cases named by the property, for every kind: empty a term kind (table stays) then extend with a
    typed fragment; remove all atoms then extend; both with and without tables, with and without identity maps.
    Ops whose guard does not hold in the state reached are dropped (checked against the real code's own states)."""
    hs = []
    for rep in range(3):
        for kind in KINDS:
            for tables in (True, False):
                tg = Tagger()
                n = rng.randint(ARITY[kind], 6)
                a = retag(gen.rand_atoms(rng, n=n, kinds=[kind] + ([rng.choice(KINDS)] if rep else []), coeffs=tables,
                                         pair=tables, extras=bool(rep % 2), cell=rng.choice(["ortho", "tri+", False]),
                                         label_style="tagged"), tg)
                inverted_elements(a, rng, 0.4)
                odd_mass(a, rng, 0.6)
                b = retag(gen.rand_atoms(rng, n=rng.randint(ARITY[kind], 5), kinds=[kind], coeffs=tables, pair=tables,
                                         extras=bool(rep % 2), cell=False, label_style="tagged"), tg)
                inverted_elements(b, rng, 0.4)
                odd_mass(b, rng, 0.4)
                kill = sorted({t["a"][rng.randrange(ARITY[kind])] for t in a["terms"][kind]})
                rest = len(a["atoms"]) - len(kill)
                m = rand_map(rng, len(b["atoms"]), rest) if rest else []
                ops = [{"k": "construct", "dst": 0, "a": a}, {"k": "construct", "dst": 1, "a": b},
                       {"k": "copy", "src": 0, "dst": 2},
                       {"k": "delete", "slot": 0, "idx": kill},
                       {"k": "extend", "dst": 0, "src": 1, "offsets": None, "map": m},
                       {"k": "delete", "slot": 2, "idx": list(range(len(a["atoms"])))},
                       {"k": "extend", "dst": 2, "src": 1, "offsets": None, "map": []},
                       {"k": "extend", "dst": 2, "src": 0, "offsets": None, "map": []},
                       {"k": "replicate", "src": 2, "dst": 3, "dims": [1, 2, 1]},
                       {"k": "pop", "slot": 2, "i": -1, "default": True},
                       {"k": "construct", "dst": 3, "a": tables_only(a)},
                       {"k": "extend", "dst": 3, "src": 1, "offsets": None, "map": []},
                       {"k": "extend", "dst": 3, "src": 0, "offsets": None, "map": []},
                       {"k": "getitem", "src": 0, "dst": 3, "idx": []},
                       {"k": "extend", "dst": 3, "src": 1, "offsets": None, "map": []},
                       {"k": "getitem", "src": 2, "dst": 3, "idx": [0]},
                       {"k": "getitem", "src": 1, "dst": 3, "idx": list(range(len(b["atoms"])))[::-1]},
                       {"k": "extend", "dst": 3, "src": 1, "offsets": None, "map": []}]
                # dry run on the real code (no oracle) to keep only the ops that are valid where they stand
                dry = [None] * NSLOTS
                kept = []
                for op in ops:
                    if not guard_ok(dump_state(dry), op):
                        continue
                    try:
                        with core.quiet():
                            apply_real(dry, op)
                    except Exception:  # noqa  (a valid op that raises is the oracle's business: keep it)
                        kept.append(op)
                        break
                    kept.append(op)
                hs.append({"op": "hist", "init": [None] * NSLOTS, "ops": kept, "dump": "full"})
    return hs


def malformed(rng, count):
    """histories whose LAST op is outside the property's quantifier; compared model-vs-code only"""
    hs = []
    for _ in range(count):
        tg = Tagger()
        a = rand_struct(rng, tg, nmax=5)
        b = rand_struct(rng, tg, nmax=4)
        na, nb = len(a["atoms"]), len(b["atoms"])
        ops = [{"k": "construct", "dst": 0, "a": a}, {"k": "construct", "dst": 1, "a": b}]
        c = rng.choice(["incompat", "incompat", "delete_oob", "map_oob_key", "map_oob_val", "nocell", "getitem_oob", "empty_slot",
                        "delete_dup", "delete_dup", "self_chain", "self_chain", "getitem_neg_oob"])
        if c == "incompat":
            ops.append({"k": "extend", "dst": 0, "src": 1, "offsets": None, "map": rand_map(rng, nb, na)})
            ops.append({"k": "copy", "src": 0, "dst": 2})
            if compat(a, b):
                c = "compat"
        elif c == "delete_oob":
            ops.append({"k": "delete", "slot": 0, "idx": [na + rng.randint(0, 2)]})
        elif c == "delete_dup":      # repeated indices: survivors are lowered once per repetition (model = code)
            k = rng.randrange(na)
            ops.append({"k": "delete", "slot": 0, "idx": [k, rng.randrange(na), k]})
            ops.append({"k": "copy", "src": 0, "dst": 2})
        elif c == "self_chain":      # a.extend(a, map) with a non-diagonal map: the code reads types it has just written
            if na < 2:
                a = rand_struct(rng, tg, nmax=5)
                while len(a["atoms"]) < 2:
                    a = rand_struct(rng, tg, nmax=5)
                na = len(a["atoms"])
                ops[0] = {"k": "construct", "dst": 0, "a": a}
            ks = rng.sample(range(na), rng.randint(2, min(3, na)))
            ops.append({"k": "extend", "dst": 0, "src": 0, "offsets": None, "map": [[ks[i], ks[(i + 1) % len(ks)]] for i in range(len(ks))]})
            ops.append({"k": "copy", "src": 0, "dst": 2})
        elif c == "getitem_neg_oob":
            ops.append({"k": "getitem", "src": 0, "dst": 2, "idx": [-1, -na - 1]})
        elif c == "map_oob_key":
            ops.append({"k": "extend", "dst": 0, "src": 1, "offsets": None, "map": [[nb + rng.randint(0, 1), 0]]})
        elif c == "map_oob_val":
            ops.append({"k": "extend", "dst": 0, "src": 1, "offsets": None, "map": [[0, na + rng.randint(0, 1)]]})
        elif c == "nocell":
            a["cell"] = None
            ops.append({"k": "replicate", "src": 0, "dst": 2, "dims": [2, 1, 1]})
        elif c == "getitem_oob":
            ops.append({"k": "getitem", "src": 0, "dst": 2, "idx": [0, na]})
        else:
            ops.append({"k": "copy", "src": 3, "dst": 2})
        ops.append({"k": "pop", "slot": 1, "i": 0})
        hs.append(({"op": "hist", "init": [None] * NSLOTS, "ops": ops, "dump": "full", "valid_upto": 2}, c))
    return hs


# =============================================================================================== comparison

def norm_result(r):
    """error KINDS are compared where both sides define one: an index outside the array (numpy IndexError; the code's
    `pos % 0` for pop on an atom-less structure is the model's index error too) against everything else"""
    if "err" in r:
        e = str(r["err"])
        return {"err": "index" if e in ("error:index", "error:IndexError", "error:ZeroDivisionError") else "other"}
    return r


def assemble_model(h, model):
    """model results -> per-step full states (the model may report only the slot an op wrote)"""
    if not isinstance(model, list):
        return model
    state = list(h.get("init") or [None] * NSLOTS)
    out = []
    for r in model:
        if isinstance(r, dict) and "ok" in r:
            if isinstance(r["ok"], dict):
                state = list(state)
                state[r["ok"]["slot"]] = r["ok"]["a"]
            else:
                state = r["ok"]
            out.append({"ok": state, "guarded": r.get("guarded")})
        else:
            out.append(norm_result(r) if isinstance(r, dict) else r)
    return out


def wire(h):
    """the op line sent to the Lean driver (bookkeeping keys removed)"""
    return {"op": "hist", "init": h.get("init") or [None] * NSLOTS, "ops": h["ops"], "dump": h.get("dump", "full")}


_POOL = None


def compare_batch(ctx, batch):
    """batch: list of (history, impl per-step results). The Lean driver runs in a worker thread (it is a
    subprocess) while the real code keeps running; at most three batches are in flight."""
    global _POOL
    if not batch:
        return
    if _POOL is None:
        from concurrent.futures import ThreadPoolExecutor
        _POOL = ThreadPoolExecutor(max_workers=3)
    batch = list(batch)
    pend = ctx.__dict__.setdefault("_c09_pending", [])
    pend.append((batch, _POOL.submit(ctx.lean.run, [wire(h) for h, _ in batch])))
    while len(pend) > 3:
        _finish(ctx, *pend.pop(0))


def _finish(ctx, batch, fut):
    models = fut.result()
    for (h, impl), m in zip(batch, models):
        ctx.compare("hist", wire(h), [norm_result(r) for r in impl], assemble_model(h, m))
        ctx.count("steps_compared", len([r for r in impl if "ok" in r]))


def drain(ctx):
    pend = ctx.__dict__.setdefault("_c09_pending", [])
    while pend:
        _finish(ctx, *pend.pop(0))


def features(h, out):
    """(nontrivial?, flags) of an executed history"""
    flags = set()
    touched = set()
    emptied_kind, emptied_atoms = set(), set()
    has_del = has_ext_after = False
    prev = h.get("init") or [None] * NSLOTS
    for op, r in zip(h["ops"], out):
        if "ok" not in r:
            break
        st = r["ok"]
        t = target(op)
        if op["k"] in ("delete", "pop"):
            has_del = True
            before, after = prev[t], st[t]
            for k in KINDS:
                if before["terms"][k] and not after["terms"][k]:
                    emptied_kind.add((t, k))
            if before["atoms"] and not after["atoms"]:
                emptied_atoms.add(t)
        if op["k"] == "extend":
            if t in touched:
                has_ext_after = True
            src = prev[op["src"]]
            for k in KINDS:
                if (t, k) in emptied_kind and src["terms"][k]:
                    flags.add("emptied-kind-then-extend")
                    if prev[t]["types"][k]:
                        flags.add("emptied-kind-with-table-then-extend")
            if t in emptied_atoms and not prev[t]["atoms"] and src["atoms"]:
                flags.add("all-atoms-removed-then-extend")
            if op["map"]:
                flags.add("extend-with-identity-map")
            if op["offsets"] is not None:
                flags.add("extend-explicit-offsets")
        if op["k"] in ("copy", "replicate", "getitem", "construct"):
            for k in KINDS:
                emptied_kind.discard((t, k))
            emptied_atoms.discard(t)
        if op["k"] != "construct":
            touched.add(t)
        else:
            touched.discard(t)
        prev = st
    alive = any(s is not None and any(s["terms"][k] for k in KINDS) for s in prev)
    return (has_del and has_ext_after and alive), flags


def account(ctx, h, out, fail_at, what, stream):
    nt, flags = features(h, out)
    ctx.case(wire(h), nontrivial=nt, sample_every=400)
    ctx.count("stream:" + stream)
    ctx.count("len:%d" % (10 * (len(h["ops"]) // 10)) if stream == "random" else "len:%d" % len(h["ops"]))
    for op in h["ops"]:
        ctx.count("op:" + op["k"])
        if op["k"] == "construct":
            ctx.count("construct:non-table-mass" if has_odd_mass(op["a"]) else "construct:table-masses")
            if op.get("via"):
                ctx.count("construct:via-" + op["via"])
    if stream == "exhaustive":
        ctx.count("init:non-table-mass" if any(a is not None and has_odd_mass(a) for a in h["init"]) else "init:table-masses")
    for f in flags:
        ctx.count(f)
    if what:
        hh = dict(h, ops=h["ops"][:fail_at + 1])
        what2 = what
        if len(ctx.failures) < 3:
            try:
                h3 = shrink(hh)
                w3 = oracle_history(h3)
                if w3:
                    hh, what2 = h3, w3
            except Exception:  # noqa
                pass
        try:
            tags = sorted(features(hh, run_history(hh.get("init"), hh["ops"], hh.get("valid_upto"), lammps=False)[0])[1])
        except Exception:  # noqa
            tags = sorted(flags)
        ctx.fail(what2, wire(hh) if "valid_upto" not in hh else dict(wire(hh), valid_upto=hh["valid_upto"]),
                 observed=what2, required="C09: consistent arrays, resolvable type ids, unchanged meaning, writable LAMMPS file",
                 tags=tags)


# =============================================================================================== streams

def stream_directed(ctx, compare=True):
    batch = []
    for h in directed(ctx.rng):
        out, k, what = run_history(h["init"], h["ops"])
        account(ctx, h, out, k, what, "directed")
        batch.append((h, out))
    if compare:
        compare_batch(ctx, batch)


def stream_random(ctx, count, lo, hi, compare=True):
    batch = []
    for _ in range(count):
        h, out, k, what = gen_random_history(ctx.rng, ctx.rng.randint(lo, hi))
        account(ctx, h, out, k, what, "random")
        batch.append((h, out))
        if len(batch) >= 100:
            if compare:
                compare_batch(ctx, batch)
            batch = []
    if compare:
        compare_batch(ctx, batch)


def stream_malformed(ctx, count):
    batch = []
    for h, c in malformed(ctx.rng, count):
        out, k, what = run_history(h["init"], h["ops"], valid_upto=h["valid_upto"])
        ctx.evaluations += 1
        ctx.count("stream:malformed")
        ctx.count("malformed:" + c)
        if what:   # the valid prefix (two constructs) must still satisfy the oracle
            ctx.fail(what, dict(wire(h), valid_upto=h["valid_upto"]), observed=what)
        batch.append((h, out))
    compare_batch(ctx, batch)


def stream_exhaustive(ctx, depth, pairs, limit=None, compare=True):
    """DFS over all valid op sequences up to `depth` from (P in slot 0, Q in slot 1); with `limit`, a random sample
    of the children is followed at every node so that about `limit` leaves are visited per pair"""
    rng = ctx.rng
    total = 0
    for (pn, P), (qn, Q) in pairs:
        tg = Tagger()
        init = [retag(_deep(P), tg), retag(_deep(Q), tg), None, None]
        root = Runner(init)
        bad0 = None
        for i in (0, 1):
            bad0 = bad0 or check_object(root.objs[i], root.dumps[i], root.exp[i])
        if bad0:
            ctx.fail("pool structure %s/%s: %s" % (pn, qn, bad0), {"op": "hist", "init": init, "ops": []}, observed=bad0)
            continue
        batch = []
        state = {"leaves": 0}

        def rec(run, path, outs, d):
            ops = enum_ops(run.dumps, d)
            if limit is not None:
                # sample: keep branching factor ~ limit^(1/depth)
                bf = max(2, int(round(limit ** (1.0 / depth))))
                if len(ops) > bf:
                    ops = rng.sample(ops, bf)
            for op in ops:
                slots = [target(op)] + ([op["src"]] if "src" in op else [])
                r2 = run.fork(slots)
                res, bad = r2.step(op)
                p2, o2 = path + [op], outs + [res]
                leaf = bad or "err" in res or d == 1
                if leaf:
                    h = {"op": "hist", "init": init, "ops": p2, "dump": "changed"}
                    account(ctx, h, o2, len(p2) - 1 if bad else None, bad, "exhaustive")
                    batch.append((h, o2))
                    state["leaves"] += 1
                    if len(batch) >= 2000:
                        if compare:
                            compare_batch(ctx, batch)
                        del batch[:]
                else:
                    rec(r2, p2, o2, d - 1)

        rec(root, [], [], depth)
        if compare:
            compare_batch(ctx, batch)
        ctx.count("pair:%s+%s" % (pn, qn), state["leaves"])
        total += state["leaves"]
    return total


def _deep(j):
    import json
    return json.loads(json.dumps(j))


def pool_pairs(ctx, quick):
    P = pool()
    big = [p for p in P if p[0].startswith("P")]
    small = [p for p in P if p[0].startswith("Q")]
    pairs = [(p, q) for p in big for q in small]
    pairs += [(small[0], small[3]), (small[3], big[0])]
    t1 = [p for p in P if p[0] == "T1"][0]
    pairs += [(t1, small[0]), (t1, small[2])]        # tables-only structure extended by Q1 / Q3
    return pairs



# =============================================================================================== aliasing probes

def aliasing_history(rng):
    """two objects constructed from the SAME numpy arrays, a third from the attribute arrays of an existing object,
    then mutating ops (extend with an identity map, delete, pop) on one of them at a time: whatever is done to one
    object, the others must stay exactly as they were (checked for all slots after every step)"""
    tg = Tagger()
    tables = rng.random() < 0.6
    a = rand_struct(rng, tg, nmax=rng.choice([4, 6]), coeffs=tables, pair=tables)
    while len(a["atoms"]) < 2:
        a = rand_struct(rng, tg, nmax=6, coeffs=tables, pair=tables)
    b = rand_struct(rng, tg, nmax=4, coeffs=tables, pair=tables, cell=False)
    ops = [{"k": "construct", "dst": 0, "a": a, "np": "A"}, {"k": "construct", "dst": 1, "a": _deep(a), "np": "A"},
           {"k": "construct", "dst": 2, "a": b, "np": "B"}]
    run = Runner(None, lammps=False)
    run.oracle_on = False
    for op in ops:
        run.step(op)
    for _ in range(rng.randint(3, 6)):
        d = run.dumps
        c = rng.choice(["extend", "extend", "delete", "pop", "twin", "extend_twin"])
        tgt = rng.choice([i for i in (0, 1, 3) if d[i] is not None])
        n = len(d[tgt]["atoms"])
        op = None
        if c in ("extend", "extend_twin") and n and d[2]["atoms"] and compat(d[tgt], d[2]) and n + len(d[2]["atoms"]) <= MAXATOMS:
            m = rand_map(rng, len(d[2]["atoms"]), n, big=True) or [[0, rng.randrange(n)]]
            op = {"k": "extend", "dst": tgt, "src": 2, "offsets": None, "map": m}
        elif c == "delete" and n > 1:
            op = {"k": "delete", "slot": tgt, "idx": rng.sample(range(n), rng.randint(1, n - 1))}
        elif c == "pop" and n > 1:
            op = {"k": "pop", "slot": tgt, "i": rng.randint(-n, n - 1)}
        elif c == "twin":
            src = rng.choice([i for i in (0, 1) if d[i]["atoms"]] or [None])
            if src is not None:
                op = {"k": "construct", "dst": 3, "a": _deep(d[src]), "twin_of": src}
        if op is None:
            continue
        ops.append(op)
        res, _ = run.step(op)
        if "err" in res:
            break
    return {"op": "hist", "init": [None] * NSLOTS, "ops": ops, "dump": "full"}


def stream_aliasing(ctx, count, compare=True):
    batch = []
    for _ in range(count):
        h = aliasing_history(ctx.rng)
        out, k, what = run_history(h["init"], h["ops"])
        account(ctx, h, out, k, what, "aliasing")
        batch.append((h, out))
    if compare:
        compare_batch(ctx, batch)


# =============================================================================================== known finding stream

MISALIGNED_TAG = "coefficient-table-misaligned"
VARIANTS = KINDS + ["pair"]


def misaligned_kinds(d, s):
    """the kinds (term kinds, "pair") for which `d.extend(s)` with default offsets violates the compatibility clause:
    one side uses ids of the kind without having a table while the other side brings a table"""
    def side(has_items, table):
        return (not has_items) or len(table) > 0
    out = []
    dp, sp = d["types"]["pair"], s["types"]["pair"]
    if not ((not dp and not sp) or (side(d["types"]["elem"], dp) and side(s["types"]["elem"], sp))):
        out.append("pair")
    for k in KINDS:
        dt, st = d["types"][k], s["types"][k]
        if not ((not dt and not st) or (side(d["terms"][k], dt) and side(s["terms"][k], st))):
            out.append(k)
    return out


def misaligned_history(rng, variant, direction):
    """[construct a, construct b, (copy), a.extend(b)] where both objects are consistent, and exactly for `variant`
    one side has ids in use without a table and the other side has a table; direction 0: self without table,
    1: other without table. Everything else about the two objects is compatible."""
    tg = Tagger()
    ta, tb = (False, True) if direction == 0 else (True, False)
    if variant == "pair":
        kinds = rng.choice([[], ["bond"]])
        kw = dict(kinds=kinds, coeffs=True, extras=False, label_style="tagged")
        a = gen.rand_atoms(rng, n=rng.randint(2, 4), pair=ta, cell=rng.choice(["ortho", False]), **kw)
        b = gen.rand_atoms(rng, n=rng.randint(2, 3), pair=tb, cell=False, **kw)
    else:
        pair = rng.random() < 0.5
        ar = ARITY[variant]
        kw = dict(kinds=[variant], pair=pair, extras=False, label_style="tagged")
        a = gen.rand_atoms(rng, n=rng.randint(ar, ar + 2), coeffs=ta, cell=rng.choice(["ortho", False]), **kw)
        b = gen.rand_atoms(rng, n=rng.randint(ar, ar + 1), coeffs=tb, cell=False, **kw)
    a, b = retag(a, tg), retag(b, tg)
    ops = [{"k": "construct", "dst": 0, "a": a}, {"k": "construct", "dst": 1, "a": b}]
    if rng.random() < 0.5:
        ops.append({"k": "copy", "src": 0, "dst": 2})
    m = rand_map(rng, len(b["atoms"]), len(a["atoms"])) if rng.random() < 0.5 else []
    ops.append({"k": "extend", "dst": 0, "src": 1, "offsets": None, "map": m})
    return {"op": "hist", "init": [None] * NSLOTS, "ops": ops, "dump": "full"}


_COEFF_MSG = {
    "pair": re.compile(r"(atom \d+ .*(without a pair coefficient|resolves to pair coefficient))|Pair Coeffs has|pair coefficient table"),
}
for _k in KINDS:
    _COEFF_MSG[_k] = re.compile(r"(%s \d+ .*(without a coefficient entry|resolves to coefficient))|%s has \d+ lines|declares \d+ %s types|%s coefficient table"
                                % (_k, CSECT[_k], _k, _k))


def attribute_misaligned(h, fail_at, what):
    """is this oracle failure the known misalignment? Only if it arises AT the one incompatible extend of the
    history, and the failure is about the coefficient / pair-coefficient data of a kind for which that extend
    violates the compatibility clause. Anything else (other step, other array, other kind) is not attributed."""
    if what is None or fail_at is None:
        return False
    op = h["ops"][fail_at]
    if op["k"] != "extend" or op.get("offsets") is not None:
        return False
    out, _, _ = run_history(h.get("init"), h["ops"][:fail_at], lammps=False)
    if not out or "ok" not in out[-1]:
        return False
    pre = out[-1]["ok"]
    d, sd = pre[op["dst"]], pre[op["src"]]
    if d is None or sd is None:
        return False
    return any(_COEFF_MSG[k].search(what) for k in misaligned_kinds(d, sd))


def stream_misaligned(ctx, count, compare=True):
    """the known finding C09-coefficient-table-misaligned, reproduced on every run: consistent inputs, one
    supported operation, and afterwards type ids in use without / with another object's coefficient text"""
    rng = ctx.rng
    batch = []
    combos = [(v, d) for v in VARIANTS for d in (0, 1)]
    if count < len(combos):
        combos = rng.sample(combos, count)
    else:
        combos = [combos[i % len(combos)] for i in range(count)]
    for variant, direction in combos:
        h = misaligned_history(rng, variant, direction)
        out, k, what = run_history(h["init"], h["ops"])
        ctx.case(wire(h), nontrivial=True)
        ctx.count("stream:misaligned")
        ctx.count("misaligned:%s/%s" % (variant, "self-without-table" if direction == 0 else "other-without-table"))
        if what:
            hh = dict(h, ops=h["ops"][:k + 1])
            known = attribute_misaligned(h, k, what)
            ctx.count("misaligned:reproduced" if known else "misaligned:other-failure")
            ctx.fail(what, wire(hh), observed=what,
                     required="C09: every type id in use has its type-level data and resolves to the text it was defined with",
                     tags=[MISALIGNED_TAG] if known else [])
        else:
            ctx.count("misaligned:not-reproduced")
            ctx.notes.append("misaligned extend (%s, direction %d) did not fail the oracle" % (variant, direction))
        batch.append((h, out))
    if compare:
        compare_batch(ctx, batch)




# =============================================================================================== negative-index deletion

def stream_negative_delete(ctx, count, compare=True):
    """directed: `del a[idx]` with negative valid indices (all of them spelled k - n, unsorted, one repeated) right
    after construction and after an extend — the defect fixed by normalising the indices in `__delitem__`"""
    rng = ctx.rng
    batch = []
    for _ in range(count):
        tg = Tagger()
        a = rand_struct(rng, tg, nmax=6, term_density=2)
        while len(a["atoms"]) < 2 or not any(a["terms"][k] for k in KINDS):
            a = rand_struct(rng, tg, nmax=6, term_density=2)
        n = len(a["atoms"])
        pos = rng.sample(range(n), rng.randint(1, n - 1))
        idx = [p - n for p in pos] + [rng.choice(pos) - n]
        ops = [{"k": "construct", "dst": 0, "a": a}, {"k": "copy", "src": 0, "dst": 1},
               {"k": "delete", "slot": 0, "idx": idx}, {"k": "delete", "slot": 1, "idx": [-1]},
               {"k": "pop", "slot": 1, "i": -n - 2}]
        h = {"op": "hist", "init": [None] * NSLOTS, "ops": ops, "dump": "full"}
        out, k, what = run_history(h["init"], h["ops"])
        account(ctx, h, out, k, what, "negative-delete")
        batch.append((h, out))
    if compare:
        compare_batch(ctx, batch)


def stream_large_delete(ctx, count, compare=True):
    """large structures (200-600 atoms, a few terms clustered on atoms that share terms) from which 15-40 atoms spread
    over the whole index range are deleted, then a pop and a subset: library routines switch algorithms on such size
    ratios; same oracle, model compared"""
    from . import c10
    saved = ctx.tier
    batch = []
    cases = c10.large_cases(ctx)[:count]
    for aj, idx, variant in cases:
        tg = Tagger()
        a = retag(_deep(aj), tg)
        n = len(a["atoms"])
        ops = [{"k": "construct", "dst": 0, "a": a}, {"k": "delete", "slot": 0, "idx": idx, "spell": ctx.rng.choice(SPELLINGS)},
               {"k": "pop", "slot": 0, "i": -1, "default": True},
               {"k": "getitem", "src": 0, "dst": 1, "idx": [0, -1]}]
        h = {"op": "hist", "init": [None] * NSLOTS, "ops": ops, "dump": "changed"}
        out, k, what = run_history(h["init"], h["ops"])
        account(ctx, h, out, k, what, "large-delete")
        batch.append((h, out))
    ctx.tier = saved
    if compare:
        compare_batch(ctx, batch)


# =============================================================================================== entry points

def run(ctx, oracle_only=False):
    ctx.rule = RULE
    cmp_ = not oracle_only
    stream_directed(ctx, cmp_)
    stream_misaligned(ctx, ctx.n(4, 30), cmp_)
    stream_aliasing(ctx, ctx.n(30, 300), cmp_)
    stream_negative_delete(ctx, ctx.n(6, 60), cmp_)
    stream_large_delete(ctx, ctx.n(3, 12), cmp_)
    pairs = pool_pairs(ctx, ctx.quick())
    if ctx.quick():
        stream_exhaustive(ctx, 2, pairs, limit=ctx.n(300, None), compare=cmp_)
        stream_random(ctx, 300, 10, 20, cmp_)
    else:
        stream_exhaustive(ctx, 2, pairs, limit=None, compare=cmp_)
        n = stream_exhaustive(ctx, 3, pairs, limit=None, compare=cmp_)
        ctx.exhaustive = True
        ctx.notes.append("bounded-exhaustive stream enumerated completely: depth <= 3, %d maximal sequences" % n)
        stream_random(ctx, 1000, 40, 40, cmp_)
    if cmp_:
        stream_malformed(ctx, ctx.n(60, 400))
        drain(ctx)
        # "construction": the constructor itself (Model/Construct.lean) against the real Atoms(**kwargs), valid and
        # malformed keyword sets, with its own independent oracle on every constructed object
        from .. import ext_construct
        ext_construct.run_stream(ctx)


def _unknown_failures(ctx):
    """failures that are not the (tagged) reproduction of a known finding"""
    return [f for f in ctx.failures if MISALIGNED_TAG not in f.get("tags", [])]


def search(ctx):
    """oracle only (real code only), larger budget"""
    ctx.rule = RULE
    stream_directed(ctx, False)
    stream_misaligned(ctx, 10, False)
    stream_aliasing(ctx, 150, False)
    stream_negative_delete(ctx, 30, False)
    stream_large_delete(ctx, 8, False)
    pairs = pool_pairs(ctx, False)
    if not _unknown_failures(ctx):
        stream_random(ctx, 600, 20, 40, False)
    if not _unknown_failures(ctx):
        stream_exhaustive(ctx, 2, pairs, limit=None, compare=False)
    if not _unknown_failures(ctx):
        stream_exhaustive(ctx, 3, pairs, limit=3000, compare=False)


def replay(ctx, rec):
    h = rec["input"]
    return oracle_history(h) is None
