"""C15 — P1 CIF files round-trip (Atoms.save_p1_cif / Atoms.load_p1_cif through PyCifRW).

Three layers, all on the same generated inputs:
  * REAL code: structure -> save_p1_cif -> text W1 -> load_p1_cif -> structure -> W2 -> ... -> W3;
  * ORACLE (independent of model and code): the property stated directly on canonical dumps and on the texts
    (`oracle_roundtrip`, `oracle_handwritten`, `oracle_p1`), plus `ase.io.read` as the independent CIF reader;
  * TIE: the PyCifRW block of W1 (after `CifFile.ReadCif`) against the model's `saveCif`, the real load result
    against the model's `loadCif` on that block, `re.sub`/`float` against `stripSu`/`tofloat`.

Seven input classes on which the code under test (or the installed CIF library) violates C15 are KNOWN FINDINGS (known_findings.json, ids C15-<tag>).
They are reproduced on every run (the minimal replays of corpus/C15 plus small generated streams) and every such
failure carries exactly the tag of the defect that causes it; any other violation of C15 is reported untagged.
"""
import glob
import io
import json
import math
import os
import re
import tempfile
from fractions import Fraction

from .. import core, gen

# tag -> what fails (the tags are what the known-finding predicates test)
T_TORS = "torsion-extra-columns-with-impropers"     # save_p1_cif raises ValueError (columns of different lengths)
T_IMPX = "improper-extra-columns-dropped"           # extra improper columns are not written
T_LEN = "cell-length-last-digit"                    # re-writing changes the last digit of _cell_length_b/c (inexact cells)
T_ZERO = "negative-zero-coordinate"                 # re-writing turns a coordinate 0.0000 into -0.0000 (or back)
T_ROT = "cartesian-output-nonstandard-cell-orientation"   # Cartesian output of a cell not in standard orientation
T_CASE = "extra-label-case-lowered"                 # re-writing lower-cases upper-case letters of extra data names
T_RES = "reserved-word-extra-value"                  # PyCifRW writes loop_ / stop_… / a bare CR unquoted: unreadable file
KNOWN_TAGS = [T_TORS, T_IMPX, T_LEN, T_ZERO, T_ROT, T_CASE, T_RES]
RESERVED_VALUE = re.compile(r"(?i)\Aloop_\Z|\Astop_|\r(?!\n)")


def reserved_value(v):
    """exactly the extra-column values the installed PyCifRW writes without quoting although they need it: the word
    `loop_`, anything starting with `stop_` (any case), anything with a carriage return not followed by a newline"""
    return isinstance(v, str) and RESERVED_VALUE.search(v) is not None


TAME_VALUE = re.compile(r"[A-Za-z0-9.+\-()?' ]+\Z")


def ase_can_parse_values(aj):
    """ASE's own CIF tokenizer is only the independent witness for cell and positions; it mis-reads or refuses loops with
    values that need double quotes, text fields, folding or special first characters.  Files with such values are not
    shown to it (counted `ase:not-shown-exotic-values`); every other file is, and its refusal is a failure."""
    vals = [v for r in aj["atoms"] for v in r["x"]] + [v for k in KINDS for t in aj["terms"][k] for v in t["x"]]
    return all(TAME_VALUE.match(v) and not v.startswith("'") and len(v) < 60 for v in vals)


def reserved_values_in(aj):
    return [v for r in aj["atoms"] for v in r["x"] if reserved_value(v)] + \
        [v for k in KINDS for t in aj["terms"][k] for v in t["x"] if reserved_value(v)]
CORPUS = os.path.join(core.VERIF, "corpus", "C15")


RULE = ("structures: 1-8 atoms on distinct sites of an 8x8x8 fractional grid (+ offsets: inside / outside by whole cells / "
        "exactly on the boundary / within 1e-4 of it / decimal-grid / generic), cells none | orthorhombic | power-of-two "
        "orthorhombic (exact float arithmetic) | lower-triangular triclinic (both signs) | ALMOST orthorhombic (standard "
        "orientation, every angle within a few units of the printed precision 1e-4 degree of 90, or log-uniform 1e-3..0.5 degree "
        "off) | arbitrarily oriented (fractional output only) | orthorhombic-SHAPED but not axis-aligned: mutually perpendicular "
        "vectors with exactly zero dot products, axes permuted / rotated by a Pythagorean angle about one axis / rotated by a "
        "rational 3-D rotation, either handedness (fractional output only), every term kind, terms that name an atom twice (bond i-i, angle i-j-i, ...: an atom and its own periodic image; also cells of 1-3 atoms, fewer atoms than the arity of the terms), extra columns on any subset of {atom, bond, angle, dihedral}, duplicate elements "
        "across types, dyadic and generic charges, fractional and Cartesian output; hand-written CIF texts with s.u. "
        "parentheses, Cartesian tags, both tag families, P1 / non-P1 / missing H-M items, cells orthorhombic | triclinic | almost "
        "orthorhombic (angles with 4 decimals within 1e-3 degree of 90); random strings for the s.u. "
        "stripper (hand-written files also carry a charge column with s.u.); atom indices of terms also in python's negative "
        "spelling; extra values from everything PyCifRW must quote or fold; left-handed and negative-diagonal cells (fractional "
        "output); charges up to 1e300 / down to 1e-300 / float32-valued, and nan, inf, -0.0 (oracle only); HISTORIES: one live object saved 2-5 times with its cell changed between saves (in-place row assignment, "
        "scalar scaling, element assignment, row increment, or replacement; positions kept fractional or Cartesian), every "
        "save judged by the same round-trip oracle against the object's current cell/positions; hand-written numbers also in exponent notation (e/E, signs, with s.u.); large structures with >= 1001 atoms "
        "of a two-letter element (thorough: 10050 of a one-letter element) and terms on the highest-numbered atoms; plus the corpus replays and small streams of the seven known-finding classes (extra values `loop_` / `stop_…` / bare CR; impropers with extra dihedral "
        "columns, extra improper columns, inexact cells re-written, boundary atoms in inexact cells, Cartesian output of a "
        "re-oriented cell, upper-case extra data names). OUT OF DOMAIN, not generated: element names ending in a digit (no "
        "such key in ATOMIC_MASSES, such a structure cannot be re-read at all; theorem label_collision shows what would "
        "happen). Non-trivial = distinct input with a cell and (a term or an extra column or a coordinate outside [0,1)).")

ARITY = gen.ARITY
KINDS = gen.KINDS
ELEMS = ["C", "H", "O", "N", "Zr", "Cu", "F", "S", "Cl", "Zn"]


def F(x):
    return Fraction(x)


# ------------------------------------------------------------------ generators

def gen_cell(rng, kind):
    """3x3 list of Fractions (rows = lattice vectors)"""
    if kind == "none":
        return None
    if kind == "ortho2":
        d = [F(rng.choice([8, 16])) for _ in range(3)]
        return [[d[0], 0, 0], [0, d[1], 0], [0, 0, d[2]]]
    a, b, c = [Fraction(rng.randint(6 * 8, 14 * 8), 8) for _ in range(3)]
    if kind == "negdiag":                              # axis-aligned with a negative entry (left- or right-handed)
        sg = rng.choice([(-1, 1, 1), (1, -1, 1), (1, 1, -1), (-1, -1, 1), (-1, -1, -1)])
        return [[sg[0] * a, 0, 0], [0, sg[1] * b, 0], [0, 0, sg[2] * c]]
    if kind == "lh":                                   # left-handed triclinic: a lower-triangular cell with its last row negated
        m = gen_cell(rng, "tri")
        m[2] = [-x for x in m[2]]
        return m
    if kind == "ortho":
        return [[a, 0, 0], [0, b, 0], [0, 0, c]]
    if kind == "near90":
        return gen_cell_near90(rng, a, b, c)
    if kind == "rotortho":
        return gen_cell_rotortho(rng)
    if kind in ("tri+", "tri-", "tri"):
        s = {"tri+": [1], "tri-": [-1], "tri": [1, -1]}[kind]
        t = lambda: rng.choice(s) * Fraction(rng.randint(1, 3 * 8), 8)
        return [[a, 0, 0], [t(), b, 0], [t(), t(), c]]
    # "rot": not in the standard orientation (rows permuted / sheared)
    m = [[a, Fraction(rng.randint(-8, 8), 8), Fraction(rng.randint(-8, 8), 8)],
         [Fraction(rng.randint(-8, 8), 8), b, Fraction(rng.randint(-8, 8), 8)],
         [Fraction(rng.randint(-8, 8), 8), Fraction(rng.randint(-8, 8), 8), c]]
    rng.shuffle(m)
    if m[0][1] == 0 and m[0][2] == 0 and m[1][2] == 0 and m[0][0] > 0 and m[1][1] > 0 and m[2][2] > 0:
        m[0], m[1] = m[1], m[0]
    return m


ANGLE_UNIT = Fraction(1, 10000)          # the printed precision of the cell angles (degrees)


def near90_deviations(rng):
    """three deviations (degrees, Fractions) of the cell angles from 90: either ALL a few units of the printed precision
    (0.3 .. 9.5 x 1e-4 degree, either sign, some exactly 0 but not all), or all log-uniform in 1e-3 .. 0.5 degree"""
    if rng.random() < 0.6:
        d = [rng.choice([1, -1]) * Fraction(rng.randint(30, 950), 100) * ANGLE_UNIT if rng.random() < 0.75 else F(0) for _ in range(3)]
        if not any(d):
            d[rng.randrange(3)] = rng.choice([1, -1]) * Fraction(rng.randint(100, 950), 100) * ANGLE_UNIT
        return d
    return [rng.choice([1, -1]) * F(round(10 ** rng.uniform(-3, -0.3), 6)).limit_denominator(10 ** 6) for _ in range(3)]


def gen_cell_near90(rng, a, b, c):
    """ALMOST orthorhombic: a lower-triangular cell (standard orientation, positive diagonal) whose three angles
    deviate from 90 degrees by `near90_deviations`; the shears are dyadic (multiples of 2^-26)."""
    dal, dbe, dga = near90_deviations(rng)
    dy = lambda x: Fraction(round(x * 2 ** 26), 2 ** 26)
    rad = math.pi / 180.0
    # cos(90 - d) = sin(d): row1 = (b cos gamma, ~b, 0), row2 = (c cos beta, ~c cos alpha, ~c)
    t1 = dy(float(b) * math.sin(float(-dga) * rad))
    t2 = dy(float(c) * math.sin(float(-dbe) * rad))
    t3 = dy(float(c) * math.sin(float(-dal) * rad))
    return [[a, 0, 0], [t1, b, 0], [t2, t3, c]]


# integer matrices with mutually perpendicular rows of equal length (rows, length)
INT_ORTHO = [([[1, 2, 2], [2, 1, -2], [2, -2, 1]], 3), ([[2, 3, 6], [3, -6, 2], [6, 2, -3]], 7),
             ([[1, 4, 8], [4, 7, -4], [8, -4, 1]], 9), ([[2, 6, 9], [6, 7, -6], [9, -6, 2]], 11)]
PYTHAGOREAN = [(3, 4, 5), (4, 3, 5), (5, 12, 13), (12, 5, 13), (8, 15, 17), (15, 8, 17), (7, 24, 25), (20, 21, 29)]


def gen_cell_rotortho(rng):
    """an ORTHORHOMBIC-SHAPED cell that is not aligned with x, y, z: three mutually perpendicular lattice vectors (dot
    products exactly 0 in float arithmetic: every entry is a small integer times an eighth), lengths 6..14, matrix not
    diagonal.  Sub-families: the axes permuted (with signs) | rotated about one axis by a Pythagorean angle | a rational
    rotation in 3-D; then optionally the rows permuted / negated (left- and right-handed)."""
    ln = lambda h: Fraction(rng.randint(-(-48 // h), 112 // h), 8)         # factor p with 6 <= p*h <= 14
    fam = rng.choice(["perm", "plane", "plane", "space"])
    if fam == "perm":
        d = [Fraction(rng.randint(6 * 8, 14 * 8), 8) for _ in range(3)]
        perm = rng.choice([[1, 0, 2], [0, 2, 1], [2, 1, 0], [1, 2, 0], [2, 0, 1]])
        m = [[d[i] if k == perm[i] else F(0) for k in range(3)] for i in range(3)]
    elif fam == "plane":
        x, y, h = rng.choice(PYTHAGOREAN)
        ax = rng.randrange(3)
        i, j = [k for k in range(3) if k != ax]
        p, q_ = ln(h), ln(h)
        m = [[F(0)] * 3 for _ in range(3)]
        m[i][i], m[i][j] = p * x, p * y
        m[j][i], m[j][j] = -q_ * y, q_ * x
        m[ax][ax] = Fraction(rng.randint(6 * 8, 14 * 8), 8)
    else:
        rows, h = rng.choice(INT_ORTHO)
        m = [[p * v for v in r] for p, r in zip([ln(h) for _ in range(3)], rows)]
    if rng.random() < 0.5:
        rng.shuffle(m)
    m = [[-v for v in r] if rng.random() < 0.25 else r for r in m]
    if all(m[i][k] == 0 for i in range(3) for k in range(3) if i != k):         # (cannot happen for plane / space)
        m[0], m[1] = m[1], m[0]
    return m


OFFSETS = {
    "inside": lambda rng: Fraction(rng.randint(1, 6), 64),
    "grid": lambda rng: F(0),
    "decimal": lambda rng: Fraction(rng.randint(1, 900), 10000),
    "near": lambda rng: rng.choice([Fraction(-4, 100000), Fraction(4, 100000), Fraction(-6, 100000), Fraction(-1, 1000000),
                                    Fraction(5, 100000), Fraction(1, 32), Fraction(3, 32)]),
    "generic": lambda rng: F(rng.uniform(0.001, 0.09)),
}


def gen_fracs(rng, n, placement):
    """n fractional triples on distinct sites of the 8x8x8 grid; returns (list of [Fraction]*3, category counts)"""
    sites = rng.sample(range(512), n)
    out = []
    for s in sites:
        g = [s % 8, (s // 8) % 8, s // 64]
        f = []
        for k in range(3):
            mode = placement if placement != "mixed" else rng.choice(["inside", "outside", "boundary", "near", "decimal", "generic", "grid"])
            if mode == "boundary":
                v = F(rng.choice([0, 0, 1, -1, 2]))        # exactly on a cell face (possibly of a neighbouring cell)
                if rng.random() < 0.5:
                    v = Fraction(g[k], 8)                   # only some components on the boundary
            elif mode == "outside":
                v = Fraction(g[k], 8) + OFFSETS["inside"](rng) + rng.choice([-2, -1, 1, 2, 3])
            elif mode == "near":
                v = (F(0) if g[k] % 2 == 0 else Fraction(g[k], 8)) + OFFSETS["near"](rng) + rng.choice([0, 0, 1])
            else:
                v = Fraction(g[k], 8) + OFFSETS[mode](rng)
            f.append(v)
        out.append(f)
    # boundary/near components may coincide: make the sites distinct again through the remaining grid digits
    seen = set()
    for i, f in enumerate(out):
        key = tuple((x % 1) for x in f)
        while any(max(min((a - b) % 1, (b - a) % 1) for a, b in zip(key, o)) < Fraction(1, 20) for o in seen):
            f[rng.randrange(3)] = Fraction(rng.randint(1, 7), 8) + Fraction(rng.randint(1, 6), 64)
            key = tuple((x % 1) for x in f)
        seen.add(key)
    return out


XVALS_TAME = ["1.5", "0.25", "a b", "x'y", "tag", "7", "q-r", "1.00(2)", "?x"]
XVALS = XVALS_TAME + [
         # widened after the guard probe: everything PyCifRW has to quote or fold, and the two CIF placeholders
         "", " a ", "a'b\"c", ";x", "#x", "$x", "_tag", "[1,2]", "data_x", "save_", "global_", "l1\nl2", "l1\n;l2", "a\tb", "?", ".",
         "loop_1", "xloop_", "word " * 24]


def xval(rng):
    """two thirds from the tame alphabet (those files are also shown to ASE), one third from the full one"""
    return rng.choice(XVALS_TAME) if rng.random() < 0.66 else rng.choice(XVALS)


def gen_structure(rng, cellkind=None, placement="mixed", n=None, kinds=None, extras=None, improper_extras=False,
                  elems=None, charges="mixed", mixed_case=None, self_image=None):
    """canonical JSON of a structure (see core.atoms_from_json). extras: set of kinds in {"atom","bond","angle","dihedral"}
    that carry extra columns (None = random subset).
    self_image: terms may name the same atom more than once (bond i-i, angle i-j-i, torsion i-j-i-j, ...): in a small
    periodic cell an atom is bonded to its own image in the neighbouring cell, and the term lists hold atom indices only.
    Such structures may have fewer atoms than the arity of their terms.  None = random, only with a cell."""
    n = n or rng.randint(1, 8)
    cellkind = cellkind or rng.choice(["ortho", "ortho2", "tri+", "tri-", "tri", "rot", "none"])
    cell = gen_cell(rng, cellkind)
    fr = gen_fracs(rng, n, placement)
    if cell is None:
        pos = [[x * 8 for x in f] for f in fr]            # plain Cartesian numbers
    else:
        pos = [[sum(f[k] * cell[k][j] for k in range(3)) for j in range(3)] for f in fr]
    nt = rng.randint(1, min(4, n))
    els = elems or [rng.choice(ELEMS) for _ in range(nt)]
    if elems is None and nt >= 2 and rng.random() < 0.35:
        els[rng.randrange(1, nt)] = els[0]                 # two atom types of the same element (force-field typing)
    nt = len(els)
    labels = ["%s_%d" % (e, i + 1) for i, e in enumerate(els)] if rng.random() < 0.5 else list(els)
    tys = [i if i < nt and n >= nt else rng.randrange(nt) for i in range(n)]
    rng.shuffle(tys)
    M = gen.masses()
    if kinds is None:
        kinds = [k for k in KINDS if rng.random() < 0.6]
    if extras is None:
        extras = {k for k in ["atom", "bond", "angle", "dihedral"] if rng.random() < 0.4}
    if mixed_case is None:
        mixed_case = False          # upper-case letters in extra data names: known-finding stream
    if self_image is None:
        self_image = cell is not None and rng.random() < 0.25
    if "improper" in kinds and "dihedral" in extras and not improper_extras:
        extras = set(extras) - {"dihedral"}                # the combination that makes save_p1_cif raise: known-finding stream
    def lab(s):
        return s.replace("_u_", "_U_") if mixed_case else s
    xl_atom = []
    if "atom" in extras:
        xl_atom = [lab(l) for l in rng.sample(["_atom_site_occupancy", "_atom_site_u_iso_or_equiv", "_atom_site_note"], rng.randint(1, 2))]
    atoms = []
    for i in range(n):
        if charges == "dyadic" or (charges == "mixed" and rng.random() < 0.5):
            qv = Fraction(i + 1, 16) * rng.choice([1, -1])
        else:
            qv = F(rng.choice([rng.uniform(-2, 2), round(rng.uniform(-2, 2), 3), 1e-7 * (i + 1), 0.1 * (i + 1), 0.0,
                               1e300 * (i + 1), -1e-300 * (i + 1), 123456789.125, float(__import__("numpy").float32(0.1 * (i + 1)))]))
        atoms.append({"ty": tys[i], "pos": [core.q(F(float(v))) for v in pos[i]], "q": core.q(F(float(qv))), "g": 0,
                      "x": ["%s%d" % (xval(rng), i) if rng.random() < 0.7 else xval(rng) for _ in xl_atom]})
    j = {"cell": None if cell is None else [[core.q(v) for v in row] for row in cell], "atoms": atoms,
         "terms": {}, "types": {}, "xlabels": {"atom": xl_atom}}
    for k in KINDS:
        ar = ARITY[k]
        terms, xl = [], []
        if k in kinds and (n >= ar or self_image):
            if k in extras or (k == "improper" and improper_extras):
                xl = [lab("_geom_%s_u_tag" % ("torsion" if k in ("dihedral", "improper") else k))]
                if rng.random() < 0.3:
                    xl.append("_geom_%s_aux" % k)
            for t in range(rng.randint(1, 4)):
                if self_image and (n < ar or rng.random() < 0.6):
                    # fewer distinct atoms than places: at least one atom occurs twice (with its periodic image)
                    pool = rng.sample(range(n), rng.randint(1, min(n, ar - 1)))
                    tupl = [rng.choice(pool) for _ in range(ar)]
                else:
                    tupl = rng.sample(range(n), ar)
                if rng.random() < 0.15:                    # python's negative indexing: i - n names the same atom as i
                    tupl = [i - n if rng.random() < 0.5 else i for i in tupl]
                terms.append({"a": tupl, "ty": rng.randrange(3),
                              "x": ["%s%d%s" % (k[0], t, rng.choice(["", ".5", " z"])) if rng.random() < 0.8 else xval(rng) for _ in xl]})
        j["terms"][k] = terms
        j["types"][k] = []
        j["xlabels"][k] = xl
    j["types"]["elem"] = els
    j["types"]["label"] = labels
    j["types"]["mass"] = [core.q(M.get(e, 12.0)) for e in els]
    j["types"]["pair"] = []
    return j, cellkind


# ------------------------------------------------------------------ real code

def write(a, fract):
    s = io.StringIO()
    with core.quiet():
        a.save_p1_cif(s, use_fract_coords=fract)
    return s.getvalue()


def read(text):
    from mofun import Atoms
    with core.quiet():
        return Atoms.load_p1_cif(io.StringIO(text))


def read_via_path(text):
    """through a real file and `Atoms.load(path)` (file type from the extension)"""
    from mofun import Atoms
    fd, p = tempfile.mkstemp(suffix=".cif", prefix="c15_")
    try:
        with os.fdopen(fd, "w") as f:
            f.write(text)
        with core.quiet():
            return Atoms.load(p)
    finally:
        os.unlink(p)


def ase_read(text):
    import ase.io
    fd, p = tempfile.mkstemp(suffix=".cif", prefix="c15_")
    try:
        with os.fdopen(fd, "w") as f:
            f.write(text)
        with core.quiet():
            return ase.io.read(p)
    finally:
        os.unlink(p)


def read_block(text):
    """the PyCifRW block of a text, in the model's JSON form (tags lower case, every value a string)"""
    import CifFile
    with core.quiet():
        cf = CifFile.ReadCif(io.StringIO(text))
        block = cf[cf.get_roots()[0][0]]
    out = []
    for it in block.item_order:
        if isinstance(it, int):
            tags = [str(t) for t in block.loops[it]]
            cols = [block[t] for t in tags]
            out.append({"loop": tags, "rows": [[str(v) for v in r] for r in zip(*cols)]})
        else:
            out.append({"item": [str(it), str(block[it])]})
    return out


def attempt(fn):
    try:
        return fn(), None
    except Exception as e:  # noqa
        return None, e


def save_err(e):
    if isinstance(e, IndexError):
        return "error:index"
    if isinstance(e, ValueError) and "LinAlg" not in type(e).__name__:
        return "reject:looplength"
    return "domain"


def load_err(e):
    if "only supports P1" in str(e):
        return "reject:non-P1"
    return "domain"


# ------------------------------------------------------------------ oracle helpers (independent)

def fl(s):
    return float(core.unq(s))


def cellpar(cell):
    """lengths and angles (degrees) of a 3x3 float cell, straight from the definition"""
    n = [math.sqrt(sum(x * x for x in r)) for r in cell]
    def ang(u, v, nu, nv):
        c = sum(x * y for x, y in zip(u, v)) / (nu * nv)
        return math.degrees(math.acos(max(-1.0, min(1.0, c))))
    return n + [ang(cell[1], cell[2], n[1], n[2]), ang(cell[0], cell[2], n[0], n[2]), ang(cell[0], cell[1], n[0], n[1])]


def frac_of(cell, pos):
    import numpy as np
    return np.linalg.solve(np.array(cell, dtype=float).T, np.array(pos, dtype=float).T).T


def mod1_dist(a, b):
    d = (a - b) % 1.0
    return min(d, 1.0 - d)


def elements_of(j):
    return [j["types"]["elem"][r["ty"]] for r in j["atoms"]]


def block_get(block, tag):
    for e in block:
        if "item" in e and e["item"][0] == tag:
            return e["item"][1]
        if "loop" in e and tag in e["loop"]:
            k = e["loop"].index(tag)
            return [r[k] for r in e["rows"]]
    return None


CELL_LEN = re.compile(r"^(_cell_length_[abc]\s+)(\S+)[ \t]*$", re.M)
NEG_ZERO = re.compile(r"-0\.0000(?![0-9])")


def align_cell_lengths(t1, t2):
    """t2 with every cell length that differs from t1's only in the last digits (relative 1e-14) replaced by t1's"""
    v1 = dict((m.group(1).split()[0], m.group(2)) for m in CELL_LEN.finditer(t1))
    def sub(m):
        k = m.group(1).split()[0]
        try:
            x1, x2 = float(v1[k]), float(m.group(2))
        except (KeyError, ValueError):
            return m.group(0)
        return m.group(1) + v1[k] if abs(x1 - x2) <= 1e-14 * abs(x1) else m.group(0)
    return CELL_LEN.sub(sub, t2)


def relax_zero_sign(text):
    """'-0.0000' printed as '0.0000 ' (same column width)"""
    return NEG_ZERO.sub("0.0000 ", text)


def lower_data_names(text):
    """data names (lines that consist of / start with a `_tag`) in lower case; values untouched"""
    out = []
    for line in text.split("\n"):
        st = line.lstrip()
        if st.startswith("_"):
            parts = st.split(None, 1)
            line = line[:len(line) - len(st)] + parts[0].lower() + (st[len(parts[0]):] if len(parts) > 1 else "")
        out.append(line)
    return "\n".join(out)


def text_diff_causes(t1, t2):
    """Why two writings differ: [] when identical; a list of known-finding tags when the difference consists ONLY of
    last-digit changes of cell lengths and/or `-0.0000` vs `0.0000` and/or the case of data names (each cause that is
    needed to explain the difference is listed); [None] when something else differs as well."""
    if t1 == t2:
        return []
    L = lambda a, b: (a, align_cell_lengths(a, b))
    Z = lambda a, b: (relax_zero_sign(a), relax_zero_sign(b))
    C = lambda a, b: (lower_data_names(a), lower_data_names(b))
    def same(fs):
        a, b = t1, t2
        for f in fs:
            a, b = f(a, b)
        return a == b
    if not same([L, Z, C]):
        return [None]
    causes = []
    if not same([Z, C]):
        causes.append(T_LEN)
    if not same([L, C]):
        causes.append(T_ZERO)
    if not same([L, Z]):
        causes.append(T_CASE)
    return causes or [None]


def is_axis_ortho(cellj):
    return cellj is not None and all(fl(cellj[i][k]) == 0 for i in range(3) for k in range(3) if i != k)


def is_standard_orientation(cellj):
    c = [[fl(v) for v in row] for row in cellj]
    return c[0][1] == 0 and c[0][2] == 0 and c[1][2] == 0 and c[0][0] > 0 and c[1][1] > 0 and c[2][2] > 0


LEN_RTOL = 1e-9                 # cell lengths: printed in full
ANGLE_TOL = 0.5e-4 + 1e-7       # cell angles (degrees): printed with 4 decimals
ASE_TOL = 1e-6                  # agreement with the independent reader on the same file (Angstrom)


def _all_finite(arr):
    import numpy as np
    try:
        return bool(np.isfinite(np.asarray(arr, dtype=float)).all())
    except (TypeError, ValueError):
        return False


def oracle_roundtrip(aj, fract, with_ase=True, obj=None):
    """The property on one structure and one output mode. Returns (list of (what, tag-or-None), info dict).
    Everything is recomputed from the canonical dump `aj` and from what the REAL code wrote / returned.
    `obj`: an existing mofun.Atoms whose current state is `aj` (operation histories); default: built from `aj`."""
    bad = []
    info = {}
    a, e = (obj, None) if obj is not None else attempt(lambda: core.atoms_from_json(aj))
    if e is not None:
        return [("constructing the structure raised %s: %s" % (type(e).__name__, e), None)], info
    w1, e = attempt(lambda: write(a, fract))
    if e is not None:
        tag = None
        if aj["terms"]["improper"] and aj["xlabels"]["dihedral"] and type(e) is ValueError:
            tag = T_TORS
        return [("save_p1_cif raised %s: %s" % (type(e).__name__, str(e)[:200]), tag)], info
    info["w1"] = w1
    b, e = attempt(lambda: read(w1))
    if e is not None:
        rv = reserved_values_in(aj)
        tag = T_RES if rv and "StarError" in type(e).__name__ else None
        return [("load_p1_cif of the written file raised %s: %s%s" % (type(e).__name__, str(e)[:200],
                 " (extra values %r)" % rv[:3] if tag else ""), tag)], info
    # every number of the structure read back must be a number (the canonical dump is exact-rational: nan / inf cannot
    # be written down; the charges nan / inf have their own op and never come through here)
    nonfinite = [name for name, arr in (("positions", b.positions), ("cell", b.cell), ("charges", b.charges))
                 if arr is not None and not _all_finite(arr)]
    if nonfinite:
        return [("the structure read back from the written file has non-finite %s (coordinate columns written: %s)" % (
            " and ".join(nonfinite), [l for l in w1.split("\n") if "nan" in l.lower() or "inf" in l.lower()][:3]), None)], info
    bj = core.canon_atoms(b)
    info["b"] = bj
    has_cell = aj["cell"] is not None
    frac_mode = fract and has_cell
    # --- elements and order
    if elements_of(bj) != elements_of(aj):
        bad.append(("elements / atom order changed: %s -> %s" % (elements_of(aj), elements_of(bj)), None))
        return bad, info
    n = len(aj["atoms"])
    pos0 = [[fl(v) for v in r["pos"]] for r in aj["atoms"]]
    pos1 = [[fl(v) for v in r["pos"]] for r in bj["atoms"]]
    # --- cell lengths and angles
    if has_cell != (bj["cell"] is not None):
        bad.append(("cell present before: %s, after: %s" % (has_cell, bj["cell"] is not None), None))
        return bad, info
    if has_cell:
        c0 = [[fl(v) for v in row] for row in aj["cell"]]
        c1 = [[fl(v) for v in row] for row in bj["cell"]]
        p0, p1 = cellpar(c0), cellpar(c1)
        # to the printed precision: lengths are printed in full (17 significant digits), angles with 4 decimals
        for k, (name, x, y) in enumerate(zip("a b c alpha beta gamma".split(), p0, p1)):
            if not abs(x - y) <= (LEN_RTOL * abs(x) if k < 3 else ANGLE_TOL):
                bad.append(("cell %s changed: %r -> %r" % (name, x, y), None))
        # --- fractional coordinates modulo 1 to the printed precision
        f0, f1 = frac_of(c0, pos0), frac_of(c1, pos1)
        tol = 0.5e-4 + 1e-6 if frac_mode else 1e-4
        worst = max(mod1_dist(f0[i][k], f1[i][k]) for i in range(n) for k in range(3))
        if not worst <= tol:
            tag = None
            if not frac_mode and not is_standard_orientation(aj["cell"]):
                # attributed to the re-orientation only if the Cartesian numbers themselves came back unchanged
                if max(abs(pos0[i][k] - pos1[i][k]) for i in range(n) for k in range(3)) <= 0.5e-4 + 1e-9:
                    tag = T_ROT
            bad.append(("fractional coordinates not reproduced modulo 1: worst difference %.3g > %.3g" % (worst, tol), tag))
        # --- reading wraps fractional coordinates into the cell
        if frac_mode:
            lo, hi = float(f1.min()), float(f1.max())
            # closed interval: a coordinate within rounding of a face may come back as its boundary image 1.0
            if lo < -1e-9 or hi > 1.0 + 1e-9:
                bad.append(("re-read fractional coordinates not in [0,1]: min %r max %r" % (lo, hi), None))
    if not frac_mode:
        # Cartesian file: read unconverted, unwrapped
        worst = max(abs(pos0[i][k] - pos1[i][k]) for i in range(n) for k in range(3))
        if worst > 0.5e-4 + 1e-9:
            bad.append(("Cartesian coordinates changed by %.3g" % worst, None))
    # --- charges
    q0, q1 = [fl(r["q"]) for r in aj["atoms"]], [fl(r["q"]) for r in bj["atoms"]]
    if q0 != q1:
        bad.append(("charges changed: %s -> %s" % (q0, q1), None))
    # --- terms between the same atoms, torsions = dihedrals followed by impropers
    nat = len(aj["atoms"])
    tup = lambda j, k: [[x % nat for x in t["a"]] for t in j["terms"][k]]      # i and i - n are the same atom
    if tup(bj, "bond") != tup(aj, "bond"):
        bad.append(("bonds changed: %s -> %s" % (tup(aj, "bond"), tup(bj, "bond")), None))
    if tup(bj, "angle") != tup(aj, "angle"):
        bad.append(("angles changed: %s -> %s" % (tup(aj, "angle"), tup(bj, "angle")), None))
    if tup(bj, "dihedral") + tup(bj, "improper") != tup(aj, "dihedral") + tup(aj, "improper"):
        bad.append(("torsions changed: %s -> %s" % (tup(aj, "dihedral") + tup(aj, "improper"), tup(bj, "dihedral") + tup(bj, "improper")), None))
    # --- extra columns (data names are case-insensitive in CIF: PyCifRW hands them back in lower case)
    low = lambda l: [s.lower() for s in l]
    def cols_same(what, lab0, lab1, rows0, rows1):
        if low(lab0) == low(lab1) and rows0 == rows1:
            return
        # a value of the reserved class may come back altered (known finding); any other change is a different failure
        masked = low(lab0) == low(lab1) and len(rows0) == len(rows1) and all(
            len(x) == len(y) and all(u == v or reserved_value(u) for u, v in zip(x, y)) for x, y in zip(rows0, rows1))
        bad.append(("extra %s columns changed: %s %s -> %s %s" % (what, lab0, str(rows0)[:200], lab1, str(rows1)[:200]), T_RES if masked else None))
    cols_same("atom", aj["xlabels"]["atom"], bj["xlabels"]["atom"], [r["x"] for r in aj["atoms"]], [r["x"] for r in bj["atoms"]])
    for k in ("bond", "angle"):
        cols_same(k, aj["xlabels"][k], bj["xlabels"][k], [t["x"] for t in aj["terms"][k]], [t["x"] for t in bj["terms"][k]])
    # per-torsion columns: the dihedral columns on the dihedral rows, the improper columns on the improper rows
    dlab, ilab, got_lab = low(aj["xlabels"]["dihedral"]), low(aj["xlabels"]["improper"]), low(bj["xlabels"]["dihedral"])
    rows_got = [dict(zip(got_lab, t["x"])) for t in bj["terms"]["dihedral"]]
    nd = len(aj["terms"]["dihedral"])
    if len(rows_got) == nd + len(aj["terms"]["improper"]):
        d_ok = all(l in got_lab for l in dlab) and all(l in dlab + ilab for l in got_lab) and \
            all(g.get(k) == v for g, t in zip(rows_got[:nd], aj["terms"]["dihedral"]) for k, v in zip(dlab, t["x"]))
        if not d_ok:
            bad.append(("extra torsion (dihedral) columns changed: %s -> %s" % (dlab, got_lab), None))
        elif ilab and aj["terms"]["improper"]:
            missing = [l for l in ilab if l not in got_lab]
            i_ok = not missing and all(g.get(k) == v for g, t in zip(rows_got[nd:], aj["terms"]["improper"]) for k, v in zip(ilab, t["x"]))
            if not i_ok:
                # the known defect drops the improper columns altogether; anything else is a different failure
                bad.append(("extra improper columns lost: %s -> %s" % (ilab, got_lab), T_IMPX if missing == ilab else None))
    # --- writing the re-read structure again gives identical text (interpretation note, DESIGN.md §8)
    w2, e = attempt(lambda: write(b, fract))
    if e is not None:
        bad.append(("writing the re-read structure raised %s" % type(e).__name__, None))
        return bad, info
    c, e = attempt(lambda: read(w2))
    if e is not None:
        bad.append(("reading the second writing raised %s" % type(e).__name__, None))
        return bad, info
    w3, e = attempt(lambda: write(c, fract))
    if e is not None:
        bad.append(("third writing raised %s" % type(e).__name__, None))
        return bad, info
    info["w2"], info["w3"] = w2, w3
    # Identity of the text is demanded strictly.  A difference is attributed: only last digits of cell lengths ->
    # T_LEN, only the sign of a zero coordinate -> T_ZERO, only the case of data names -> T_CASE (several -> one failure
    # each); anything else -> untagged.
    blk1 = read_block(w1)
    info["block"] = blk1
    ctags = ["_atom_site_fract_x", "_atom_site_fract_y", "_atom_site_fract_z"]
    printed = [s for t in ctags for s in (block_get(blk1, t) or [])]
    in_cell = (not frac_mode) or all((not s.startswith("-")) and float(s) < 1.0 for s in printed)
    info["in_cell"] = in_cell
    def text_same(what, t1, t2):
        for tag in text_diff_causes(t1, t2):
            if tag is None:
                bad.append(("%s: %s" % (what, first_diff(t1, t2)), None))
            else:
                a, b = t1, t2
                if tag != T_LEN:
                    b = align_cell_lengths(a, b)
                if tag != T_ZERO:
                    a, b = relax_zero_sign(a), relax_zero_sign(b)
                if tag != T_CASE:
                    a, b = lower_data_names(a), lower_data_names(b)
                bad.append(("%s [%s]: %s" % (what, tag, first_diff(a, b)), tag))
    if in_cell:
        text_same("second writing differs from the first although every printed coordinate is in [0,1)", w1, w2)
    else:
        text_same("third writing differs from the second", w2, w3)
        # W2 = W1 modulo the wrap: identical blocks except that coordinate s2 = s1 mod 1
        blk2 = read_block(w2)
        if len(blk1) != len(blk2):
            bad.append(("second writing has a different block structure", None))
        else:
            for e1, e2 in zip(blk1, blk2):
                if "loop" in e1 and "loop" in e2 and labelled(e1) and e1["loop"] == e2["loop"] and len(e1["rows"]) == len(e2["rows"]):
                    idx = [e1["loop"].index(t) for t in ctags]
                    for r1, r2 in zip(e1["rows"], e2["rows"]):
                        for k in range(len(r1)):
                            if k in idx:
                                d = (float(r1[k]) % 1.0) - float(r2[k])
                                if abs(d) > 1e-9 and abs(d - 1.0) > 1e-9:
                                    bad.append(("second writing is not the first modulo the wrap: %s -> %s" % (r1[k], r2[k]), None))
                                elif float(r2[k]) < 0 or float(r2[k]) >= 1:
                                    bad.append(("second writing has a coordinate outside [0,1): %s" % r2[k], None))
                            elif r1[k] != r2[k]:
                                bad.append(("second writing differs outside the coordinates: %s -> %s" % (r1[k], r2[k]), None))
                elif "item" in e1 and "item" in e2 and e1["item"][0] == e2["item"][0] and e1["item"][0].startswith("_cell_length"):
                    if e1 != e2:
                        x1, x2 = float(e1["item"][1]), float(e2["item"][1])
                        bad.append(("cell length changed between the first and the second writing: %s -> %s" % (e1["item"], e2["item"][1]),
                                    T_LEN if abs(x1 - x2) <= 1e-14 * abs(x1) else None))
                elif e1 != e2:
                    bad.append(("second writing differs from the first outside the wrapped coordinates: %s vs %s" % (str(e1)[:120], str(e2)[:120]), None))
    # --- the independent reader agrees on cell and positions
    if with_ase and has_cell:
        r, e = attempt(lambda: ase_read(w1))
        if e is not None:
            bad.append(("ase.io.read of the written file raised %s: %s" % (type(e).__name__, str(e)[:120]), None))
        else:
            rc = [[float(v) for v in row] for row in r.cell[:]]
            c1 = [[fl(v) for v in row] for row in bj["cell"]]
            if not max(abs(rc[i][k] - c1[i][k]) for i in range(3) for k in range(3)) <= ASE_TOL:
                bad.append(("cell differs from ase.io.read: %s vs %s" % (c1, rc), None))
            elif list(r.get_chemical_symbols()) != elements_of(bj):
                bad.append(("elements differ from ase.io.read: %s vs %s" % (elements_of(bj), list(r.get_chemical_symbols())), None))
            else:
                rp = [[float(v) for v in p] for p in r.positions]
                fa, fb = frac_of(c1, rp), frac_of(c1, pos1)
                import numpy as np
                d = fa - fb
                d -= np.round(d)                                  # ASE wraps Cartesian files too: compare modulo the lattice
                cart = np.abs(d.dot(np.array(c1)))
                if not cart.max() <= ASE_TOL:
                    bad.append(("positions differ from ase.io.read (modulo lattice) by %.3g" % cart.max(), None))
                # well inside the cell both readers must give the very same Cartesian numbers
                if frac_mode:
                    inside = [i for i in range(n) if all(0.001 < fb[i][k] < 0.999 for k in range(3))]
                    for i in inside:
                        if not max(abs(rp[i][k] - pos1[i][k]) for k in range(3)) <= ASE_TOL:
                            bad.append(("position of atom %d differs from ase.io.read: %s vs %s" % (i, pos1[i], rp[i]), None))
                            break
    return bad, info


def labelled(e):
    return "loop" in e and "_atom_site_fract_x" in e["loop"]


def first_diff(t1, t2):
    for x, y in zip(t1.split("\n"), t2.split("\n")):
        if x != y:
            return "%r vs %r" % (x.strip()[:70], y.strip()[:70])
    return "length %d vs %d" % (len(t1), len(t2))


# ------------------------------------------------------------------ hand-written files

def gen_handwritten(rng):
    """a CIF text written by hand (not by the code under test) + what the property expects from reading it"""
    kind = rng.choice(["su-fract", "su-fract", "cartn", "both", "su-cartn"])
    # number style: plain decimals, or legal CIF exponent notation (upper / lower case E, explicit signs)
    style = rng.choice(["plain", "plain", "exp", "exp", "mixed"])
    def num(v, dec):
        st = style if style != "mixed" else rng.choice(["plain", "exp"])
        if st == "plain":
            return "%.*f" % (dec, v)
        t = "%.*e" % (rng.randint(dec, dec + 2), float("%.*f" % (dec, v)))      # same value, e.g. 1.2500e+01
        if rng.random() < 0.5:
            t = t.replace("e", "E")
        if rng.random() < 0.3:
            t = t.replace("e+", "e").replace("E+", "E")                         # 1.25e01
        if v >= 0 and rng.random() < 0.2:
            t = "+" + t
        return t
    cellkind = rng.choice(["ortho", "tri", "near90"])
    a, b, c = [round(rng.uniform(6, 14), 3) for _ in range(3)]
    adec = 2                                                 # decimals of the angles in the file
    if cellkind == "near90":                                 # almost orthorhombic: see near90_deviations
        al, be, ga = [round(90.0 + float(d), 4) for d in near90_deviations(rng)]
        adec = 4
    else:
        al, be, ga = (90.0, 90.0, 90.0) if cellkind == "ortho" else tuple(round(rng.uniform(70, 110), 2) for _ in range(3))
    su = lambda: "(%d)" % rng.randint(1, 99) if rng.random() < 0.6 else ""
    n = rng.randint(1, 5)
    sites = rng.sample(range(512), n)
    els = [rng.choice(ELEMS) for _ in range(n)]
    count = {}
    labs = []
    for e in els:
        count[e] = count.get(e, 0) + 1
        labs.append("%s%d" % (e, count[e]))
    hm = rng.choice(["'P 1'", "P1", "'P 1'", None])
    lines = ["data_hand", ""]
    if hm is not None:
        lines.append("_symmetry_space_group_name_H-M  %s" % hm)
    cellstr = [num(a, 3) + su(), num(b, 3) + su(), num(c, 3) + su(), num(al, adec) + su(), num(be, adec) + su(), num(ga, adec) + su()]
    for t, v in zip(["_cell_length_a", "_cell_length_b", "_cell_length_c", "_cell_angle_alpha", "_cell_angle_beta", "_cell_angle_gamma"], cellstr):
        lines.append("%s  %s" % (t, v))
    lines += ["loop_", "_atom_site_label", "_atom_site_type_symbol"]
    with_q = rng.random() < 0.6                              # a charge column, numbers with or without s.u.
    qs = [num(rng.uniform(-2, 2), 3) + su() for _ in range(n)] if with_q else None
    fr, ca = [], []
    for s in sites:
        g = [s % 8, (s // 8) % 8, s // 64]
        f = [g[k] / 8.0 + rng.randint(1, 600) / 10000.0 + rng.choice([0, 0, 0, 1, -1, 2]) for k in range(3)]
        fr.append([num(v, 4) for v in f])
        ca.append([num(rng.uniform(-5, 20), 3) for _ in range(3)])
    withsu = kind.startswith("su")
    if kind in ("su-fract", "both"):
        lines += ["_atom_site_fract_x", "_atom_site_fract_y", "_atom_site_fract_z"]
    if kind in ("cartn", "both", "su-cartn"):
        lines += ["_atom_site_Cartn_x", "_atom_site_Cartn_y", "_atom_site_Cartn_z"]
    if with_q:
        lines.append("_atom_site_charge")
    rows_f, rows_c = [], []
    for i in range(n):
        row = [labs[i], els[i]]
        if kind in ("su-fract", "both"):
            vs = [v + (su() if withsu else "") for v in fr[i]]
            row += vs
            rows_f.append(vs)
        if kind in ("cartn", "both", "su-cartn"):
            vs = [v + (su() if withsu else "") for v in ca[i]]
            row += vs
            rows_c.append(vs)
        if with_q:
            row.append(qs[i])
        lines.append("  ".join(row))
    bonds = []
    if n >= 2 and rng.random() < 0.5:
        lines += ["loop_", "_geom_bond_atom_site_label_1", "_geom_bond_atom_site_label_2", "_geom_bond_distance"]
        for _ in range(rng.randint(1, 3)):
            i, k = rng.sample(range(n), 2)
            if rng.random() < 0.2:
                k = i                                            # an atom bonded to its own periodic image
            bonds.append([i, k])
            lines.append("%s  %s  %.3f%s" % (labs[i], labs[k], rng.uniform(1, 2), su()))
    text = "\n".join(lines) + "\n"
    strip = lambda s: float(re.sub(r"\(\d+\)", "", s))
    exp = {"elements": els, "cellpar": [strip(s) for s in cellstr], "bonds": bonds,
           "charges": [strip(v) for v in qs] if with_q else [0.0] * n,
           "cartn": [[strip(v) for v in r] for r in rows_c] if rows_c else None,
           "fract": [[strip(v) for v in r] for r in rows_f] if rows_f else None}
    return {"op": "handwritten", "kind": kind, "style": style, "cell": cellkind, "text": text, "expect": exp}


def oracle_handwritten(inp, with_ase=True):
    bad = []
    exp = inp["expect"]
    b, e = attempt(lambda: read_via_path(inp["text"]))
    if e is not None:
        return [("reading a hand-written P1 file (%s) raised %s: %s" % (inp["kind"], type(e).__name__, str(e)[:160]), None)], None
    bj = core.canon_atoms(b)
    if elements_of(bj) != exp["elements"]:
        bad.append(("elements read %s, file says %s" % (elements_of(bj), exp["elements"]), None))
        return bad, bj
    c1 = [[fl(v) for v in row] for row in bj["cell"]] if bj["cell"] else None
    if c1 is None:
        return [("cell items present but no cell read", None)], bj
    for name, x, y in zip("a b c alpha beta gamma".split(), exp["cellpar"], cellpar(c1)):
        if not abs(x - y) <= 1e-8 * max(abs(x), 1.0):
            bad.append(("cell %s read as %r, file says %r (s.u. removed)" % (name, y, x), None))
    pos1 = [[fl(v) for v in r["pos"]] for r in bj["atoms"]]
    n = len(pos1)
    if exp["cartn"] is not None:
        # Cartesian tags take precedence; numbers are taken as they are (no wrap, no conversion)
        w = max(abs(pos1[i][k] - exp["cartn"][i][k]) for i in range(n) for k in range(3))
        if w > 1e-9:
            bad.append(("Cartesian file not read unconverted: differs by %.3g" % w, None))
    else:
        f1 = frac_of(c1, pos1)
        w = max(mod1_dist(f1[i][k], exp["fract"][i][k]) for i in range(n) for k in range(3))
        if w > 1e-8:
            bad.append(("fractional coordinates with s.u. read wrongly: differ modulo 1 by %.3g" % w, None))
        if float(f1.min()) < -1e-9 or float(f1.max()) > 1 + 1e-9:
            bad.append(("fractional coordinates not wrapped into [0,1]: min %r max %r" % (float(f1.min()), float(f1.max())), None))
    if "charges" in exp and [fl(r["q"]) for r in bj["atoms"]] != exp["charges"]:
        bad.append(("charges read %s, file says %s (s.u. removed)" % ([fl(r["q"]) for r in bj["atoms"]], exp["charges"]), None))
    if [t["a"] for t in bj["terms"]["bond"]] != exp["bonds"]:
        bad.append(("bonds read %s, file says %s" % ([t["a"] for t in bj["terms"]["bond"]], exp["bonds"]), None))
    if with_ase and not bad:
        r, e = attempt(lambda: ase_read(inp["text"]))
        if e is None:      # ASE is only the independent witness: a file it cannot read says nothing about mofun
            import numpy as np
            rc = [[float(v) for v in row] for row in r.cell[:]]
            if not max(abs(rc[i][k] - c1[i][k]) for i in range(3) for k in range(3)) <= ASE_TOL:
                bad.append(("cell differs from ase.io.read: %s vs %s" % (c1, rc), None))
            elif len(r) == n and exp["cartn"] is None:
                d = frac_of(c1, [[float(v) for v in p] for p in r.positions]) - frac_of(c1, pos1)
                d -= np.round(d)
                if not np.abs(d.dot(np.array(c1))).max() <= ASE_TOL:
                    bad.append(("positions differ from ase.io.read (modulo lattice)", None))
    return bad, bj


P1_ACCEPT = ["P1", "P 1"]
P1_REJECT = ["F m -3 m", "P -1", "P 21/c", "I 41/a m d", "C 2/m", "Fm-3m", "P 2", "P 1 21/c 1", "R -3 m", "P 4"]


def gen_p1(rng, base_text=None):
    hm = rng.choice(P1_ACCEPT + P1_REJECT + P1_REJECT)
    text = ("data_x\n_symmetry_space_group_name_H-M  '%s'\n_cell_length_a 10\n_cell_length_b 11\n_cell_length_c 12\n"
            "_cell_angle_alpha 90\n_cell_angle_beta 90\n_cell_angle_gamma 90\nloop_\n_atom_site_label\n_atom_site_type_symbol\n"
            "_atom_site_fract_x\n_atom_site_fract_y\n_atom_site_fract_z\nC1 C 0.1 0.2 0.3\nO1 O 0.5 0.5 0.5\n") % hm
    return {"op": "p1", "hm": hm, "text": text, "accept": hm in P1_ACCEPT}


def oracle_p1(inp):
    b, e = attempt(lambda: read(inp["text"]))
    if inp["accept"] and e is not None:
        return [("a file declaring space group %r was refused: %s" % (inp["hm"], type(e).__name__), None)]
    if not inp["accept"] and e is None:
        return [("a file declaring the non-P1 space group %r was read as if it were P1" % inp["hm"], None)]
    return []


# ------------------------------------------------------------------ tie helpers

def canon_block(block):
    """'-0.0000' and '0.0000' are the same printed number for the comparison with the exact-arithmetic model (the sign of
    a float that is zero up to rounding error is not decidable in the model)"""
    out = []
    for e in block:
        if "loop" in e:
            out.append({"loop": list(e["loop"]), "rows": [["0.0000" if v == "-0.0000" else v for v in r] for r in e["rows"]]})
        else:
            out.append({"item": list(e["item"])})
    return out


def mask_coords(block):
    out = []
    for e in block:
        if "loop" in e and "_atom_site_fract_x" in e["loop"]:
            idx = [e["loop"].index(t) for t in ("_atom_site_fract_x", "_atom_site_fract_y", "_atom_site_fract_z")]
            out.append({"loop": e["loop"], "rows": [["*" if k in idx else v for k, v in enumerate(r)] for r in e["rows"]]})
        else:
            out.append(e)
    return out


def exact_arith(aj):
    """power-of-two axis-aligned cell and dyadic positions: the code's float arithmetic is exact, ties are real ties"""
    if aj["cell"] is None:
        return True
    if not is_axis_ortho(aj["cell"]):
        return False
    return all(fl(aj["cell"][i][i]) in (8.0, 16.0) for i in range(3))


def env_for(aj, block):
    """what the model does not compute: float repr of the charges (independent: python's repr) and the six cell strings
    (taken from the file; the oracle checks them against the cell)"""
    tbl = {}
    for r in aj["atoms"]:
        tbl[r["q"]] = repr(fl(r["q"]))
    env = {"repr": [[k, v] for k, v in tbl.items()]}
    if aj["cell"] is not None and block is not None:
        vals = [block_get(block, t) for t in ["_cell_length_a", "_cell_length_b", "_cell_length_c",
                                              "_cell_angle_alpha", "_cell_angle_beta", "_cell_angle_gamma"]]
        if all(isinstance(v, str) for v in vals):
            env["cellpar"] = vals
    return env


def oracle_cellpar_strings(aj, block):
    """the six cell items of the written file against the cell, straight from the definition (they are opaque to the model)"""
    if aj["cell"] is None or block is None:
        return []
    c0 = [[fl(v) for v in row] for row in aj["cell"]]
    bad = []
    for t, x, isang in zip(["_cell_length_a", "_cell_length_b", "_cell_length_c", "_cell_angle_alpha", "_cell_angle_beta", "_cell_angle_gamma"],
                           cellpar(c0), [0, 0, 0, 1, 1, 1]):
        v = block_get(block, t)
        try:
            y = float(v)
        except Exception:
            bad.append(("cell item %s is not a number: %r" % (t, v), None))
            continue
        if abs(x - y) > (0.5e-4 + 1e-9 if isang else 1e-9 * x):
            bad.append(("cell item %s written as %r, cell says %r" % (t, v, x), None))
    return bad


SU_ALPHABET = "0123456789()..-+eE x"


def gen_su_string(rng):
    if rng.random() < 0.5:
        s = "%.*f" % (rng.randint(0, 5), rng.uniform(-20, 20))
        if rng.random() < 0.7:
            s += "(%d)" % rng.randint(0, 999)
        if rng.random() < 0.2:
            s += rng.choice(["e-3", "E2", "(", ")", "(5)", "()"])
        return s
    return "".join(rng.choice(SU_ALPHABET) for _ in range(rng.randint(0, 9)))


def real_strip(s):
    """what the code's `tofloat` does with `s`: (stripped string, float or None when float() raises); None = not compared
    (python's float accepts blanks, underscores, inf, nan: outside the modelled plain decimal grammar)"""
    t = re.sub(r"\(\d+\)", "", s)
    qv = None
    if re.fullmatch(r"[+-]?(\d+\.?\d*|\.\d+)([eE][+-]?\d+)?", t):
        v = float(t)
        if math.isinf(v) or math.isnan(v):
            return None
        qv = core.q(v)
    else:
        try:
            float(t)
            return None
        except ValueError:
            qv = None
    return {"ok": {"s": t, "q": qv}}


# ------------------------------------------------------------------ streams

NONSTANDARD = ("rot", "lh", "negdiag", "rotortho")     # cell kinds not in the standard orientation: fractional output only


def default_cases(ctx):
    rng = ctx.rng
    out = []
    kinds = ["ortho", "ortho2", "tri+", "tri-", "tri", "rot", "lh", "negdiag", "none", "near90", "rotortho"]
    placements = ["inside", "outside", "boundary", "near", "mixed", "decimal", "grid", "generic"]
    # a systematic sweep first: every cell kind x placement x output mode
    for ck in kinds:
        for pl in placements:
            for fract in (True, False):
                if ck in NONSTANDARD and not fract:
                    continue                      # known-finding stream (T_ROT), see known_cases
                aj, _ = gen_structure(rng, cellkind=ck, placement=pl)
                out.append({"op": "roundtrip", "a": aj, "fract": fract, "stream": "default", "cellkind": ck, "placement": pl})
    for s in range(ctx.n(60, 1500)):
        ck = rng.choice(kinds)
        fract = rng.random() < 0.65 or ck in NONSTANDARD
        pl = rng.choice(placements)
        aj, _ = gen_structure(rng, cellkind=ck, placement=pl)
        out.append({"op": "roundtrip", "a": aj, "fract": fract, "stream": "default", "cellkind": ck, "placement": pl})
    # small periodic cells (1-3 atoms): atoms bonded to their own periodic images, terms that repeat an atom
    for s in range(ctx.n(16, 200)):
        ck = rng.choice(["ortho", "ortho2", "tri+", "tri-", "tri", "near90"])
        ks = ["bond"] + [k for k in ["angle", "dihedral", "improper"] if rng.random() < 0.5]
        aj, _ = gen_structure(rng, cellkind=ck, placement=rng.choice(["inside", "mixed", "boundary"]), n=rng.randint(1, 3),
                              kinds=ks, self_image=True)
        out.append({"op": "roundtrip", "a": aj, "fract": rng.random() < 0.6, "stream": "small-cell", "cellkind": ck, "placement": "mixed"})
    # every subset of kinds carrying extra columns, every term kind present
    for mask in range(16):
        ex = {k for i, k in enumerate(["atom", "bond", "angle", "dihedral"]) if mask >> i & 1}
        ks = ["bond", "angle", "dihedral"] + ([] if "dihedral" in ex else ["improper"])
        aj, ck = gen_structure(rng, cellkind=rng.choice(["ortho", "tri"]), n=rng.randint(4, 7), kinds=ks, extras=ex)
        out.append({"op": "roundtrip", "a": aj, "fract": bool(mask % 2), "stream": "default", "cellkind": ck, "placement": "mixed"})
    return out


def _mini(cell, fracs, els, fract=True, **terms):
    """a small structure in canonical JSON: cell rows (numbers), fractional positions, element per atom"""
    M = gen.masses()
    types = list(dict.fromkeys(els))
    cellF = [[F(x) for x in row] for row in cell]
    pos = [[sum(F(f[k]) * cellF[k][j] for k in range(3)) for j in range(3)] for f in fracs]
    j = {"cell": [[core.q(v) for v in row] for row in cellF],
         "atoms": [{"ty": types.index(e), "pos": [core.q(F(float(v))) for v in p], "q": "0", "g": 0, "x": []} for e, p in zip(els, pos)],
         "terms": {k: [] for k in KINDS}, "types": {k: [] for k in KINDS}, "xlabels": {k: [] for k in KINDS + ["atom"]}}
    j["types"].update(elem=types, label=types, mass=[core.q(M[e]) for e in types], pair=[])
    for k, (ts, xl) in terms.items():
        j["terms"][k] = ts
        j["xlabels"][k] = xl
    return j


def minimal_known_inputs():
    """one minimal input per known finding (also stored as corpus/C15/<tag>.json)"""
    five = [[0.1, 0.1, 0.1], [0.2, 0.3, 0.1], [0.4, 0.3, 0.2], [0.5, 0.5, 0.4], [0.7, 0.6, 0.5]]
    box = [[20, 0, 0], [0, 20, 0], [0, 0, 20]]
    out = {}
    out[T_TORS] = {"op": "roundtrip", "fract": True, "a": _mini(box, five, list("CCCCC"),
        dihedral=([{"a": [0, 1, 2, 3], "ty": 0, "x": ["55.5"]}], ["_geom_torsion"]),
        improper=([{"a": [1, 2, 3, 4], "ty": 0, "x": []}], []))}
    out[T_IMPX] = {"op": "roundtrip", "fract": True, "a": _mini(box, five, list("CCCCC"),
        dihedral=([{"a": [0, 1, 2, 3], "ty": 0, "x": []}], []),
        improper=([{"a": [1, 2, 3, 4], "ty": 0, "x": ["oop"]}], ["_geom_torsion_note"]))}
    out[T_LEN] = {"op": "roundtrip", "fract": True,
                  "a": _mini([[6.5, 0, 0], [-2, 13.875, 0], [-1.375, -1, 12.875]], [[0.25, 0.5, 0.75]], ["C"])}
    out[T_ZERO] = {"op": "roundtrip", "fract": True,
                   "a": _mini([[9.75, 0, 0], [1.625, 8, 0], [-0.125, 1.75, 13.5]], [[0, 0.5, 0], [0.5, 0, 0.125]], ["O", "N"])}
    out[T_ROT] = {"op": "roundtrip", "fract": False,
                  "a": _mini([[0, 8, 0], [10, 0, 0], [0, 0, 12]], [[0.25, 0.125, 0.25], [0.5, 0.5, 0.5]], ["C", "O"])}
    a = _mini(box, five[:2], ["C", "O"])
    a["xlabels"]["atom"] = ["_atom_site_U_iso_or_equiv"]
    a["atoms"][0]["x"], a["atoms"][1]["x"] = ["0.01"], ["0.02"]
    out[T_CASE] = {"op": "roundtrip", "fract": True, "a": a}
    a = _mini(box, five[:2], ["C", "O"])
    a["xlabels"]["atom"] = ["_atom_site_note"]
    a["atoms"][0]["x"], a["atoms"][1]["x"] = ["loop_"], ["z"]
    out[T_RES] = {"op": "roundtrip", "fract": True, "a": a}
    for tag, inp in out.items():
        inp.update(stream="known:" + tag, cellkind="fixed", placement="fixed")
    return out


def corpus_cases():
    """corpus first: the stored minimal replays (falls back to the built-in ones when a file is missing)"""
    built = minimal_known_inputs()
    out = []
    for tag in KNOWN_TAGS:
        path = os.path.join(CORPUS, tag + ".json")
        inp = None
        if os.path.exists(path):
            try:
                inp = json.load(open(path))["input"]
            except Exception:
                inp = None
        out.append(inp or built[tag])
    return out


def known_cases(ctx):
    """small generated streams of the known-finding classes (beside the corpus replays)"""
    rng = ctx.rng
    out = []
    for s in range(ctx.n(3, 20)):
        aj, ck = gen_structure(rng, cellkind=rng.choice(["ortho", "tri"]), n=rng.randint(5, 8), kinds=["dihedral", "improper"],
                               extras=set(), improper_extras=False)
        aj["xlabels"]["dihedral"] = ["_geom_torsion"]           # dihedral extra columns together with impropers
        for t in aj["terms"]["dihedral"]:
            t["x"] = ["55.5"]
        out.append({"op": "roundtrip", "a": aj, "fract": True, "stream": "known:" + T_TORS, "cellkind": ck, "placement": "mixed"})
    for s in range(ctx.n(3, 20)):
        aj, ck = gen_structure(rng, cellkind=rng.choice(["ortho", "ortho2"]), n=rng.randint(5, 8), placement="inside",
                               kinds=["improper"] + (["dihedral"] if s % 2 else []), extras=set(), improper_extras=True)
        out.append({"op": "roundtrip", "a": aj, "fract": True, "stream": "known:" + T_IMPX, "cellkind": ck, "placement": "inside"})
    for s in range(ctx.n(3, 40)):
        aj, ck = gen_structure(rng, cellkind=rng.choice(["tri+", "tri-", "tri", "rot"]), placement=rng.choice(["inside", "outside"]))
        out.append({"op": "roundtrip", "a": aj, "fract": True, "stream": "known:" + T_LEN, "cellkind": ck, "placement": "mixed"})
    for s in range(ctx.n(3, 40)):
        aj, ck = gen_structure(rng, cellkind=rng.choice(["tri+", "tri-", "tri", "rot"]), placement="boundary")
        out.append({"op": "roundtrip", "a": aj, "fract": True, "stream": "known:" + T_ZERO, "cellkind": ck, "placement": "boundary"})
    for s in range(ctx.n(3, 20)):
        aj, ck = gen_structure(rng, cellkind="rot", placement="inside")
        out.append({"op": "roundtrip", "a": aj, "fract": False, "stream": "known:" + T_ROT, "cellkind": ck, "placement": "inside"})
    for s in range(ctx.n(3, 20)):
        aj, ck = gen_structure(rng, cellkind=rng.choice(["ortho", "ortho2", "none"]), n=rng.randint(3, 6), kinds=["bond", "angle"],
                               extras=set(rng.sample(["atom", "bond", "angle"], rng.randint(1, 3))), mixed_case=True, placement="inside")
        out.append({"op": "roundtrip", "a": aj, "fract": True, "stream": "known:" + T_CASE, "cellkind": ck, "placement": "inside"})
    for s in range(ctx.n(3, 20)):
        aj, ck = gen_structure(rng, cellkind=rng.choice(["ortho", "ortho2"]), n=rng.randint(3, 6), kinds=["bond"],
                               extras={"atom", "bond"}, placement="inside")
        v = rng.choice(["loop_", "LOOP_", "Loop_", "stop_", "STOP_", "stop_x", "a\rb", "\r"])
        where = rng.choice(["atom"] + (["bond"] if aj["terms"]["bond"] else []))
        if where == "atom":
            rng.choice(aj["atoms"])["x"][0] = v
        else:
            rng.choice(aj["terms"]["bond"])["x"][0] = v
        out.append({"op": "roundtrip", "a": aj, "fract": True, "stream": "known:" + T_RES, "cellkind": ck, "placement": "inside"})
    return out


def gen_large(rng, n_main, elem_main, others, cellkind="ortho"):
    """a LARGE structure: `n_main` atoms of one element (labels up to elem_main+str(n_main)) and a few others, on a
    g x g x g fractional grid inside the cell, no extra columns, a handful of terms on the HIGHEST-numbered atoms"""
    n = n_main + len(others)
    g = 1
    while g ** 3 < n:
        g += 1
    L = 4 * g
    cell = [[F(L), 0, 0], [0, F(L + 2), 0], [0, 0, F(L + 4)]] if cellkind == "ortho" else \
        [[F(L), 0, 0], [F(3), F(L + 2), 0], [F(-2), F(5), F(L + 4)]]
    sites = rng.sample(range(g ** 3), n)
    els = [elem_main] * n_main + list(others)
    order = list(range(n))
    # the others are interleaved near the front so that the last atoms are the high-numbered ones of the main element
    for k in range(len(others)):
        order.insert(rng.randint(0, 20), order.pop())
    types = list(dict.fromkeys([elem_main] + list(others)))
    M = gen.masses()
    atoms = []
    for idx in order:
        s_ = sites[idx]
        f = [Fraction(2 * (s_ % g) + 1, 2 * g), Fraction(2 * ((s_ // g) % g) + 1, 2 * g), Fraction(2 * (s_ // (g * g)) + 1, 2 * g)]
        pos = [sum(f[k] * cell[k][j] for k in range(3)) for j in range(3)]
        atoms.append({"ty": types.index(els[idx]), "pos": [core.q(F(float(v))) for v in pos], "q": "0", "g": 0, "x": []})
    j = {"cell": [[core.q(v) for v in row] for row in cell], "atoms": atoms,
         "terms": {k: [] for k in KINDS}, "types": {k: [] for k in KINDS}, "xlabels": {k: [] for k in KINDS + ["atom"]}}
    j["types"].update(elem=types, label=types, mass=[core.q(M[e]) for e in types], pair=[])
    hi = n - 1
    j["terms"]["bond"] = [{"a": [hi, hi - 1], "ty": 0, "x": []}, {"a": [hi - 2, 5], "ty": 0, "x": []},
                          {"a": [rng.randint(n - 90, hi), rng.randint(0, 50)], "ty": 0, "x": []}]
    j["terms"]["angle"] = [{"a": [hi, hi - 3, 0], "ty": 0, "x": []}, {"a": [hi - 50, hi - 1, hi - 7], "ty": 0, "x": []}]
    j["terms"]["dihedral"] = [{"a": [hi - 4, 1, hi - 60, hi], "ty": 0, "x": []}]
    j["terms"]["improper"] = [{"a": [2, hi - 5, hi - 11, 3], "ty": 0, "x": []}]
    return j


LARGE_TIE_LIMIT = 2000      # above this many atoms the Lean interpreter is too slow: oracle only


def large_cases(ctx):
    """labels with 4+ digit counters: >= 1001 atoms of a two-letter element; thorough: ~10050 of a one-letter element"""
    rng = ctx.rng
    out = []
    for k in range(ctx.n(2, 5)):
        aj = gen_large(rng, rng.randint(1001, 1150), rng.choice(["Zn", "Zr", "Cu"]), ["C", "H", "O"][:rng.randint(1, 3)],
                       cellkind="ortho" if k % 2 == 0 else "tri")
        out.append({"op": "roundtrip", "a": aj, "fract": k % 3 != 2, "stream": "large", "cellkind": "large", "placement": "inside"})
    if not ctx.quick():
        aj = gen_large(rng, 10050, "C", ["O", "N"])
        out.append({"op": "roundtrip", "a": aj, "fract": True, "stream": "large", "cellkind": "large", "placement": "inside"})
    return out


def special_charge_case():
    """charges that cannot cross the line protocol as rationals (nan, inf) and signed zero: oracle only"""
    return {"op": "charges", "q": ["nan", "inf", "-inf", "-0.0", "1e-320", "1.7976931348623157e308"]}


def oracle_special_charges(inp):
    import numpy as np
    from mofun import Atoms
    q = [float(v) for v in inp["q"]]
    n = len(q)
    with core.quiet():
        a = Atoms(elements=["C"] * n, positions=[[1.0 + i, 2.0, 3.0] for i in range(n)], cell=np.diag([20.0, 11.0, 12.0]), charges=q)
    w1, e = attempt(lambda: write(a, True))
    if e is not None:
        return [("save_p1_cif raised %s on charges %s" % (type(e).__name__, inp["q"]), None)]
    b, e = attempt(lambda: read(w1))
    if e is not None:
        return [("load_p1_cif raised %s on written charges %s" % (type(e).__name__, inp["q"]), None)]
    same = lambda x, y: (math.isnan(x) and math.isnan(y)) or (x == y and math.copysign(1, x) == math.copysign(1, y))
    got = [float(v) for v in b.charges]
    bad = []
    if len(got) != n or not all(same(x, y) for x, y in zip(q, got)):
        bad.append(("special charges changed: %s -> %s" % (q, got), None))
    w2, e = attempt(lambda: write(b, True))
    if e is not None or w2 != w1:
        bad.append(("second writing of special charges differs / raised", None))
    return bad


def tiny_negative_case():
    """a fractional coordinate of -1e-20: float `% 1.0` gives the boundary image 1.0 (accepted: closed interval)"""
    text = ("data_x\n_symmetry_space_group_name_H-M  'P 1'\n_cell_length_a 10\n_cell_length_b 11\n_cell_length_c 12\n"
            "_cell_angle_alpha 90\n_cell_angle_beta 90\n_cell_angle_gamma 90\nloop_\n_atom_site_label\n_atom_site_type_symbol\n"
            "_atom_site_fract_x\n_atom_site_fract_y\n_atom_site_fract_z\nC1 C -1e-20 0.2 0.3\n")
    return {"op": "handwritten", "kind": "su-fract", "text": text,
            "expect": {"elements": ["C"], "cellpar": [10, 11, 12, 90, 90, 90], "bonds": [], "cartn": None, "fract": [[-1e-20, 0.2, 0.3]]}}


def nontrivial(inp):
    if inp["op"] != "roundtrip":
        return True
    aj = inp["a"]
    if aj["cell"] is None:
        return False
    return any(aj["terms"][k] for k in KINDS) or any(aj["xlabels"][k] for k in aj["xlabels"]) or inp.get("placement") in ("outside", "boundary", "near", "mixed")


# ------------------------------------------------------------------ run

def model_view(aj):
    """the structure as the model sees it: python's negative atom indices (`atom_labels[i]`, i < 0) written as i % n"""
    n = len(aj["atoms"])
    if not any(x < 0 for k in KINDS for t in aj["terms"][k] for x in t["a"]):
        return aj
    out = dict(aj)
    out["terms"] = {k: [dict(t, a=[x % n if -n <= x < 0 else x for x in t["a"]]) for t in aj["terms"][k]] for k in KINDS}
    return out


def judge_state(ctx, inp, aj, fract, ops, pending, oracle_only, obj=None, where=""):
    """one save of one structure state: oracle on the real code, then the two ties.  `obj`: the live object (histories)"""
    ctx.count("out:" + ("fract" if fract else "cartn"))
    for k in ["atom", "bond", "angle", "dihedral", "improper"]:
        if aj["xlabels"].get(k):
            ctx.count("extra:" + k)
    for k in KINDS:
        if aj["terms"][k]:
            ctx.count("terms:" + k)
    if any(x < 0 for k in KINDS for t in aj["terms"][k] for x in t["a"]):
        ctx.count("terms:negative-index")
    for k in KINDS:
        if any(len({x % len(aj["atoms"]) for x in t["a"]}) < len(t["a"]) for t in aj["terms"][k]):
            ctx.count("terms:self-image:" + k)
    big = len(aj["atoms"]) > LARGE_TIE_LIMIT
    show_ase = (not big) and ase_can_parse_values(aj)
    if not show_ase and not big:
        ctx.count("ase:not-shown-exotic-values")
    bad, info = oracle_roundtrip(aj, fract, with_ase=show_ase, obj=obj)
    if "block" in info:
        bad += oracle_cellpar_strings(aj, info["block"])
    if "in_cell" in info:
        ctx.count("rewrite:" + ("W2==W1" if info["in_cell"] else "W3==W2"))
    for what, tag in bad:
        ctx.fail(where + what, inp, observed=(info.get("w1") or "")[:1500], required="C15 round trip", tags=[tag] if tag else [])
    if oracle_only or big:
        return
    # tie 1: the block the code wrote against the model's saveCif
    a, e = (obj, None) if obj is not None else attempt(lambda: core.atoms_from_json(aj))
    if e is not None:
        return
    w1, e = attempt(lambda: write(a, fract))
    if e is not None:
        ops.append({"op": "cif_save", "a": model_view(aj), "fract": fract, "env": env_for(aj, None)})
        pending.append(("cif_save", {"err": save_err(e)}, None))
        return
    block, e = attempt(lambda: read_block(w1))
    if e is not None:
        return
    ops.append({"op": "cif_save", "a": model_view(aj), "fract": fract, "env": env_for(aj, block)})
    pending.append(("cif_save", {"ok": canon_block(block)}, exact_arith(aj) or not (fract and aj["cell"] is not None)))
    # tie 2: what the code read from that file against the model's loadCif on that block
    b, e = attempt(lambda: read(w1))
    if e is None and not (_all_finite(b.positions) and (b.cell is None or _all_finite(b.cell)) and _all_finite(b.charges)):
        return                 # nan / inf cannot cross the line protocol; the oracle has reported it
    impl = {"ok": core.canon_atoms(b)} if e is None else {"err": load_err(e)}
    ops.append({"op": "cif_load", "block": block, "cell": impl["ok"]["cell"] if e is None else None})
    pending.append(("cif_load", impl, None))


# ------------------------------------------------------------------ histories: several saves of ONE object

def gen_history(rng):
    """one structure object that is saved, has its cell changed (IN PLACE: row assignment, scalar scaling, element
    assignment, row increment; or replaced by a new array), is saved again, ... Every cell stays lower-triangular
    with a positive diagonal (standard orientation), so that Cartesian output is in the property's domain too."""
    aj, ck = gen_structure(rng, cellkind=rng.choice(["ortho", "tri+", "tri-", "tri", "ortho2", "near90"]), n=rng.randint(1, 6),
                           placement=rng.choice(["inside", "inside", "mixed", "outside"]))
    d8 = lambda lo, hi: Fraction(rng.randint(int(lo * 8), int(hi * 8)), 8)
    steps = []
    for _ in range(rng.randint(1, 4)):
        kind = rng.choice(["row", "row", "scale", "scale", "elem", "elem", "rowadd", "replace"])
        st = {"kind": kind, "keep": rng.choice(["frac", "frac", "cart"])}
        if kind == "row":
            i = rng.randrange(3)
            st["i"] = i
            st["row"] = [core.q(v) for v in ([d8(6, 16), 0, 0] if i == 0 else [d8(-3, 3), d8(6, 16), 0] if i == 1
                                             else [d8(-3, 3), d8(-3, 3), d8(6, 18)])]
        elif kind == "scale":
            st["k"] = core.q(rng.choice([Fraction(3, 2), Fraction(5, 4), Fraction(3, 4), Fraction(2), Fraction(9, 8)]))
        elif kind == "elem":
            i, j = rng.choice([(0, 0), (1, 1), (2, 2), (1, 0), (2, 0), (2, 1)])
            st["i"], st["j"] = i, j
            st["v"] = core.q(d8(6, 18) if i == j else d8(-3, 3))
        elif kind == "rowadd":
            i = rng.randrange(3)
            st["i"] = i
            st["row"] = [core.q(v) for v in ([d8(1, 4), 0, 0] if i == 0 else [d8(-1, 1), d8(1, 4), 0] if i == 1
                                             else [d8(-1, 1), d8(-1, 1), d8(1, 4)])]
        else:
            st["cell"] = [[core.q(v) for v in row] for row in gen_cell(rng, rng.choice(["ortho", "tri+", "tri-", "tri"]))]
        steps.append(st)
    return {"op": "history", "a": aj, "steps": steps, "fract": [rng.random() < 0.75 for _ in range(len(steps) + 1)],
            "stream": "history", "cellkind": ck}


def apply_step(obj, st):
    """the modification a user script would make on the live object (numpy, in place unless kind == replace)"""
    import numpy as np
    frac = np.linalg.solve(np.array(obj.cell, dtype=float).T, np.array(obj.positions, dtype=float).T).T
    k = st["kind"]
    if k == "row":
        obj.cell[st["i"]] = [fl(v) for v in st["row"]]
    elif k == "scale":
        obj.cell *= fl(st["k"])
    elif k == "elem":
        obj.cell[st["i"], st["j"]] = fl(st["v"])
    elif k == "rowadd":
        obj.cell[st["i"]] += np.array([fl(v) for v in st["row"]])
    else:
        obj.cell = np.array([[fl(v) for v in row] for row in st["cell"]])
    if st.get("keep") == "frac":
        obj.positions = frac.dot(obj.cell)          # the atoms keep their fractional coordinates (strain)


def run_history(ctx, inp, ops, pending, oracle_only):
    ctx.count("stream:history")
    aj = inp["a"]
    obj, e = attempt(lambda: core.atoms_from_json(aj))
    if e is not None or aj["cell"] is None:
        if e is not None:
            ctx.fail("constructing the structure raised %s" % type(e).__name__, inp, tags=[])
        return
    judge_state(ctx, inp, aj, inp["fract"][0], ops, pending, oracle_only, obj=obj, where="[save 0] ")
    for k, st in enumerate(inp["steps"]):
        ctx.count("history-step:" + st["kind"] + "/" + st.get("keep", ""))
        _, e = attempt(lambda: apply_step(obj, st))
        if e is not None:
            ctx.fail("changing the cell of the live object raised %s: %s" % (type(e).__name__, str(e)[:120]), inp, tags=[])
            return
        # the state of the object as its plain attributes show it (cell, positions, ...): what the next save must write
        state = core.canon_atoms(obj)
        judge_state(ctx, inp, state, inp["fract"][k + 1], ops, pending, oracle_only, obj=obj,
                    where="[save %d, after %s of the cell%s] " % (k + 1, {"row": "in-place row assignment", "scale": "in-place scaling",
                          "elem": "in-place element assignment", "rowadd": "in-place row increment", "replace": "replacement"}[st["kind"]],
                          ", fractional coordinates kept" if st.get("keep") == "frac" else ""))


def check_case(ctx, inp, ops, pending, oracle_only=False):
    """oracle on the real code + queue the model ops for this input"""
    op = inp["op"]
    ctx.case(inp, nontrivial=nontrivial(inp))
    ctx.count(op)
    if op == "roundtrip":
        aj, fract = inp["a"], inp["fract"]
        ctx.count("stream:" + inp.get("stream", "default"))
        ctx.count("cell:" + inp.get("cellkind", "?"))
        ctx.count("place:" + inp.get("placement", "?"))
        judge_state(ctx, inp, aj, fract, ops, pending, oracle_only)
    elif op == "history":
        run_history(ctx, inp, ops, pending, oracle_only)
    elif op == "handwritten":
        ctx.count("hand:" + inp["kind"])
        ctx.count("hand-numbers:" + inp.get("style", "plain"))
        ctx.count("hand-cell:" + inp.get("cell", "?"))
        if "_atom_site_charge" in inp["text"]:
            ctx.count("hand:charge-column")
        bad, bj = oracle_handwritten(inp)
        for what, tag in bad:
            ctx.fail(what, inp, observed=bj and bj["atoms"], required="C15 reading", tags=[tag] if tag else [])
        if oracle_only:
            return
        b, e = attempt(lambda: read(inp["text"]))
        impl = {"ok": core.canon_atoms(b)} if e is None else {"err": load_err(e)}
        blk, e2 = attempt(lambda: read_block(inp["text"]))
        if e2 is None:
            ops.append({"op": "cif_load", "block": blk, "cell": impl["ok"]["cell"] if e is None else None})
            pending.append(("cif_load", impl, None))
    elif op == "charges":
        for what, tag in oracle_special_charges(inp):
            ctx.fail(what, inp, observed=None, required="charges are reproduced", tags=[])
    elif op == "p1":
        ctx.count("p1:" + ("accept" if inp["accept"] else "reject"))
        for what, tag in oracle_p1(inp):
            ctx.fail(what, inp, observed=None, required="non-P1 files are rejected; 'P1' and 'P 1' are accepted", tags=[])
        if oracle_only:
            return
        b, e = attempt(lambda: read(inp["text"]))
        impl = {"ok": core.canon_atoms(b)} if e is None else {"err": load_err(e)}
        blk = read_block(inp["text"])
        ops.append({"op": "cif_load", "block": blk, "cell": impl["ok"]["cell"] if e is None else None})
        pending.append(("cif_load", impl, None))
    elif op == "strip":
        r = real_strip(inp["s"])
        if r is not None and not oracle_only:
            ops.append({"op": "strip_su", "s": inp["s"]})
            pending.append(("strip_su", r, None))


def all_cases(ctx):
    rng = ctx.rng
    cases = default_cases(ctx)
    for _ in range(ctx.n(40, 400)):
        cases.append(gen_handwritten(rng))
    for _ in range(ctx.n(24, 100)):
        cases.append(gen_p1(rng))
    # P1 variants the property does not decide (case, blanks, missing item, looped item): tie only
    for hm in ["p 1", "P  1", "P1 ", "p1", "P 1 "]:
        c = gen_p1(rng)
        c["text"] = c["text"].replace("'%s'" % c["hm"], "'%s'" % hm)
        c.update(op="p1tie", hm=hm)
        cases.append(c)
    c = gen_p1(rng)
    c["text"] = re.sub(r"_symmetry_space_group_name_H-M.*\n", "", c["text"])
    c.update(op="p1tie", hm=None)
    cases.append(c)
    for _ in range(ctx.n(300, 3000)):
        cases.append({"op": "strip", "s": gen_su_string(rng)})
    for s in ["1.234(5)", "((1)2)", "(12(3)x()(4", "0.5(12)(3)", "(7)", "()", "1(2", "1)2("]:
        cases.append({"op": "strip", "s": s})
    cases.append(tiny_negative_case())
    cases.append(special_charge_case())
    for _ in range(ctx.n(30, 400)):
        cases.append(gen_history(rng))
    return corpus_cases() + cases + known_cases(ctx) + large_cases(ctx)


def run(ctx, oracle_only=False):
    ctx.rule = RULE
    ctx.notes.append("large structures (stream 'large', >= 1001 atoms of one element): oracle always; Lean tie only up to %d atoms "
                     "(the interpreted model's label generation is quadratic), ase.io.read likewise" % LARGE_TIE_LIMIT)
    ctx.notes.append("known findings reproduced on every run (corpus/C15 + small streams): " + ", ".join(KNOWN_TAGS))
    ops, pending = [], []
    for inp in all_cases(ctx):
        if inp["op"] == "p1tie":
            ctx.case(inp, nontrivial=True)
            ctx.count("p1:tie-only")
            if not oracle_only:
                b, e = attempt(lambda: read(inp["text"]))
                impl = {"ok": core.canon_atoms(b)} if e is None else {"err": load_err(e)}
                ops.append({"op": "cif_load", "block": read_block(inp["text"]), "cell": impl["ok"]["cell"] if e is None else None})
                pending.append(("cif_load", impl, None))
            continue
        check_case(ctx, inp, ops, pending, oracle_only)
    if oracle_only:
        return
    models = ctx.lean.run(ops)
    for inp, (op, impl, exact), m in zip(ops, pending, models):
        if op == "cif_save" and "ok" in m:
            slack = core.unq(m.get("slack", "1/2"))
            m = {"ok": canon_block(m["ok"])}
            if exact is False and slack < Fraction(1, 10 ** 6):
                # a printed coordinate within 1e-10 of a rounding boundary: the float computation decides; everything
                # but the coordinate columns is still compared
                ctx.ambiguous += 1
                impl, m = {"ok": mask_coords(impl["ok"])}, {"ok": mask_coords(m["ok"])}
        ctx.compare(op, inp, impl, m)


def search(ctx):
    """focused search on the real code only (no model): the thorough budget through the oracle"""
    saved = ctx.tier
    ctx.tier = "thorough"
    try:
        run(ctx, oracle_only=True)
    finally:
        ctx.tier = saved


class _Null:
    """a throw-away context for replays"""
    def __init__(self):
        self.failures = []
    def case(self, *a, **k): pass
    def count(self, *a, **k): pass
    def fail(self, what, inp, observed=None, required=None, tags=()):
        self.failures.append(what)


def replay(ctx, rec):
    inp = rec["input"]
    null = _Null()
    check_case(null, inp, [], [], oracle_only=True)
    return not null.failures
