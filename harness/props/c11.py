"""C11 — extending a structure appends atoms and re-targets terms correctly (Atoms.extend, extend_types).

Streams
  (x) EXHAUSTIVE identity maps: for pairs of small structures (|self|, |other| <= 3 quick / <= 4 thorough) EVERY
      injective partial map other -> self, with default offsets, with explicit zero offsets and with the offsets
      returned by `extend_types` (alternating);
  (r) random larger pairs with random injective partial maps, all four term kinds, coefficient tables present /
      absent, extra columns with overlapping and disjoint labels (atom and term columns);
  (o) override cases: the other structure gets a term that, through the map, lands exactly on an existing term of
      self — listed forwards, reversed, or permuted otherwise (which must NOT supersede) —, duplicate new terms,
      duplicate old terms, palindromic tuples;
  (t) repeated extension with the same fragment and shared offsets (`offsets = a.extend_types(b)`, then twice
      `a.extend(b, offsets)`): two disjoint copies of the fragment's terms with identical types;
  (L) larger fragments: |other| 9..16, |self| >= |other|, identity maps that cover all but 2..4 atoms of other, the
      unmapped indices spread over low (< 8) and high (>= 8) positions, with terms that touch the unmapped atoms
      (the order in which the few new atoms are appended, and where the terms land, only shows here);
  (S) extra fields held the way the constructor holds them when it is given plain lists of strings: FIXED-WIDTH numpy
      string arrays (core.atoms_from_json builds object arrays).  Self carries short values, other long ones, on
      atoms and on every term kind, always with a non-empty identity map, default / zero / extend_types offsets: the
      adopted and appended values must arrive verbatim, not cut to the width of self's column;
  (N) NEAR-MISS extra-column labels: labels are plain text and two labels are the same column only when they are the
      same text.  Self and other carry extra columns on atoms and on every term kind, and for 1..5 of the five item
      kinds the label sets are made "close": a label of other differs from one of self (or from another label of other,
      or self itself holds two such labels) only in letter case (upper / lower / capitalised / one letter flipped), or
      by a dropped / added leading underscore, or one is a proper prefix of the other, or they differ by surrounding
      blank.  Every cell value is unique (self "s<n>", other "o<n>"), so a value that arrives in the wrong column or a
      column that is dropped / doubled is visible.  Maps empty / partial / full, default / zero / extend_types offsets;
  (Z) zero-atom structures as self and / or as other, in every way the public API produces them: `Atoms()`,
      `Atoms(cell=...)`, the constructor given type tables / coefficient tables / extra-column labels but no atoms,
      and a structure whose atoms were all deleted (tables kept); default and explicit zero offsets, empty identity map
      (no binding is valid).  Extending an empty structure must give exactly other (plus self's cell and tables),
      extending by an empty one must change no atom and no term;
  (W) the public spellings of the two arguments (op `extend_api`, model `Atoms.extendApi`): offsets as tuple / list /
      numpy array of FOUR entries (the documented `(0,0,0,0)`, and the first four numbers `extend_types` returns - a
      non-zero atom offset - with impropers in other: their offset is then 0; other with and without impropers) or five; identity maps
      as dict / OrderedDict / MappingProxyType with python or numpy integers, with atoms counted from the end (negative
      keys and values), two spellings of one key, and - rejection - an index just outside [-n, n): IndexError with
      self left exactly as it was.  The oracle brings the map to plain indices itself and then applies the normal
      oracle;
  (K) known finding, reproduced on every run: default-offset extends in which exactly ONE kind breaks the
      compatibility clause of the Lean theorem `extend_resolves` (self uses ids of that kind beyond its own coefficient
      table - no table, or a short one - while other brings a table; or self has atom types but no pair-coefficient
      table while other has one).  The resolution clause is demanded there like everywhere else; the failure caused by
      the misalignment in `extend_types` is reported with the tag "coefficient-table-misaligned" (matched by
      known_findings.json), anything else stays untagged.  Model and code agree on these cases (tie kept);
  (m) malformed maps (non-injective values, key / value outside the arrays): model-vs-code only.

The oracle works on canonical dumps only and never looks at the model.
"""
import copy
import itertools
import re

from .. import core, gen

KINDS = gen.KINDS
ARITY = gen.ARITY
ATOM_TABLES = ["elem", "label", "mass", "pair"]

RULE = ("pairs (self, other) of random consistent Atoms (1..3 atoms quick / 1..4 thorough for the exhaustive stream: "
        "EVERY injective partial identity map; up to 9 / 13 atoms for the random streams), all four term kinds, "
        "coefficient tables present or absent, extra columns on atoms and terms with overlapping / disjoint labels; "
        "offsets default, explicit zero, or those returned by extend_types; override stream with forward / reversed / "
        "permuted listings, duplicate and palindromic terms; twice-extension with shared offsets; larger fragments "
        "(9..16 atoms, all but 2..4 mapped, unmapped indices both below and above 8, terms on the unmapped atoms); "
        "extra fields as fixed-width numpy string arrays with short values in self and long ones in other; near-miss "
        "extra-column labels (between self and other, inside other, inside self: equal up to letter case, a leading "
        "underscore, a proper prefix, surrounding blank) on atoms and every term kind with unique cell values; zero-atom "
        "structures (Atoms(), Atoms(cell), constructor with tables only, all atoms deleted) as self and as other; "
        "public spellings: four-entry offsets, maps with negative / numpy integers in several mapping types, indices "
        "just out of range (rejected, self untouched). Text resolution of new ids is "
        "demanded everywhere; where self uses ids beyond its own coefficient table (or has no pair table) while other "
        "brings one, the failure is attributed to the known finding coefficient-table-misaligned (a dedicated stream "
        "reproduces it on every run for one kind at a time), every other failure is reported untagged. Non-trivial = distinct input in which other "
        "has at least one term and (the map is non-empty or an existing term is superseded).")


# ------------------------------------------------------------------------------------------------ oracle

def _merged(la, lb):
    return list(la) + [l for l in lb if l not in la]


def _row_by_label(labels, row):
    return {l: row[i] if i < len(row) else None for i, l in enumerate(labels)}


def _relaid(labels_b, row_b, labels_r):
    """what a row of `other` must look like under the result's labels: its own values by label, '.' elsewhere"""
    d = _row_by_label(labels_b, row_b)
    return {l: d.get(l, ".") for l in labels_r}


def _padded(labels_a, row_a, labels_r):
    d = _row_by_label(labels_a, row_a)
    return {l: d.get(l, ".") for l in labels_r}


def expected_offsets(a):
    """independent reading of the documented default: other's ids start after all ids self knows of"""
    off = {"atom": len(a["types"]["elem"])}
    for k in KINDS:
        used = max([t["ty"] for t in a["terms"][k]], default=-1) + 1
        off[k] = max(len(a["types"][k]), used)
    return off


def resolvable(a, b, k):
    """is 'resolves to other's own text' defined for kind k (or atom table k) with default offsets?"""
    if k in KINDS:
        used = max([t["ty"] for t in a["terms"][k]], default=-1) + 1
        return used <= len(a["types"][k]) or not b["types"][k]
    n = len(a["types"]["elem"])
    return len(a["types"][k]) == n or (not b["types"][k] and len(a["types"][k]) <= n)


def oracle_extend(a, b, offsets, mp, r, side=None, exempt=True):
    """a, b = dumps before; r = result of a.extend(b, offsets, map) ({'ok': dump} or {'err': ..}). None or text."""
    if "ok" not in r:
        return "extend with a valid identity map raised %s" % r.get("err")
    r = r["ok"]
    n, m = len(a["atoms"]), len(b["atoms"])
    fwd = {k: v for k, v in mp}
    back = {v: k for k, v in mp}
    unmapped = [i for i in range(m) if i not in fwd]
    if offsets is None:
        off = expected_offsets(a)
    else:
        off = dict(zip(["atom"] + KINDS, offsets))

    # ---- labels: merged by label, no duplicates (column order is not part of the property)
    for key in ["atom"] + KINDS:
        lr = r["xlabels"][key]
        if len(set(lr)) != len(lr) or set(lr) != set(a["xlabels"][key]) | set(b["xlabels"][key]):
            return "%s extra labels after extend are not the union of both label sets: %s" % (key, lr)
    la, lb, lr = a["xlabels"]["atom"], b["xlabels"]["atom"], r["xlabels"]["atom"]

    # ---- atoms
    if len(r["atoms"]) != n + len(unmapped):
        return "atom count %d, expected %d existing + %d appended" % (len(r["atoms"]), n, len(unmapped))
    for i in range(n):
        got, old = r["atoms"][i], a["atoms"][i]
        if got["pos"] != old["pos"] or got["q"] != old["q"] or got["g"] != old["g"]:
            return "existing atom %d: position / charge / group changed" % i
        gx = _row_by_label(lr, got["x"])
        if i in back:
            src = b["atoms"][back[i]]
            if got["ty"] != src["ty"] + off["atom"]:
                return "mapped atom %d: type %d, expected other's %d + offset %d" % (i, got["ty"], src["ty"], off["atom"])
            if gx != _relaid(lb, src["x"], lr):
                return "mapped atom %d: extra fields %s are not other's fields by label" % (i, got["x"])
        else:
            if got["ty"] != old["ty"]:
                return "unmapped existing atom %d changed type" % i
            if gx != _padded(la, old["x"], lr):
                return "unmapped existing atom %d: extra fields %s not its own padded with '.'" % (i, got["x"])
    for j, src_i in enumerate(unmapped):
        got, src = r["atoms"][n + j], b["atoms"][src_i]
        if got["pos"] != src["pos"] or got["q"] != src["q"] or got["g"] != src["g"]:
            return "appended atom %d (other's %d): position / charge / group differ from other's" % (n + j, src_i)
        if got["ty"] != src["ty"] + off["atom"]:
            return "appended atom %d: type %d, expected other's %d + offset %d" % (n + j, got["ty"], src["ty"], off["atom"])
        if _row_by_label(lr, got["x"]) != _relaid(lb, src["x"], lr):
            return "appended atom %d: extra fields %s are not other's fields by label" % (n + j, got["x"])

    # ---- terms
    conv = dict(fwd)
    for j, src_i in enumerate(unmapped):
        conv[src_i] = n + j
    for k in KINDS:
        lak, lbk, lrk = a["xlabels"][k], b["xlabels"][k], r["xlabels"][k]
        new = [[conv[x] for x in t["a"]] for t in b["terms"][k]]
        newset = {tuple(u) for u in new} | {tuple(reversed(u)) for u in new}
        want = [(t["a"], t["ty"], _padded(lak, t["x"], lrk)) for t in a["terms"][k] if tuple(t["a"]) not in newset]
        want += [(u, t["ty"] + off[k], _relaid(lbk, t["x"], lrk)) for u, t in zip(new, b["terms"][k])]
        got = [(t["a"], t["ty"], _row_by_label(lrk, t["x"])) for t in r["terms"][k]]
        if got != want:
            return "%s terms after extend: got %s, expected %s" % (k, [(g[0], g[1]) for g in got], [(w[0], w[1]) for w in want])

    # ---- tables: existing entries keep their index; new ids resolve to other's own text
    for k in ATOM_TABLES + KINDS:
        ta, tb, tr = a["types"][k], b["types"][k], r["types"][k]
        if tr[:len(ta)] != ta:
            return "table %s: existing entries moved or changed" % k
        if offsets is None:
            if exempt and not resolvable(a, b, k):
                continue    # looked at separately (exempt=False) and attributed to the known finding
            o = off["atom"] if k in ATOM_TABLES else off[k]
            ids = {t["ty"] for t in b["terms"][k]} if k in KINDS else {x["ty"] for x in b["atoms"]}
            for ty in sorted(ids):
                own = tb[ty] if ty < len(tb) else None
                res = tr[ty + o] if ty + o < len(tr) else None
                if own != res:
                    return "table %s: other's id %d became %d and resolves to %r, other's own text is %r" % (k, ty, ty + o, res, own)
        else:
            if tr != ta:
                return "table %s changed although explicit offsets were given" % k
    if r["cell"] != a["cell"]:
        return "cell changed by extend"
    if side is not None and not side.get("inputs_unchanged", True):
        return "extend modified the other structure or the identity map"
    return None


# ------------------------------------------------------------------------------------------------ real code

def _norm(aj):
    """the canonical dump of the object the constructor builds from `aj` (what the real call actually sees)"""
    with core.quiet():
        return core.canon_atoms(core.atoms_from_json(aj))


EXTRA_FIELD_ATTRS = ["extra_atom_fields", "extra_bond_fields", "extra_angle_fields", "extra_dihedral_fields",
                     "extra_improper_fields"]


def _as_string_arrays(at):
    """hold every non-empty extra-field table as a fixed-width numpy string array (what `Atoms(...)` stores when it is
    given plain python lists of strings)"""
    import numpy as np
    for name in EXTRA_FIELD_ATTRS:
        arr = getattr(at, name)
        if getattr(arr, "size", 0) > 0:
            setattr(at, name, np.array([[str(v) for v in row] for row in arr]))
    return at


def _ctor_empty(t):
    """an atom-less structure straight from the constructor, given whatever tables / labels / cell the template has"""
    from mofun import Atoms
    kw = {}
    if t.get("cell") is not None:
        kw["cell"] = [[float(core.unq(v)) for v in row] for row in t["cell"]]
    ty = t["types"]
    if ty["elem"]:
        kw.update(atom_type_elements=list(ty["elem"]), atom_type_labels=list(ty["label"]),
                  atom_type_masses=[float(core.unq(m)) for m in ty["mass"]])
    if ty["pair"]:
        kw["pair_coeffs"] = list(ty["pair"])
    for k in KINDS:
        if ty[k]:
            kw["%s_type_coeffs" % k] = list(ty[k])
        if t["xlabels"][k]:
            kw["extra_%s_labels" % k] = list(t["xlabels"][k])
    if t["xlabels"]["atom"]:
        kw["extra_atom_labels"] = list(t["xlabels"]["atom"])
    return Atoms(**kw)


def _build(aj, spec=None):
    """the real object for a dump.  spec = None: from the dump itself; {'kind': 'emptied', 'from': full dump}: build the
    full structure and delete every atom; {'kind': 'ctor', 'from': template}: atom-less straight from the constructor"""
    if not spec:
        return core.atoms_from_json(aj)
    if spec["kind"] == "emptied":
        a = core.atoms_from_json(spec["from"])
        del a[list(range(len(spec["from"]["atoms"])))]
        return a
    return _ctor_empty(spec["from"])


def materialise(inp):
    """for inputs that name HOW a structure is built: (re)compute its dump on the current tree"""
    for key in ("a", "b"):
        spec = inp.get(key + "_build")
        if spec:
            with core.quiet():
                inp[key] = core.canon_atoms(_build(None, spec))
    return inp


def _extend(aj, bj, offsets, mp, strfields=False, a_build=None, b_build=None):
    side = {}

    def f():
        a = _build(aj, a_build)
        b = _build(bj, b_build)
        if strfields:
            _as_string_arrays(a)
            _as_string_arrays(b)
        m = {int(k): int(v) for k, v in mp}
        m0 = dict(m)
        b0 = core.canon_atoms(b)
        if offsets is None:
            a.extend(b, structure_index_map=m)
        else:
            a.extend(b, offsets=tuple(offsets), structure_index_map=m)
        side["inputs_unchanged"] = (core.canon_atoms(b) == b0 and m == m0)
        return core.canon_atoms(a)
    return core.result_of(f), side


def _extend_types(aj, bj):
    def f():
        a = core.atoms_from_json(aj)
        b = core.atoms_from_json(bj)
        off = a.extend_types(b)
        return core.canon_atoms(a), [int(v) for v in off]
    r = core.result_of(f)
    if "ok" in r:
        dump, off = r["ok"]
        return {"ok": dump, "offsets": off}
    return r


def oracle_extend_types(a, b, r):
    if "ok" not in r:
        return "extend_types raised %s" % r.get("err")
    want = expected_offsets(a)
    if r["offsets"] != [want["atom"]] + [want[k] for k in KINDS]:
        return "extend_types offsets %s, expected %s" % (r["offsets"], want)
    d = r["ok"]
    for k in ATOM_TABLES + KINDS:
        if d["types"][k][:len(a["types"][k])] != a["types"][k]:
            return "extend_types moved existing entries of table %s" % k
    if d["atoms"] != a["atoms"] or d["terms"] != a["terms"]:
        return "extend_types changed atoms or terms"
    return None


# ------------------------------------------------------------------------------------------------ generators

def partial_injections(m, n):
    """every injective partial map {0..m-1} -> {0..n-1} as a list of [k, v] pairs"""
    out = []
    for size in range(0, min(m, n) + 1):
        for keys in itertools.combinations(range(m), size):
            for vals in itertools.permutations(range(n), size):
                out.append([[k, v] for k, v in zip(keys, vals)])
    return out


def rand_map(rng, m, n, pmap=0.6):
    if rng.random() > pmap:
        return []
    size = rng.randint(0, min(m, n))
    keys = rng.sample(range(m), size)
    vals = rng.sample(range(n), size)
    mp = [[k, v] for k, v in zip(keys, vals)]
    rng.shuffle(mp)
    return mp


def rename_labels(rng, bj):
    """make some of other's extra-column labels disjoint from self's"""
    b = copy.deepcopy(bj)
    for key in ["atom"] + KINDS:
        if b["xlabels"][key] and rng.random() < 0.4:
            i = rng.randrange(len(b["xlabels"][key]))
            b["xlabels"][key][i] = b["xlabels"][key][i] + "_b"
        if len(b["xlabels"][key]) > 1 and rng.random() < 0.3:   # same labels, other column order
            perm = list(range(len(b["xlabels"][key])))
            rng.shuffle(perm)
            b["xlabels"][key] = [b["xlabels"][key][p] for p in perm]
            rows = b["atoms"] if key == "atom" else b["terms"][key]
            for row in rows:
                row["x"] = [row["x"][p] for p in perm]
    return b


def pair_of(rng, na, nb, compat=True):
    """two structures; `compat`: per kind both or neither carry a coefficient table (so that text resolution is defined)"""
    coeffs = rng.choice([True, True, False]) if compat else None
    a = gen.rand_atoms(rng, n=na, coeffs=coeffs, pair=(rng.random() < 0.6) if compat else None, cell=rng.random() < 0.3)
    b = gen.rand_atoms(rng, n=nb, coeffs=coeffs, pair=bool(a["types"]["pair"]) if compat else None, cell=False)
    b = rename_labels(rng, b)
    return _norm(a), _norm(b)


def with_override(rng, a, b):
    """add to `other` terms that land, through a map, on existing terms of self: forwards / reversed / permuted,
    plus duplicates and palindromes.  Returns (a, b, map) or None."""
    a, b = copy.deepcopy(a), copy.deepcopy(b)
    n, m = len(a["atoms"]), len(b["atoms"])
    kinds = [k for k in KINDS if a["terms"][k] and m >= ARITY[k]]
    if not kinds:
        return None
    k = rng.choice(kinds)
    t = rng.choice(a["terms"][k])
    xs = t["a"]
    if len(set(xs)) != len(xs):
        return None
    js = rng.sample(range(m), len(xs))
    mp = [[j, x] for j, x in zip(js, xs)]
    # a few more bindings, keeping the map injective
    free_k = [j for j in range(m) if j not in js]
    free_v = [v for v in range(n) if v not in xs]
    extra = rng.randint(0, min(len(free_k), len(free_v)))
    for j, v in zip(rng.sample(free_k, extra), rng.sample(free_v, extra)):
        mp.append([j, v])
    rng.shuffle(mp)
    style = rng.choice(["fwd", "rev", "perm", "dup", "both"])
    nx = len(b["xlabels"][k])
    nty = max([u["ty"] for u in b["terms"][k]], default=0) + 1
    if not b["types"][k] and a["types"][k]:
        nty = 1  # keep ids of a table-less other small; resolution is then 'no text' on both sides

    def term(tup, tag):
        return {"a": list(tup), "ty": rng.randrange(nty), "x": ["%s%s" % (tag, i) for i in range(nx)]}
    if style in ("fwd", "both", "dup"):
        b["terms"][k].append(term(js, "F"))
    if style in ("rev", "both"):
        b["terms"][k].append(term(reversed(js), "R"))
    if style == "dup":
        b["terms"][k].append(term(js, "D"))
        a["terms"][k].append({"a": list(xs), "ty": t["ty"], "x": list(t["x"])})   # the old term twice as well
    if style == "perm":
        p = list(js)
        if len(p) == 2:
            p = [p[0], free_k[0]] if free_k else p      # a different bond sharing one atom
        else:
            p[0], p[1] = p[1], p[0]                      # neither forwards nor reversed
        b["terms"][k].append(term(p, "P"))
    if rng.random() < 0.25 and ARITY[k] == 3:            # palindromic angle j-i-j in other, and its image in self
        b["terms"][k].append(term([js[0], js[1], js[0]], "L"))
        a["terms"][k].append({"a": [xs[0], xs[1], xs[0]], "ty": t["ty"], "x": list(t["x"])})
    # other's ids must stay inside its table when it has one
    if b["types"][k]:
        top = max(u["ty"] for u in b["terms"][k]) + 1
        while len(b["types"][k]) < top:
            b["types"][k].append("%s_coeff_extra%d" % (k, len(b["types"][k])))
    return _norm(a), _norm(b), mp


def large_fragment_case(rng):
    """|other| 9..16 with nearly all atoms mapped; the 2..4 unmapped ones lie both below and at/above index 8 and carry
    terms (among themselves and to mapped atoms)"""
    nb = rng.randint(9, 16)
    na = rng.randint(nb, nb + 4)
    a, b = pair_of(rng, na, nb)
    b = copy.deepcopy(b)
    k = rng.randint(2, 4)
    nlow = rng.randint(1, k - 1)
    nhigh = min(k - nlow, nb - 8)
    un = sorted(rng.sample(range(0, 8), nlow) + rng.sample(range(8, nb), nhigh))
    keys = [i for i in range(nb) if i not in un]
    vals = rng.sample(range(na), len(keys))
    mp = [[x, v] for x, v in zip(keys, vals)]
    rng.shuffle(mp)

    def add(kind, tup, tag):
        ids = [t["ty"] for t in b["terms"][kind]]
        top = len(b["types"][kind]) or (max(ids) + 1 if ids else 1)
        b["terms"][kind].append({"a": list(tup), "ty": rng.randrange(top),
                                 "x": ["%s%d" % (tag, i) for i in range(len(b["xlabels"][kind]))]})
    m1, m2 = rng.sample(keys, 2)
    order = list(un)
    rng.shuffle(order)
    add("bond", [order[0], order[1]], "U")
    add("bond", [m1, order[-1]], "V")
    add("angle", [order[0], m1, order[1]], "W")
    if len(order) >= 3:
        add("angle", [order[2], order[0], order[1]], "X")
        add("dihedral", [order[0], order[1], order[2], m2], "Y")
    else:
        add("dihedral", [m1, order[0], order[1], m2], "Y")
    add("improper", [order[-1], m1, m2, order[0]], "Z")
    return a, _norm(b), mp


def string_field_case(rng):
    """both structures carry extra columns on atoms and on every term kind; self's values are short (2..3 characters),
    other's are long; the identity map is never empty"""
    na, nb = rng.randint(4, 7), rng.randint(4, 6)
    coeffs = rng.choice([True, False])
    a = gen.rand_atoms(rng, n=na, kinds=KINDS, coeffs=coeffs, pair=True, extras=True, cell=False,
                       term_density=rng.randint(1, 3))
    b = gen.rand_atoms(rng, n=nb, kinds=KINDS, coeffs=coeffs, pair=True, extras=True, cell=False,
                       term_density=rng.randint(1, 2))
    cnt = [0]

    def relabel(rows, short):
        for row in rows:
            for i in range(len(row["x"])):
                cnt[0] += 1
                row["x"][i] = ("s%d" % (cnt[0] % 10)) if short else ("other_long_value_%03d" % cnt[0])
    relabel(a["atoms"], True)
    relabel(b["atoms"], False)
    for k in KINDS:
        relabel(a["terms"][k], True)
        relabel(b["terms"][k], False)
    if rng.random() < 0.5:
        b = rename_labels(rng, b)
    size = rng.randint(1, min(na, nb))
    mp = [[x, v] for x, v in zip(rng.sample(range(nb), size), rng.sample(range(na), size))]
    return _norm(a), _norm(b), mp


NEAR_HOW = ["upper", "lower", "capital", "flip1", "underscore", "prefix", "longer", "blank"]


def near_label(rng, l, how):
    """a label that is NOT `l` but close to it (None when this way gives nothing different)"""
    if how == "upper":
        v = l.upper()
    elif how == "lower":
        v = l.lower()
    elif how == "capital":
        v = "".join(p.capitalize() for p in re.split("(_)", l))
    elif how == "flip1":
        idx = [i for i, c in enumerate(l) if c.isalpha()]
        if not idx:
            return None
        i = rng.choice(idx)
        v = l[:i] + l[i].swapcase() + l[i + 1:]
    elif how == "underscore":
        v = l[1:] if l.startswith("_") else "_" + l
    elif how == "prefix":
        v = l[:rng.randint(max(1, len(l) - 3), len(l) - 1)] if len(l) > 1 else None
    elif how == "longer":
        v = l + rng.choice(["_2", "s", "_", "x"])
    else:
        v = rng.choice([l + " ", " " + l])
    return v if v and v != l else None


def _set_labels(j, key, labels, tag, cnt):
    """give the items of kind `key` exactly the columns `labels`, every cell a fresh unique value"""
    j["xlabels"][key] = list(labels)
    for row in (j["atoms"] if key == "atom" else j["terms"][key]):
        row["x"] = []
        for _ in labels:
            cnt[0] += 1
            row["x"].append("%s%d" % (tag, cnt[0]))


def near_label_case(rng):
    """both structures with extra columns; for some item kinds the label sets of self and other are close but not equal"""
    na, nb = rng.randint(2, 7), rng.randint(1, 6)
    coeffs = rng.choice([True, False])
    a = gen.rand_atoms(rng, n=na, coeffs=coeffs, pair=True, extras=True, cell=rng.random() < 0.2,
                       term_density=rng.randint(1, 3))
    b = gen.rand_atoms(rng, n=nb, coeffs=coeffs, pair=True, extras=True, cell=False, term_density=rng.randint(1, 2))
    keys = ["atom"] + KINDS
    chosen = rng.sample(keys, rng.randint(1, len(keys)))
    if rng.random() < 0.7 and "atom" not in chosen:
        chosen.append("atom")
    cnt = [0]
    hows = []
    for key in keys:
        la, lb = list(a["xlabels"][key]), list(b["xlabels"][key])
        if key in chosen:
            base = (la or lb or ["_x_%s_tag" % key])[0] if rng.random() < 0.7 else rng.choice(["q", "site", "U_iso", "_tag"])
            how = rng.choice(NEAR_HOW)
            v = near_label(rng, base, how) or base + "_"
            where = rng.choice(["between", "between", "in-other", "in-self", "both-sides"])
            rest_a = [l for l in la if l not in (base, v)][:rng.randint(0, 1)]
            rest_b = [l for l in lb if l not in (base, v)][:rng.randint(0, 1)]
            if where == "between":
                la, lb = rest_a + [base], rest_b + [v]
            elif where == "in-other":
                la, lb = rest_a + ([base] if rng.random() < 0.4 else []), rest_b + [base, v]
            elif where == "in-self":
                la, lb = rest_a + [base, v], rest_b + [rng.choice([base, v])]
            else:
                la, lb = rest_a + [base, v], rest_b + [v, base]
            rng.shuffle(la)
            rng.shuffle(lb)
            hows.append("%s:%s:%s" % (key, how, where))
        _set_labels(a, key, la, "s", cnt)
        _set_labels(b, key, lb, "o", cnt)
    size = rng.choice([0, rng.randint(0, min(na, nb)), min(na, nb)])
    mp = [[x, v] for x, v in zip(rng.sample(range(nb), size), rng.sample(range(na), size))]
    return _norm(a), _norm(b), mp, hows



def offsets_choice(rng, a, b, i):
    """0: default, 1: explicit zero ('ids already shared'), 2: the offsets extend_types returns (applied to its result)"""
    return [None, "zero", "types"][i % 3]


EXTEND_TYPES_FAILED = []   # (input, result) of extend_types calls that raised while cases were prepared; reported in run()


def report_extend_types_failures(ctx):
    while EXTEND_TYPES_FAILED:
        inp_t, res_t = EXTEND_TYPES_FAILED.pop(0)
        ctx.fail("extend_types raised %s while an explicit-offsets case was prepared" % res_t.get("err"), inp_t, observed=res_t)


def make_case(a, b, mp, how):
    """-> list of (op dict, a-dump the op runs on, b, offsets list or None, map)"""
    if how is None:
        return {"op": "extend", "a": a, "b": b, "offsets": None, "map": mp}
    if how == "zero":
        return {"op": "extend", "a": a, "b": b, "offsets": [0, 0, 0, 0, 0], "map": mp}
    et = _extend_types(a, b)
    if "ok" not in et:
        EXTEND_TYPES_FAILED.append(({"op": "extend_types", "a": a, "b": b}, et))
        return {"op": "extend", "a": a, "b": b, "offsets": None, "map": mp}
    return {"op": "extend", "a": et["ok"], "b": b, "offsets": et["offsets"], "map": mp, "via": "extend_types", "a0": a}


def cases(ctx):
    rng = ctx.rng
    out = []
    # (x) exhaustive identity maps on small pairs
    nmax = ctx.n(3, 4)
    reps = ctx.n(6, 4)
    cnt = 0
    for na in range(1, nmax + 1):
        for nb in range(1, nmax + 1):
            for rep in range(reps):
                a, b = pair_of(rng, na, nb)
                how = offsets_choice(rng, a, b, cnt)
                cnt += 1
                for mp in partial_injections(nb, na):
                    out.append(("x", make_case(a, b, mp, how)))
    # (r) random larger pairs
    for s in range(ctx.n(500, 4000)):
        na, nb = rng.randint(2, ctx.n(9, 13)), rng.randint(1, ctx.n(7, 10))
        a, b = pair_of(rng, na, nb, compat=rng.random() < 0.85)
        out.append(("r", make_case(a, b, rand_map(rng, nb, na), offsets_choice(rng, a, b, rng.randrange(3)))))
    # (o) override
    made = 0
    tries = 0
    while made < ctx.n(400, 3000) and tries < 40000:
        tries += 1
        na, nb = rng.randint(2, ctx.n(7, 10)), rng.randint(2, ctx.n(6, 8))
        a = gen.rand_atoms(rng, n=na, coeffs=True, term_density=rng.randint(1, 3), cell=False)
        b = gen.rand_atoms(rng, n=nb, coeffs=True, pair=bool(a["types"]["pair"]), cell=False)
        w = with_override(rng, _norm(a), _norm(rename_labels(rng, b)))
        if w is None:
            continue
        made += 1
        out.append(("o", make_case(w[0], w[1], w[2], offsets_choice(rng, w[0], w[1], made))))
    # (S) extra fields as fixed-width string arrays, short in self, long in other
    for s in range(ctx.n(60, 500)):
        a, b, mp = string_field_case(rng)
        c = make_case(a, b, mp, offsets_choice(rng, a, b, s))
        c["strfields"] = True
        out.append(("S", c))
    # (L) larger fragments, nearly all atoms mapped
    for s in range(ctx.n(80, 600)):
        a, b, mp = large_fragment_case(rng)
        out.append(("L", make_case(a, b, mp, offsets_choice(rng, a, b, s))))
    # (N) near-miss extra-column labels
    for s in range(ctx.n(150, 1200)):
        a, b, mp, hows = near_label_case(rng)
        c = make_case(a, b, mp, offsets_choice(rng, a, b, s))
        if s % 4 == 3:
            c["strfields"] = True
        out.append(("N", c))
    return out


def supersedes(inp):
    a, b = inp["a"], inp["b"]
    n = len(a["atoms"])
    fwd = {k: v for k, v in inp["map"]}
    unm = [i for i in range(len(b["atoms"])) if i not in fwd]
    conv = dict(fwd)
    for j, i in enumerate(unm):
        conv[i] = n + j
    for k in KINDS:
        new = {tuple(conv[x] for x in t["a"]) for t in b["terms"][k]}
        new |= {tuple(reversed(u)) for u in new}
        if any(tuple(t["a"]) in new for t in a["terms"][k]):
            return True
    return False


def check_extend(ctx, stream, inp):
    """run one extend on the real code, apply the oracle; returns the implementation result for the tie"""
    r, side = _extend(inp["a"], inp["b"], inp["offsets"], inp["map"], bool(inp.get("strfields")),
                      inp.get("a_build"), inp.get("b_build"))
    bad, known = judge(inp, r, side)
    has_terms = any(inp["b"]["terms"][k] for k in KINDS)
    sup = supersedes(inp)
    ctx.case(inp, nontrivial=has_terms and (bool(inp["map"]) or sup))
    ctx.count("stream:" + stream)
    ctx.count("offsets:" + ("default" if inp["offsets"] is None else ("zero" if not any(inp["offsets"]) else "extend_types")))
    ctx.count("map:%d" % len(inp["map"]))
    if sup:
        ctx.count("supersedes")
    if bad:
        ctx.fail(bad, inp, observed=r)
    if known:
        ctx.count("known:" + MISALIGNED)
        ctx.fail(known, inp, observed=r, tags=[MISALIGNED])
    return r


MISALIGNED = "coefficient-table-misaligned"


def judge(inp, r, side=None):
    """-> (untagged failure or None, failure attributed to the known finding or None).
    First everything except the resolution of ids of kinds that break the compatibility clause; if that is fine, the
    resolution clause for those kinds too: what fails then fails because extend_types put other's table entries at
    len(table).. while other's ids start at max(id)+1.. (or appended other's pair table to an empty one)."""
    def full(exempt):
        bad = oracle_extend(inp["a"], inp["b"], inp["offsets"], inp["map"], r, side, exempt=exempt)
        if bad is None and inp.get("via") == "extend_types":
            # the two-step form must give ids that resolve to other's text in the tables extend_types built
            bad = oracle_resolves_explicit(inp, r, exempt=exempt)
        return bad
    bad = full(True)
    if bad:
        return bad, None
    return None, full(False)


def oracle_resolves_explicit(inp, r, exempt=True):
    """offsets came from extend_types on a0: new ids must resolve (in the result) to other's own text"""
    a0, b = inp["a0"], inp["b"]
    if "ok" not in r:
        return None
    tr = r["ok"]["types"]
    off = dict(zip(["atom"] + KINDS, inp["offsets"]))
    for k in ATOM_TABLES + KINDS:
        if exempt and not resolvable(a0, b, k):
            continue
        o = off["atom"] if k in ATOM_TABLES else off[k]
        ids = {t["ty"] for t in b["terms"][k]} if k in KINDS else {x["ty"] for x in b["atoms"]}
        for ty in sorted(ids):
            own = b["types"][k][ty] if ty < len(b["types"][k]) else None
            res = tr[k][ty + o] if ty + o < len(tr[k]) else None
            if own != res:
                return "extend_types + extend: table %s, other's id %d -> %d resolves to %r, own text %r" % (k, ty, ty + o, res, own)
    return None


# (kind or "pair", how self breaks the clause)
MISALIGN_VARIANTS = [(k, how) for how in ("no-table", "short-table") for k in KINDS] + [("pair", "no-table")]


def misaligned_case(rng, k, how):
    """two structures that are compatible in every kind except `k`: self uses ids of kind k beyond its own table
    (none / too short) and other brings a table with terms of that kind; k = "pair": self has no pair table, other has"""
    for attempt in range(200):
        na, nb = rng.randint(4, 6), rng.randint(4, 6)
        a = gen.rand_atoms(rng, n=na, kinds=KINDS, coeffs=True, pair=(k != "pair"), cell=False,
                           term_density=rng.randint(1, 3), extras=False)
        b = gen.rand_atoms(rng, n=nb, kinds=KINDS, coeffs=True, pair=True, cell=False, term_density=rng.randint(1, 2),
                           extras=False)
        if k != "pair":
            if how == "no-table":
                a["types"][k] = []
            else:
                a["terms"][k][0]["ty"] = max(t["ty"] for t in a["terms"][k]) + 1   # one id more than ...
                a["types"][k] = a["types"][k][:a["terms"][k][0]["ty"]]             # ... the table covers
                if not a["types"][k]:
                    continue
        a, b = _norm(a), _norm(b)
        broken = [kk for kk in ATOM_TABLES + KINDS if not resolvable(a, b, kk)]
        if broken == [k]:
            return a, b, rand_map(rng, nb, na, pmap=0.5)
    raise RuntimeError("could not build a %s/%s case" % (k, how))


def known_cases(ctx):
    n = ctx.n(4, 27)
    start = (ctx.seed * 4) % len(MISALIGN_VARIANTS)
    return [MISALIGN_VARIANTS[(start + i) % len(MISALIGN_VARIANTS)] for i in range(n)]


EMPTY_KINDS = ["bare", "cell", "ctor-tables", "emptied"]


def empty_structure(rng, kind):
    """-> (build spec) of a zero-atom structure of the given kind"""
    full = gen.rand_atoms(rng, n=rng.randint(1, 4), kinds=None, coeffs=True, pair=True,
                          extras=rng.random() < 0.5, cell=(kind != "bare") and rng.random() < 0.7)
    full = _norm(full)
    if kind == "emptied":
        return {"kind": "emptied", "from": full}
    t = {"cell": full["cell"] if kind != "bare" else None, "atoms": [],
         "terms": {k: [] for k in KINDS},
         "types": dict(full["types"]) if kind == "ctor-tables" else {"elem": [], "label": [], "mass": [], "pair": [], **{k: [] for k in KINDS}},
         "xlabels": dict(full["xlabels"]) if kind == "ctor-tables" else {"atom": [], **{k: [] for k in KINDS}}}
    if kind == "cell" and t["cell"] is None:
        t["cell"] = gen.rand_cell(rng, "ortho")[0]
    return {"kind": "ctor", "from": t}


def zero_atom_cases(ctx):
    """self empty / other empty / both, every kind of empty structure, default and zero offsets"""
    rng = ctx.rng
    out = []
    n = ctx.n(24, 160)
    for s in range(n):
        role = ["self", "other", "self", "both"][s % 4]
        ka = EMPTY_KINDS[(s // 4) % 4]
        kb = EMPTY_KINDS[(s // 4 + 1 + s % 3) % 4]
        inp = {"op": "extend", "offsets": None if s % 3 else [0, 0, 0, 0, 0], "map": []}
        if role in ("self", "both"):
            inp["a_build"] = empty_structure(rng, ka)
        else:
            inp["a"] = _norm(gen.rand_atoms(rng, n=rng.randint(1, 5), coeffs=True, pair=True, cell=rng.random() < 0.3))
        if role in ("other", "both"):
            inp["b_build"] = empty_structure(rng, kb)
        else:
            inp["b"] = _norm(gen.rand_atoms(rng, n=rng.randint(1, 5), coeffs=True, pair=True, cell=False))
        out.append(("Z:%s:%s" % (role, ka if role != "other" else kb), materialise(inp)))
    return out


def twice_cases(ctx):
    rng = ctx.rng
    out = []
    for s in range(ctx.n(120, 800)):
        na, nb = rng.randint(1, ctx.n(6, 9)), rng.randint(2, ctx.n(5, 7))
        a, b = pair_of(rng, na, nb)
        mp = rand_map(rng, nb, na, pmap=0.4)
        out.append((a, b, mp))
    return out


def oracle_twice(a, b, off, r1, r2):
    """after two extensions with shared offsets (the second without identity map): everything of the first result
    is still there, followed by a second, disjoint copy of other's terms carrying the same types as the first"""
    if "ok" not in r2:
        return "second extension raised %s" % r2.get("err")
    d1, d2 = r1["ok"], r2["ok"]
    n1, m = len(d1["atoms"]), len(b["atoms"])
    if len(d2["atoms"]) != n1 + m:
        return "second extension (no map) must append all %d atoms" % m
    for k, o in zip(KINDS, off[1:]):
        nb = len(b["terms"][k])
        ts = d2["terms"][k]
        keep = ts[:len(ts) - nb] if nb else ts
        if [(t["a"], t["ty"]) for t in keep] != [(t["a"], t["ty"]) for t in d1["terms"][k]]:
            return "%s: terms of the first result did not all survive the second extension" % k
        if not nb:
            continue
        second = ts[len(ts) - nb:]
        first = d1["terms"][k][len(d1["terms"][k]) - nb:]
        if [t["ty"] for t in second] != [t["ty"] + o for t in b["terms"][k]] or \
                [t["ty"] for t in first] != [t["ty"] for t in second]:
            return "%s: the two copies do not carry identical types (other's + offset)" % k
        if [t["a"] for t in second] != [[x + n1 for x in t["a"]] for t in b["terms"][k]]:
            return "%s: second copy is not other's terms shifted by %d" % (k, n1)
        if {x for t in first for x in t["a"]} & {x for t in second for x in t["a"]}:
            return "%s: the two copies share atoms" % k
    return None


# ------------------------------------------------------------------------------------------------ public spellings (W)

def _extend_api(aj, bj, offsets, mp, spell):
    """a.extend(b, offsets=<container of 4 or 5>, structure_index_map=<mapping over python / numpy ints>)"""
    side = {}

    def f():
        import collections
        import types
        import numpy as np
        a = core.atoms_from_json(aj)
        b = core.atoms_from_json(bj)
        conv = (lambda i: np.int64(i)) if spell.get("ints") == "np" else int
        m = {conv(k): conv(v) for k, v in mp}
        if spell.get("map") == "ordered":
            m = collections.OrderedDict(m.items())
        elif spell.get("map") == "proxy":
            m = types.MappingProxyType(m)
        items0 = [(int(k), int(v)) for k, v in m.items()]
        b0, a0 = core.canon_atoms(b), core.canon_atoms(a)
        kw = {"structure_index_map": m}
        if offsets is not None:
            kw["offsets"] = {"tuple": tuple(offsets), "list": list(offsets),
                             "array": np.array(offsets, dtype=int)}[spell.get("offsets", "tuple")]
        try:
            a.extend(b, **kw)
        finally:
            side["inputs_unchanged"] = (core.canon_atoms(b) == b0 and [(int(k), int(v)) for k, v in m.items()] == items0)
            side["self_unchanged"] = (core.canon_atoms(a) == a0)
        return core.canon_atoms(a)
    return core.result_of(f), side


def plain_map(mp, nb, na):
    """independent normalisation: -> (list of [k, v] over plain indices with dict semantics) or None when an index is
    outside [-n, n)"""
    out = {}
    for k, v in mp:
        if not (-nb <= k < nb and -na <= v < na):
            return None
        out[k % nb if nb else k] = v % na if na else v
    return [[k, v] for k, v in out.items()]


def judge_api(inp, r, side):
    """-> (untagged failure or None, known-finding failure or None)"""
    a, b = inp["a"], inp["b"]
    pm = plain_map(inp["map"], len(b["atoms"]), len(a["atoms"]))
    if pm is None:
        if r.get("err") != "error:index":
            return "an identity map with an index outside the structures must raise IndexError, got %s" % (
                r.get("err") or "a result"), None
        if not side.get("self_unchanged", True):
            return "a rejected identity map left self modified", None
        return None, None
    off = inp["offsets"]
    if off is not None:
        off = (list(off) + [0] * 5)[:5]
    plain = {"op": "extend", "a": a, "b": b, "offsets": off, "map": pm}
    return judge(plain, r, side)


def api_cases(ctx):
    rng = ctx.rng
    out = []
    for s in range(ctx.n(90, 700)):
        na, nb = rng.randint(2, 7), rng.randint(2, 6)
        with_imp = (s % 2 == 0) or (s % 7 == 6)     # mode off4types (s % 7 == 6) always has impropers in other
        a = gen.rand_atoms(rng, n=max(na, 4), kinds=KINDS, coeffs=True, pair=True, cell=False, term_density=rng.randint(1, 2))
        b = gen.rand_atoms(rng, n=max(nb, 4) if with_imp else nb, kinds=KINDS if with_imp else ["bond", "angle"],
                           coeffs=True, pair=True, cell=False, term_density=rng.randint(1, 2))
        a, b = _norm(a), _norm(rename_labels(rng, b))
        na, nb = len(a["atoms"]), len(b["atoms"])
        mp = rand_map(rng, nb, na, pmap=0.9)
        mode = ["neg", "off4", "neg+off4", "out", "dupkey", "plain", "off4types"][s % 7]
        if mode == "off4types":
            with_imp = True
        spell = {"map": rng.choice(["dict", "ordered", "proxy"]), "ints": rng.choice(["py", "np"]),
                 "offsets": rng.choice(["tuple", "list", "array"])}
        if "neg" in mode or mode == "dupkey":
            mp = [[k - nb if rng.random() < 0.6 else k, v - na if rng.random() < 0.6 else v] for k, v in mp]
            if not mp:
                mp = [[-1, -1]]
        if mode == "dupkey" and mp:
            k, v = mp[0]
            other_spelling = k + nb if k < 0 else k - nb
            free = [x for x in range(na) if x not in {vv % na for _, vv in mp}]
            mp = mp + [[other_spelling, rng.choice(free) if free else v]]
        if mode == "out":
            which = rng.choice(["key", "value", "key-", "value-"])
            bad = {"key": [nb, rng.randrange(na)], "value": [rng.randrange(nb), na],
                   "key-": [-nb - 1, rng.randrange(na)], "value-": [rng.randrange(nb), -na - 1]}[which]
            mp = [p for p in mp if p[0] % nb != bad[0] % nb][:2] + [bad]
        if mode == "off4types":
            # the first FOUR numbers extend_types returns (non-zero atom offset), other has impropers: the improper
            # offset is then 0 by the documented reading of a four-entry tuple - not the atom offset, not anything else
            et = _extend_types(a, b)
            if "ok" in et:
                a, offsets = et["ok"], et["offsets"][:4]
            else:
                EXTEND_TYPES_FAILED.append(({"op": "extend_types", "a": a, "b": b}, et))
                offsets = [1, 0, 0, 0]
        elif "off4" in mode:
            offsets = [0, 0, 0, 0] if rng.random() < 0.6 else None
            if offsets is None:
                et = _extend_types(a, b)
                if "ok" in et:
                    a, offsets = et["ok"], et["offsets"][:4] if not b["terms"]["improper"] else et["offsets"]
                else:
                    offsets = [0, 0, 0, 0]
        else:
            offsets = rng.choice([None, [0, 0, 0, 0, 0], [0, 0, 0, 0]])
        out.append((mode, {"op": "extend_api", "a": a, "b": b, "offsets": offsets, "map": mp, "spell": spell}))
    return out


# ------------------------------------------------------------------------------------------------ run

def run(ctx, oracle_only=False):
    ctx.rule = RULE
    ops, impls = [], []
    del EXTEND_TYPES_FAILED[:]
    all_cases = cases(ctx)
    report_extend_types_failures(ctx)
    for stream, inp in all_cases:
        r = check_extend(ctx, stream, inp)
        ops.append({k: v for k, v in inp.items() if k not in ("via", "a0", "strfields", "a_build", "b_build")})
        impls.append(r)
    # (W) public spellings of offsets and identity map
    w_cases = api_cases(ctx)
    report_extend_types_failures(ctx)
    for mode, inp in w_cases:
        r, side = _extend_api(inp["a"], inp["b"], inp["offsets"], inp["map"], inp["spell"])
        bad, known = judge_api(inp, r, side)
        ctx.case(inp, nontrivial=(mode != "plain"))
        ctx.count("stream:W:" + mode)
        if inp["offsets"] is not None and len(inp["offsets"]) == 4:
            ctx.count("W:offsets-of-4" + ("+impropers" if inp["b"]["terms"]["improper"] else ""))
            if inp["offsets"][0] > 0 and inp["b"]["terms"]["improper"]:
                ctx.count("W:offsets-of-4+impropers+nonzero-atom-offset")
        if bad:
            ctx.fail("public spelling (%s; %s): %s" % (mode, ", ".join("%s=%s" % kv for kv in sorted(inp["spell"].items())), bad),
                     inp, observed=r)
        if known:
            ctx.count("known:" + MISALIGNED)
            ctx.fail(known, inp, observed=r, tags=[MISALIGNED])
        ops.append({k: v for k, v in inp.items() if k != "spell"})
        impls.append(r)
    # (Z) zero-atom structures
    for stream, inp in zero_atom_cases(ctx):
        r = check_extend(ctx, stream, inp)
        ops.append({k: v for k, v in inp.items() if k not in ("a_build", "b_build")})
        impls.append(r)
    # (K) the known finding, one kind at a time
    for k, how in known_cases(ctx):
        a, b, mp = misaligned_case(ctx.rng, k, how)
        inp = {"op": "extend", "a": a, "b": b, "offsets": None, "map": mp}
        nk = ctx.dist.get("known:" + MISALIGNED, 0)
        r = check_extend(ctx, "K:%s:%s" % (k, how), inp)
        if ctx.dist.get("known:" + MISALIGNED, 0) == nk and not any(f["input"] is inp for f in ctx.failures):
            ctx.notes.append("stream K: %s/%s did not reproduce coefficient-table-misaligned" % (k, how))
        ops.append(inp)
        impls.append(r)
    # extend_types on its own
    rng = ctx.rng
    for s in range(ctx.n(60, 600)):
        a, b = pair_of(rng, rng.randint(1, 6), rng.randint(1, 6), compat=rng.random() < 0.7)
        inp = {"op": "extend_types", "a": a, "b": b}
        r = _extend_types(a, b)
        bad = oracle_extend_types(a, b, r)
        ctx.case(inp, nontrivial=False)
        ctx.count("stream:types")
        if bad:
            ctx.fail(bad, inp, observed=r)
        ops.append(inp)
        impls.append(r)
    # (t) twice with shared offsets
    for a, b, mp in twice_cases(ctx):
        et = _extend_types(a, b)
        if "ok" not in et:
            ctx.fail("extend_types raised", {"op": "extend_types", "a": a, "b": b}, observed=et)
            continue
        a1, off = et["ok"], et["offsets"]
        inp1 = {"op": "extend", "a": a1, "b": b, "offsets": off, "map": mp, "via": "extend_types", "a0": a}
        r1 = check_extend(ctx, "t", inp1)
        ops.append({k: v for k, v in inp1.items() if k not in ("via", "a0")})
        impls.append(r1)
        if "ok" not in r1:
            continue
        inp2 = {"op": "extend", "a": r1["ok"], "b": b, "offsets": off, "map": []}
        r2 = check_extend(ctx, "t", inp2)
        bad = oracle_twice(a, b, off, r1, r2)
        if bad:
            ctx.fail(bad, {"op": "extend_twice", "a": a, "b": b, "map": mp}, observed=r2)
        ops.append(inp2)
        impls.append(r2)
    if oracle_only:
        return
    # (m) malformed maps: model vs code only
    for s in range(ctx.n(40, 300)):
        na, nb = rng.randint(1, 5), rng.randint(1, 5)
        a, b = pair_of(rng, na, nb)
        kind = rng.choice(["noninj", "key", "value"])
        if kind == "noninj" and nb >= 2:
            ks = rng.sample(range(nb), 2)
            v = rng.randrange(na)
            mp = [[ks[0], v], [ks[1], v]]
        elif kind == "key":
            mp = [[nb + rng.randint(0, 2), rng.randrange(na)]]
        else:
            mp = [[rng.randrange(nb), na + rng.randint(0, 2)]]
        inp = {"op": "extend", "a": a, "b": b, "offsets": None, "map": mp}
        r, _ = _extend(a, b, None, mp)
        ctx.count("stream:malformed-" + kind)
        ops.append(inp)
        impls.append(r)
    models = ctx.lean.run(ops)
    for inp, r, mres in zip(ops, impls, models):
        ctx.compare(inp["op"], inp, r, mres)
    ctx.exhaustive = False
    ctx.notes.append("exhaustive sub-stream: every injective partial identity map for |self|,|other| <= %d "
                     "(%d structure pairs per size pair)" % (ctx.n(3, 4), ctx.n(6, 4)))


def search(ctx):
    saved = ctx.tier
    ctx.tier = "thorough"
    try:
        run(ctx, oracle_only=True)
    finally:
        ctx.tier = saved


def replay(ctx, rec):
    inp = rec["input"]
    if inp["op"] == "extend_api":
        r, side = _extend_api(inp["a"], inp["b"], inp["offsets"], inp["map"], inp.get("spell", {}))
        bad, known = judge_api(inp, r, side)
        return bad is None and known is None
    if inp["op"] == "extend_types":
        return oracle_extend_types(inp["a"], inp["b"], _extend_types(inp["a"], inp["b"])) is None
    if inp["op"] == "extend_twice":
        a, b, mp = inp["a"], inp["b"], inp["map"]
        et = _extend_types(a, b)
        if "ok" not in et:
            return False
        r1, _ = _extend(et["ok"], b, et["offsets"], mp)
        if "ok" not in r1:
            return False
        r2, _ = _extend(r1["ok"], b, et["offsets"], [])
        return oracle_twice(a, b, et["offsets"], r1, r2) is None
    materialise(inp)
    r, side = _extend(inp["a"], inp["b"], inp["offsets"], inp["map"], bool(inp.get("strfields")),
                      inp.get("a_build"), inp.get("b_build"))
    bad, known = judge(inp, r, side)
    return bad is None and known is None
