"""C12 — replication describes the same crystal in a larger cell (Atoms.replicate).

Cases: random consistent structures (every atom carries a unique charge, so images of one atom can be recognised)
with any subset of the four term kinds — a dedicated stream has all four, impropers included —, extra columns on
atoms and terms, in orthorhombic, LAMMPS-triclinic (tilt factors of either sign) and arbitrarily oriented cells;
replication triples (a, b, c) in {1..3}^3 (quick: a*b*c <= 12; thorough also {1..4}, a*b*c <= 27) with emphasis on
unequal factors; (1,1,1); structures without a cell (rejection, tie only).

The oracle is independent of the model and of the order in which the code lists the images: it recognises every
atom of the result as (original atom, lattice offset) from charge + position, and then checks counts, the multiset of
atoms per lattice offset, the cell rows, one copy of every term per image inside that image with its type and extra
fields, unchanged tables, identity for (1,1,1) and that the input object is not modified.
Scale stream: the same kind of structures with cell and positions multiplied by 1e-10, 1e-6, 1e-3, 1e3 or 1e6 (a
structure given in metres, nanometres, ...): nothing in the property depends on the unit of length.  There the oracle
and the tie first divide every length exactly (as rationals) by the largest cell component, so that all comparisons
are RELATIVE to the size of the cell.

Small-N stream: structures with N = 0 atoms that still have a cell - with type tables, coefficient tables and
extra-column labels (produced the way they arise in practice: every atom of a generated structure is deleted) and
bare ones (`Atoms(cell=...)`) - and N = 1 structures, all cell kinds, factors mostly > 1; judged by the same oracle
(for N = 0 what remains is exactly: 0 atoms, no terms, cell rows a*A, b*B, c*C, unchanged tables, input untouched) and
tied to the model like every other case.

Independence: the replica is a NEW object - never the input itself, sharing no numpy array and no label set / list with
it (np.shares_memory on every array attribute, `is` on every other mutable attribute) - and after every API replication
(all factor triples, (1,1,1) included) the replica is edited in place (translate, cell entry, charges, positions,
`del r[[0]]`, a coefficient string, a label list) and the original is dumped again: it must be exactly what it was.

Accessor: after every API replication the cell description the object gives of itself
(`cell_abc_alpha_beta_gamma()`, what the CIF writer uses) must be that of the rows a*A, b*B, c*C.

ASE route: a structure that enters through the public constructor `Atoms.from_ase_atoms` (ground truth: the ASE
object - positions, symbols, cell in ANY orientation, e.g. upper-triangular) and is then replicated must be the
supercell of THAT structure (already at 1x1x1: the same structure).  No charges exist on this route, so atoms are
recognised by type + position instead of charge.

CLI stream (the property's anchors include mofun/cli/mofun_cli.py): a generated structure (orthorhombic or
LAMMPS-triclinic) is written to a temporary .lmpdat, the real entry point runs in-process
(`CliRunner().invoke(mofun_cli, [inp, out, "--replicate", a, b, c] (+ ["--mic", m]))`), the output is loaded with
`Atoms.load`, and the same oracle is applied relative to the INPUT as re-read from the same file.  The output is
written as .lmpdat, as .cif (cell as lengths/angles, fractional coordinates; positions generated inside the cell so
that nothing is wrapped; term type ids are not carried by this format and are neutralised on both sides) or through
ASE as extended .xyz (input read by ASE as well: cells in any orientation; ground truth = the ASE object read from
the input file).  With `--mic` on an
orthorhombic cell the expected factors are a_i * ceil(2*mic / (a_i * len_i)) (cases where that ceil is 1 and cases
where it is 2); on a triclinic cell `--mic` cannot replicate, `--replicate` must still be honoured.
The other command-line inputs that reach the replication are varied too: the input format (.lmpdat / .cif) and
`--extract-uc UC` (the input file then carries a placeholder cell, UC — an .lmpdat or .cif with a different,
e.g. triclinic, cell — carries the real one).  Expectation = the API pipeline: load, take the cell from UC,
replicate; the reference structure (loaded input with the extracted cell) is passed once through the same .lmpdat
writer/reader as the output, so that both sides went through the same text layer.

For the tie both dumps are brought to an order-independent canonical form (atoms sorted by charge and position, term
indices re-mapped, terms sorted).
"""
import itertools
from fractions import Fraction

from .. import core, gen

KINDS = gen.KINDS

RULE = ("random consistent Atoms, 1..6 atoms (quick) / 1..8 (thorough), unique charge per atom, any subset of "
        "bond/angle/dihedral/improper terms (one stream with all four), coefficient tables present or absent, extra "
        "columns; cells orthorhombic / LAMMPS-triclinic with positive or negative tilts / arbitrarily oriented "
        "(sheared, rows permuted); factors in {1..3}^3 (thorough {1..4}^3, product <= 27), two thirds of the cases "
        "with unequal factors; a stream of the same structures with all lengths scaled by 1e-10 .. 1e6 (compared "
        "relative to the cell size); structures entering through Atoms.from_ase_atoms with cells in any orientation "
        "(ground truth: the ASE object); the cell_abc_alpha_beta_gamma accessor after each replication; CLI outputs as "
        ".lmpdat, .cif and ASE extended xyz; a stream of atom-less structures with a cell (all atoms deleted, tables kept; or "
        "bare) and of one-atom structures. Non-trivial = distinct input with a non-orthorhombic cell, unequal factors, product "
        ">= 2 and at least one term. CLI stream: 19 (quick) / 76 (thorough) runs of the real command line with "
        "--replicate alone, together with --mic, and together with --extract-uc (cell taken from another file), "
        ".lmpdat and .cif inputs, orthorhombic and LAMMPS-triclinic cells.")


def F(v):
    return core.unq(v)


def lattice(cell, i, j, k):
    return [i * F(cell[0][c]) + j * F(cell[1][c]) + k * F(cell[2][c]) for c in range(3)]


def vclose(u, v, tol=1e-9):
    return all(core.close(x, y, tol) for x, y in zip(u, v))


def cell_scale(a):
    """largest absolute cell component (exact)"""
    return max(abs(F(v)) for row in a["cell"] for v in row)


def rescaled(d, f):
    """the dump with every length (positions, cell) multiplied exactly by the rational f"""
    out = dict(d)
    out["atoms"] = [dict(at, pos=[core.q(F(v) * f) for v in at["pos"]]) for at in d["atoms"]]
    if d.get("cell") is not None:
        out["cell"] = [[core.q(F(v) * f) for v in row] for row in d["cell"]]
    return out


def oracle_replicate(a, dims, r, a_after=None, a_before=None, tol=1e-9, rel=False):
    """a = dump before, r = {'ok': dump of a.replicate(dims)} / {'err':..}, a_after = dump of the input object after
    the call. Returns None or a description of the violated clause.  rel: compare lengths relative to the cell size
    (both dumps are first divided exactly by the largest cell component)."""
    da, db, dc = dims
    if "ok" not in r:
        return "replicate%s raised %s" % (tuple(dims), r.get("err"))
    r = r["ok"]
    if rel and a.get("cell") is not None:
        if a_after is not None and a_after != (a_before if a_before is not None else a):
            return "replicate modified the original object"
        a_after = None
        f = 1 / cell_scale(a)
        a, r = rescaled(a, f), rescaled(r, f)
    n = len(a["atoms"])
    cell = a["cell"]
    # --- count
    if len(r["atoms"]) != da * db * dc * n:
        return "atom count %d, expected %d*%d*%d*%d" % (len(r["atoms"]), da, db, dc, n)
    # --- cell rows
    if r["cell"] is None:
        return "replicated structure has no cell"
    for row, f in zip(range(3), dims):
        want = [f * F(v) for v in cell[row]]
        if not vclose([F(v) for v in r["cell"][row]], want, tol):
            return "cell row %d is %s, expected %d x %s" % (row, r["cell"][row], f, cell[row])
    # --- every atom of the result is (original atom, lattice offset); each pair exactly once
    by_q = {}
    unique_q = True
    for x, at in enumerate(a["atoms"]):
        if at["q"] in by_q:
            unique_q = False
        by_q[at["q"]] = x
    box = list(itertools.product(range(da), range(db), range(dc)))
    offs = {m: lattice(cell, *m) for m in box}
    where = []
    seen = set()
    for idx, at in enumerate(r["atoms"]):
        if unique_q:
            x = by_q.get(at["q"])
            if x is None:
                return "atom %d of the result has charge %s that no original atom has" % (idx, at["q"])
            src = a["atoms"][x]
            if at["ty"] != src["ty"] or at["g"] != src["g"] or at["x"] != src["x"]:
                return "atom %d (image of atom %d): type / group / extra fields differ from the original" % (idx, x)
            d = [F(p) - F(s) for p, s in zip(at["pos"], src["pos"])]
            ms = [m for m in box if vclose(d, offs[m], tol)]
            if len(ms) != 1:
                return "atom %d (image of atom %d) is displaced by %s, not by i*A+j*B+k*C with (i,j,k) inside the box" % (
                    idx, x, [str(v) for v in d])
            pair = (x, ms[0])
        else:
            # no identifying charges (e.g. structures that came through ASE): recognise by payload + position
            cands = []
            for x, src in enumerate(a["atoms"]):
                if (at["ty"], at["q"], at["g"], at["x"]) != (src["ty"], src["q"], src["g"], src["x"]):
                    continue
                d = [F(p) - F(s0) for p, s0 in zip(at["pos"], src["pos"])]
                cands += [(x, m) for m in box if vclose(d, offs[m], tol)]
            if len(cands) != 1:
                return ("atom %d of the result (type %d at %s) is not exactly one original atom of its type displaced by "
                        "i*A+j*B+k*C with (i,j,k) inside the box (%d candidates)" % (
                            idx, at["ty"], [str(float(F(v))) for v in at["pos"]], len(cands)))
            pair = cands[0]
        if pair in seen:
            return "original atom %d appears twice at lattice offset %s" % pair
        seen.add(pair)
        where.append(pair)
    if len(seen) != n * len(box):
        return "not every (atom, lattice offset) pair occurs"
    # --- terms: one copy per image, inside the image, same type and extra fields
    for k in KINDS:
        want = sorted((m, tuple(t["a"]), t["ty"], tuple(t["x"])) for m in box for t in a["terms"][k])
        got = []
        for t in r["terms"][k]:
            if any(i >= len(where) for i in t["a"]):
                return "%s term %s points outside the atom list" % (k, t["a"])
            ims = {where[i][1] for i in t["a"]}
            if len(ims) != 1:
                return "%s term %s connects atoms of different images" % (k, t["a"])
            got.append((ims.pop(), tuple(where[i][0] for i in t["a"]), t["ty"], tuple(t["x"])))
        if sorted(got) != want:
            return "%s terms: %d in the result, expected one copy of each of the %d terms in each of the %d images" % (
                k, len(got), len(a["terms"][k]), len(box))
    # --- tables and labels unchanged
    if (r["types"] != a["types"]) if tol <= 1e-9 else bool(core.same(r["types"], a["types"], tol=tol)):
        return "type tables changed by replicate"
    if r["xlabels"] != a["xlabels"]:
        return "extra-column labels changed by replicate"
    # --- identity
    if (da, db, dc) == (1, 1, 1):
        d = core.same(r, a, tol=tol)
        if d:
            return "1x1x1 replication is not the identity: " + d
    # --- the input object is untouched
    if a_after is not None and a_after != (a_before if a_before is not None else a):
        return "replicate modified the original object"
    return None


def canon_sorted(d):
    """order-independent canonical form of a dump: atoms sorted by (charge, position, type), indices re-mapped,
    terms sorted"""
    n = len(d["atoms"])
    order = sorted(range(n), key=lambda i: (F(d["atoms"][i]["q"]), [F(v) for v in d["atoms"][i]["pos"]], d["atoms"][i]["ty"]))
    new = {old: k for k, old in enumerate(order)}
    out = dict(d)
    out["atoms"] = [d["atoms"][i] for i in order]
    out["terms"] = {k: sorted(({"a": [new[x] for x in t["a"]], "ty": t["ty"], "x": t["x"]} for t in d["terms"][k]),
                              key=lambda t: (t["a"], t["ty"], t["x"])) for k in d["terms"]}
    return out


def canon_by_image(d, a, dims, tol=1e-9):
    """canonical form that does not depend on exact coordinates: atoms ordered by (original atom recognised by its
    charge, lattice multiplier recognised within `tol`); falls back to canon_sorted when an atom cannot be placed"""
    by_q = {at["q"]: x for x, at in enumerate(a["atoms"])}
    box = list(itertools.product(range(dims[0]), range(dims[1]), range(dims[2])))
    offs = {m: lattice(a["cell"], *m) for m in box}
    keys = []
    for at in d["atoms"]:
        x = by_q.get(at["q"])
        if x is None:
            return canon_sorted(d)
        dv = [F(p) - F(s0) for p, s0 in zip(at["pos"], a["atoms"][x]["pos"])]
        ms = [m for m in box if vclose(dv, offs[m], tol)]
        if len(ms) != 1:
            return canon_sorted(d)
        keys.append((x, ms[0]))
    order = sorted(range(len(keys)), key=lambda i: keys[i])
    new = {old: k for k, old in enumerate(order)}
    out = dict(d)
    out["atoms"] = [d["atoms"][i] for i in order]
    out["terms"] = {k: sorted(({"a": [new[x] for x in t["a"]], "ty": t["ty"], "x": t["x"]} for t in d["terms"][k]),
                              key=lambda t: (t["a"], t["ty"], t["x"])) for k in d["terms"]}
    return out


SCALES = ["1e-10", "1e-6", "1e-3", "1e3", "1e6"]


def scaled_structure(aj, scale):
    """cell and positions multiplied by `scale` in double precision (the structure expressed in another unit)"""
    fs = float(scale)
    out = dict(aj)
    out["atoms"] = [dict(at, pos=[core.q(float(F(v)) * fs) for v in at["pos"]]) for at in aj["atoms"]]
    out["cell"] = [[core.q(float(F(v)) * fs) for v in row] for row in aj["cell"]]
    return out


def scale_cases(ctx):
    rng = ctx.rng
    out = []
    cellkinds = ["ortho", "tri+", "tri-", "rot"]
    for s in range(ctx.n(60, 400)):
        ck = cellkinds[s % 4]
        a = gen.rand_atoms(rng, n=rng.randint(1, ctx.n(5, 7)), cell=ck, kinds=KINDS if s % 3 == 0 else None,
                           term_density=rng.randint(1, 2))
        out.append((scaled_structure(a, SCALES[s % len(SCALES)]), rand_dims(rng, 3, 12), ck, SCALES[s % len(SCALES)]))
    return out


def aliasing(a, r):
    """names of the attributes through which the replica `r` and the original `a` share state (empty = independent)"""
    import numpy as np
    if r is a:
        return ["<the same object>"]
    out = []
    for name, va in vars(a).items():
        vr = getattr(r, name, None)
        if va is None or vr is None:
            continue
        if isinstance(va, np.ndarray) and isinstance(vr, np.ndarray):
            if va.size and vr.size and np.shares_memory(va, vr):
                out.append(name)
        elif not isinstance(va, (int, float, str, bool, tuple, frozenset)) and va is vr:
            out.append(name)
    return sorted(out)


def mutate_in_place(r):
    """edit the replica through its own arrays / methods (what a caller does next with a replica)"""
    import numpy as np
    done = []

    def step(name, fn):
        try:
            fn()
            done.append(name)
        except Exception:   # the edit itself may be impossible (no atoms, no table): irrelevant for the original
            pass
    step("translate", lambda: r.translate(np.array([1.0, 2.0, 3.0])))
    step("cell", lambda: r.cell.__setitem__((0, 0), r.cell[0, 0] + 1))
    step("charges", lambda: r.charges.__setitem__(slice(None), 9.0))
    step("positions", lambda: r.positions.__setitem__((0, 0), 123.0))
    step("atom_types", lambda: r.atom_types.__setitem__(0, r.atom_types[0]))
    step("bond coeff", lambda: r.bond_type_coeffs.__setitem__(0, "edited"))
    step("labels", lambda: r.atom_type_labels.append("edited") if isinstance(r.atom_type_labels, list) else None)
    step("extra labels", lambda: r.extra_atom_labels.add("_edited"))
    step("delete", lambda: r.__delitem__([0]))
    return done


def oracle_cellpar(a, dims, abc, tol=1e-7):
    """the (a, b, c, alpha, beta, gamma) the replicated object reports must describe the rows a*A, b*B, c*C"""
    import math
    if abc is None:
        return None
    rows = [[float(f * F(v)) for v in row] for f, row in zip(dims, a["cell"])]
    ln = [math.sqrt(sum(v * v for v in row)) for row in rows]

    def ang(u, v, lu, lv):
        c = sum(x * y for x, y in zip(u, v)) / (lu * lv)
        return math.degrees(math.acos(max(-1.0, min(1.0, c))))
    want = ln + [ang(rows[1], rows[2], ln[1], ln[2]), ang(rows[0], rows[2], ln[0], ln[2]), ang(rows[0], rows[1], ln[0], ln[1])]
    names = ["a", "b", "c", "alpha", "beta", "gamma"]
    for nm, g, w in zip(names, abc, want):
        if not (abs(g - w) <= tol * max(1.0, abs(w))):
            return "cell_abc_alpha_beta_gamma() of the replicated structure: %s = %r, but the rows %d*A, %d*B, %d*C have %s = %r" % (
                nm, g, dims[0], dims[1], dims[2], nm, w)
    return None


def ase_object(aj):
    """the ASE Atoms object with the symbols, positions and cell of the dump (nothing else exists on that side)"""
    import ase
    els = [aj["types"]["elem"][at["ty"]] for at in aj["atoms"]]
    return ase.Atoms(els, positions=[[float(F(v)) for v in at["pos"]] for at in aj["atoms"]],
                     cell=[[float(F(v)) for v in row] for row in aj["cell"]], pbc=True)


def dump_from_ase(obj):
    """ground truth of the ASE route: the structure the ASE object describes, built with the plain constructor"""
    import numpy as np
    from mofun import Atoms
    return core.canon_atoms(Atoms(elements=list(obj.get_chemical_symbols()), positions=np.array(obj.positions, dtype=float),
                                  cell=np.array(obj.cell[:], dtype=float)))


def ase_input_structure(rng, ck, n=None):
    """a term-free structure with distinct atoms and a cell in orientation `ck` ('upper' = upper-triangular:
    the transpose of a LAMMPS-style cell; 'rot' = sheared and row-permuted)"""
    a = gen.rand_atoms(rng, n=n or rng.randint(1, 5), cell=("tri+" if ck == "upper" else ck), kinds=[], extras=False,
                       coeffs=False, pair=False)
    if ck == "upper":
        c = a["cell"]
        a["cell"] = [[c[j][i] for j in range(3)] for i in range(3)]
    return a


def _replicate_via_ase(aj, dims):
    """Atoms.from_ase_atoms(<ASE object of aj>).replicate(dims); returns (ground-truth dump, result, side)"""
    side = {}
    ref = {}

    def f():
        from mofun import Atoms
        obj = ase_object(aj)
        ref["a"] = dump_from_ase(obj)
        a = Atoms.from_ase_atoms(obj)
        side["before"] = core.canon_atoms(a)
        r = a.replicate(tuple(dims))
        side["after"] = core.canon_atoms(a)
        side["abc"] = [float(v) for v in r.cell_abc_alpha_beta_gamma()]
        dump = core.canon_atoms(r)
        side["alias"] = aliasing(a, r)
        side["edits"] = mutate_in_place(r)
        side["after_edit"] = core.canon_atoms(a)
        return dump
    res = core.result_of(f)
    return ref.get("a"), res, side


def ase_cases(ctx):
    rng = ctx.rng
    kinds = ["upper", "rot", "tri+", "upper", "ortho", "rot", "tri-", "upper"]
    out = []
    for s in range(ctx.n(24, 160)):
        ck = kinds[s % len(kinds)]
        dims = [1, 1, 1] if s % 6 == 5 else rand_dims(rng, 3, 12)
        out.append((ase_input_structure(rng, ck), dims, ck))
    return out


def _build(aj, emptied_from=None):
    """the real object for the dump `aj`; an atom-less structure that keeps its tables cannot be constructed directly,
    it is obtained from `emptied_from` by deleting every atom (and must then dump to exactly `aj`)"""
    if emptied_from is None:
        return core.atoms_from_json(aj)
    a = core.atoms_from_json(emptied_from)
    del a[list(range(len(emptied_from["atoms"])))]
    if core.canon_atoms(a) != aj:
        raise RuntimeError("deleting all atoms did not give the recorded atom-less structure")
    return a


def emptied(aj):
    """(dump of the structure after deleting all its atoms, with the real code) or None"""
    def f():
        a = core.atoms_from_json(aj)
        del a[list(range(len(aj["atoms"])))]
        return core.canon_atoms(a)
    r = core.result_of(f)
    return r.get("ok")


def small_cases(ctx):
    """N = 0 (emptied with tables / bare) and N = 1"""
    rng = ctx.rng
    out = []
    cellkinds = ["ortho", "tri+", "tri-", "rot"]
    for s in range(ctx.n(18, 90)):
        ck = cellkinds[s % 4]
        dims = [1, 1, 1] if s % 9 == 8 else rand_dims(rng, 3, 12)
        if s % 9 != 8 and dims == [1, 1, 1]:
            dims = rng.choice([[2, 1, 1], [1, 3, 1], [1, 1, 2], [2, 1, 3]])
        kind = ["emptied", "bare", "one"][s % 3]
        if kind == "emptied":
            full = _norm(gen.rand_atoms(rng, n=rng.randint(1, 5), cell=ck, kinds=KINDS if s % 2 else None,
                                        coeffs=True if s % 2 else None, extras=True if s % 2 else None))
            e = emptied(full)
            if e is None:
                ctx.fail("deleting all atoms of a generated structure raised (the N = 0 case could not be built)",
                         {"op": "replicate", "a": full, "dims": dims, "note": "del a[all] failed"})
                continue
            out.append((e, full, dims, ck, "N0-tables"))
        elif kind == "bare":
            cellj, _ = gen.rand_cell(rng, ck)
            bare = {"cell": cellj, "atoms": [], "terms": {k: [] for k in KINDS},
                    "types": {"elem": [], "label": [], "mass": [], "pair": [], **{k: [] for k in KINDS}},
                    "xlabels": {"atom": [], **{k: [] for k in KINDS}}}
            out.append((_norm(bare), None, dims, ck, "N0-bare"))
        else:
            out.append((_norm(gen.rand_atoms(rng, n=1, cell=ck, extras=True if s % 2 else None)), None, dims, ck, "N1"))
    return out


def _replicate(aj, dims, emptied_from=None):
    side = {}

    def f():
        a = _build(aj, emptied_from)
        side["before"] = core.canon_atoms(a)
        r = a.replicate(tuple(dims))
        side["after"] = core.canon_atoms(a)
        side["abc"] = [float(v) for v in r.cell_abc_alpha_beta_gamma()]
        dump = core.canon_atoms(r)
        side["alias"] = aliasing(a, r)
        side["edits"] = mutate_in_place(r)
        side["after_edit"] = core.canon_atoms(a)
        return dump
    res = core.result_of(f)
    if res.get("err") == "error:Exception" and aj.get("cell") is None:
        res = {"err": "error:nocell"}
    return res, side


def judge_api(a, dims, r, side, rel=False):
    bad = oracle_replicate(a, dims, r, side.get("after"), side.get("before"), rel=rel)
    if bad is None and "ok" in r:
        bad = oracle_cellpar(a, dims, side.get("abc"))
    if bad is None and "ok" in r:
        bad = oracle_independent(side)
    return bad


def oracle_independent(side):
    """the replica is a new object: no shared state, and editing it in place leaves the original as it was"""
    if side.get("alias"):
        return "the replica is not independent of the original: shared %s" % ", ".join(side["alias"])
    if "after_edit" in side and side["after_edit"] != side.get("before"):
        return "editing the replica in place (%s) changed the original object" % ", ".join(side.get("edits", []))
    return None


def rand_dims(rng, top, maxprod):
    while True:
        if rng.random() < 0.67:
            d = [rng.randint(1, top) for _ in range(3)]
            if len(set(d)) == 1:
                continue
        else:
            v = rng.randint(1, min(top, 3))
            d = [v, v, v]
        if d[0] * d[1] * d[2] <= maxprod:
            return d


def cases(ctx):
    rng = ctx.rng
    out = []
    top, maxprod = ctx.n(3, 4), ctx.n(12, 27)
    nmax = ctx.n(6, 8)
    cellkinds = ["ortho", "tri+", "tri-", "rot"]
    for s in range(ctx.n(800, 4000)):
        ck = cellkinds[s % 4]
        allkinds = (s % 3 == 0)
        n = rng.randint(4 if allkinds else 1, nmax)
        a = gen.rand_atoms(rng, n=n, cell=ck, kinds=KINDS if allkinds else None,
                           extras=True if s % 5 == 0 else None, term_density=rng.randint(1, 3))
        out.append((a, rand_dims(rng, top, maxprod), ck))
    # the tilted cell with unequal factors of DESIGN.md section 8 and a few fixed corner cases
    for dims in ([2, 1, 3], [1, 1, 1], [1, 2, 1], [3, 1, 1]):
        a = gen.rand_atoms(rng, n=5, cell="tri+", kinds=KINDS, extras=True)
        a["cell"] = [["10", "0", "0"], ["3", "9", "0"], ["1", "2", "8"]]
        out.append((a, dims, "tri+"))
    return out


# ------------------------------------------------------------------------------------------------ CLI stream

def expected_cli_dims(a, dims, mic):
    """factors the command line must realise: --replicate first, then (orthorhombic cells only) the minimum-image
    replication of the already replicated cell"""
    if mic is None:
        return list(dims)
    cell = [[F(v) for v in row] for row in a["cell"]]
    ortho = all(cell[i][j] == 0 for i in range(3) for j in range(3) if i != j)
    if not ortho:
        return list(dims)
    out = []
    for i in range(3):
        ratio = 2 * F(mic) / (dims[i] * cell[i][i])
        out.append(dims[i] * max(1, -((-ratio.numerator) // ratio.denominator)))
    return out


def _uc_structure(cellj):
    """a one-atom structure that only serves as the carrier of a unit cell (--extract-uc)"""
    return {"cell": cellj, "atoms": [{"ty": 0, "pos": ["0", "0", "0"], "q": "0", "g": 0, "x": []}],
            "terms": {k: [] for k in KINDS}, "types": {"elem": ["C"], "label": ["C"], "mass": [core.q(gen.masses()["C"])],
                                                       "pair": [], **{k: [] for k in KINDS}},
            "xlabels": {"atom": [], **{k: [] for k in KINDS}}}


def neutral_types(d):
    """term type ids set to 0 (for formats that do not carry them: CIF re-reads every term with a placeholder id)"""
    out = dict(d)
    out["terms"] = {k: [dict(t, ty=0) for t in d["terms"][k]] for k in d["terms"]}
    return out


def _cli_replicate(aj, dims, mic, fmt="lmpdat", uc=None, ucfmt="lmpdat", outfmt="lmpdat"):
    """write aj to a temporary input file (.lmpdat / .cif / ASE extended .xyz), optionally a second file holding the unit
    cell `uc`, run the real CLI in-process with an output of format `outfmt`; returns (reference dump, result).
    Reference = the input as loaded from the file (ASE inputs: the ASE object read from it), with the cell of the UC file
    when given, passed once through the same writer/reader as the output (.lmpdat / .cif; nothing for xyz)."""
    import os
    import shutil
    import tempfile
    tmp = tempfile.mkdtemp(prefix="c12cli_")
    try:
        inp, out = os.path.join(tmp, "in." + fmt), os.path.join(tmp, "out." + outfmt)
        ucp, refp = os.path.join(tmp, "uc." + ucfmt), os.path.join(tmp, "ref." + outfmt)
        ref = {}

        def f():
            import ase.io
            from click.testing import CliRunner
            from mofun import Atoms
            from mofun.cli.mofun_cli import mofun_cli
            args = [inp, out]
            if fmt == "xyz":
                ase.io.write(inp, ase_object(aj), format="extxyz")
                ref["a"] = dump_from_ase(ase.io.read(inp))
            else:
                core.atoms_from_json(aj).save(inp)
                loaded = Atoms.load(inp)
                if uc is not None:
                    core.atoms_from_json(_uc_structure(uc)).save(ucp)
                    loaded.cell = Atoms.load(ucp).cell
                    args += ["--extract-uc", ucp]
                loaded.save(refp)
                ref["a"] = core.canon_atoms(Atoms.load(refp))
                if outfmt == "cif":
                    ref["a"] = neutral_types(ref["a"])
            args += ["--replicate"] + [str(int(d)) for d in dims]
            if mic is not None:
                args += ["--mic", str(float(F(mic)))]
            res = CliRunner().invoke(mofun_cli, args)
            if res.exit_code != 0:
                raise RuntimeError("mofun CLI exit code %s: %r" % (res.exit_code, res.exception))
            if outfmt == "xyz":
                return dump_from_ase(ase.io.read(out))
            d = core.canon_atoms(Atoms.load(out))
            return neutral_types(d) if outfmt == "cif" else d
        r = core.result_of(f)
        return ref.get("a"), r
    finally:
        shutil.rmtree(tmp, ignore_errors=True)


def rhombohedral_cell():
    """a = b = c = 10, alpha = beta = gamma = 60 degrees, LAMMPS orientation"""
    import math
    return [[core.q(10.0), "0", "0"], [core.q(5.0), core.q(10 * math.sqrt(3) / 2), "0"],
            [core.q(5.0), core.q(10 * math.sqrt(3) / 6), core.q(10 * math.sqrt(6) / 3)]]


def place_inside(rng, a):
    """positions at fractional coordinates k/16, 1 <= k <= 15 (nothing to wrap when a CIF is re-read)"""
    cell = [[F(v) for v in row] for row in a["cell"]]
    used = set()
    for at in a["atoms"]:
        while True:
            fr = tuple(Fraction(rng.randint(1, 15), 16) for _ in range(3))
            if fr not in used:
                used.add(fr)
                break
        at["pos"] = [core.q(sum(fr[i] * cell[i][c] for i in range(3))) for c in range(3)]
    return a


# (input format, cell kind of the input file, cell kind of the --extract-uc file or None, format of that file, mic mode)
CLI_VARIANTS = [
    ("lmpdat", "ortho", None, None, "plain"), ("lmpdat", "tri+", None, None, "plain"),
    ("lmpdat", "ortho", None, None, "mic1"), ("lmpdat", "tri-", None, None, "mic1"),
    ("lmpdat", "ortho", None, None, "mic2"), ("lmpdat", "ortho", "tri+", "lmpdat", "plain"),
    ("cif", "tri+", None, None, "plain"), ("cif", "ortho", "tri-", "lmpdat", "plain"),
    ("lmpdat", "tri+", "ortho", "lmpdat", "mic1"), ("cif", "ortho", None, None, "plain"),
    ("lmpdat", "tri-", "tri+", "cif", "plain"), ("cif", "tri-", "ortho", "cif", "plain"),
    # output as CIF (6th entry = output format)
    ("lmpdat", "tri+", None, None, "plain", "cif"), ("cif", "tri-", None, None, "plain", "cif"),
    ("lmpdat", "rhomb", None, None, "plain", "cif"), ("lmpdat", "ortho", "tri+", "lmpdat", "plain", "cif"),
    # input and output through ASE (extended xyz): cells in any orientation
    ("xyz", "upper", None, None, "plain", "xyz"), ("xyz", "rot", None, None, "plain", "xyz"),
    ("xyz", "ortho", None, None, "mic1", "xyz"),
]


def cli_cases(ctx):
    rng = ctx.rng
    out = []
    for s in range(ctx.n(len(CLI_VARIANTS), 4 * len(CLI_VARIANTS))):
        v = CLI_VARIANTS[s % len(CLI_VARIANTS)]
        fmt, ck, uck, ucfmt, mode = v[:5]
        outfmt = v[5] if len(v) > 5 else "lmpdat"
        if fmt == "xyz":
            a = ase_input_structure(rng, ck, n=rng.randint(2, 4))
        else:
            a = gen.rand_atoms(rng, n=rng.randint(2, 5), cell=("tri+" if ck == "rhomb" else ck),
                               kinds=KINDS if s % 2 == 0 else None, extras=False,
                               coeffs=True, pair=True, term_density=rng.randint(1, 2))
            if ck == "rhomb":
                a["cell"] = rhombohedral_cell()
        uc = gen.rand_cell(rng, uck)[0] if uck else None
        if outfmt == "cif":
            if uc is not None:          # the atoms must lie inside the cell the replication works with
                a["cell"], keep = uc, a["cell"]
                place_inside(rng, a)
                a["cell"] = keep
            else:
                place_inside(rng, a)
        dims = rand_dims(rng, 3, 8)
        if ck == "rhomb" and dims[0] == dims[1]:
            dims = rng.choice([[2, 1, 1], [1, 3, 2], [1, 2, 1], [3, 1, 2]])
        if (mode != "plain" or uc is not None) and dims == [1, 1, 1]:
            dims = rng.choice([[2, 1, 1], [1, 2, 1], [1, 1, 2], [2, 1, 3]])
        mic = None
        if mode == "mic1":      # already satisfied by the replicated cell: nothing more to do
            mic = "1"
        elif mode == "mic2":    # forces a factor 2 along the shortest replicated axis (1 < 2*mic/len <= 3/2 < 2)
            lens = [dims[i] * F(a["cell"][i][i]) for i in range(3)]
            mic = core.q(Fraction(int(min(lens) * 6), 8) - Fraction(1, 8))
        out.append({"a": a, "dims": dims, "mic": mic, "fmt": fmt, "uc": uc, "ucfmt": ucfmt or "lmpdat", "outfmt": outfmt,
                    "tag": "%s>%s:%s%s:%s" % (fmt, outfmt, ck, "+uc(%s,%s)" % (uck, ucfmt) if uck else "", mode)})
    return out


def check_cli(ctx, c):
    a, dims, mic = c["a"], c["dims"], c["mic"]
    inp = {"op": "cli_replicate", "a": a, "dims": dims, "mic": mic, "fmt": c["fmt"], "uc": c["uc"], "ucfmt": c["ucfmt"],
           "outfmt": c["outfmt"]}
    a_ref, r = _cli_replicate(a, dims, mic, c["fmt"], c["uc"], c["ucfmt"], c["outfmt"])
    want = expected_cli_dims(a_ref, dims, mic) if a_ref is not None else list(dims)
    if a_ref is None:
        bad = "the generated structure could not be written / re-read (%s): %s" % (c["fmt"], r.get("err"))
    else:
        bad = cli_oracle(a_ref, want, r, c["outfmt"])
        if bad:
            bad = "CLI %s input, %s output%s --replicate %s%s (expected factors %s): %s" % (
                c["fmt"], c["outfmt"], " --extract-uc <%s>" % c["ucfmt"] if c["uc"] is not None else "", dims,
                "" if mic is None else " --mic %s" % mic, want, bad)
    ctx.case(inp, nontrivial=((mic is not None or c["uc"] is not None) and dims != [1, 1, 1]))
    ctx.count("cli:" + c["tag"])
    if want != list(dims):
        ctx.count("cli:mic-forces-factor")
    if bad:
        ctx.fail(bad, inp, observed=r)
    return a_ref, want, r


CLI_TOL = 2e-6   # both sides went through "%10.6f" (lmpdat) / "%16.8f" (extended xyz) once
CIF_TOL = 5e-4   # relative to the cell size: fractional coordinates and angles are written with 4 decimals


def cli_oracle(a_ref, want, r, outfmt):
    if outfmt == "cif":
        return oracle_replicate(a_ref, want, r, tol=CIF_TOL, rel=True)
    return oracle_replicate(a_ref, want, r, tol=CLI_TOL)


def _norm(aj):
    with core.quiet():
        return core.canon_atoms(core.atoms_from_json(aj))


def run(ctx, oracle_only=False):
    ctx.rule = RULE
    ops, impls = [], []
    for a, dims, ck in cases(ctx):
        a = _norm(a)
        inp = {"op": "replicate", "a": a, "dims": dims}
        r, side = _replicate(a, dims)
        bad = judge_api(a, dims, r, side)
        nterms = sum(len(a["terms"][k]) for k in KINDS)
        ctx.case(inp, nontrivial=(ck != "ortho" and len(set(dims)) > 1 and dims[0] * dims[1] * dims[2] >= 2 and nterms > 0))
        ctx.count("cell:" + ck)
        ctx.count("dims:" + ("equal" if len(set(dims)) == 1 else "unequal"))
        ctx.count("images:%d" % (dims[0] * dims[1] * dims[2]))
        if a["terms"]["improper"]:
            ctx.count("with-impropers")
        if any(a["xlabels"][k] for k in a["xlabels"]):
            ctx.count("with-extra-fields")
        if bad:
            ctx.fail(bad, inp, observed=r)
        ops.append(inp)
        impls.append(r)
    # atom-less structures with a cell, and single atoms
    for a, full, dims, ck, tag in small_cases(ctx):
        inp = {"op": "replicate", "a": a, "dims": dims}
        if full is not None:
            inp["emptied_from"] = full
        r, side = _replicate(a, dims, full)
        bad = judge_api(a, dims, r, side)
        ctx.case(inp, nontrivial=(dims != [1, 1, 1] and ck != "ortho"))
        ctx.count("small:" + tag)
        ctx.count("cell:" + ck)
        if bad:
            ctx.fail("%s structure: %s" % (tag, bad), inp, observed=r)
        ops.append(inp)
        impls.append(r)
    # structures that enter through Atoms.from_ase_atoms (ground truth: the ASE object)
    for a, dims, ck in ase_cases(ctx):
        inp = {"op": "replicate_via_ase", "a": a, "dims": dims}
        a_ref, r, side = _replicate_via_ase(a, dims)
        if a_ref is None:
            bad = "the ASE object could not be built: %s" % r.get("err")
        else:
            bad = judge_api(a_ref, dims, r, side)
        ctx.case(inp, nontrivial=(ck in ("upper", "rot") and dims != [1, 1, 1]))
        ctx.count("ase:" + ck)
        if bad:
            ctx.fail("via Atoms.from_ase_atoms (%s cell): %s" % (ck, bad), inp, observed=r)
        if a_ref is not None:
            ops.append({"op": "replicate", "a": a_ref, "dims": dims})
            impls.append(r)
    # the same in other units of length: everything relative to the cell size
    for a, dims, ck, sc in scale_cases(ctx):
        a = _norm(a)
        inp = {"op": "replicate", "a": a, "dims": dims, "scale": sc}
        r, side = _replicate(a, dims)
        bad = judge_api(a, dims, r, side, rel=True)
        ctx.case(inp, nontrivial=(dims[0] * dims[1] * dims[2] >= 2))
        ctx.count("scale:" + sc)
        ctx.count("cell:" + ck)
        if bad:
            ctx.fail("lengths scaled by %s: %s" % (sc, bad), inp, observed=r)
        ops.append(inp)
        impls.append(r)
    # the command line: --replicate alone and together with --mic
    for c in cli_cases(ctx):
        c["a"] = _norm(c["a"])
        a_ref, want, r = check_cli(ctx, c)
        if a_ref is not None and "ok" in r:
            # tie: the model replicates the reference structure by the expected factors (compared order-independently,
            # with the tolerance of the text layer)
            ops.append({"op": "replicate", "a": a_ref, "dims": want, "via": "cli:" + c["outfmt"]})
            impls.append(r)
    if oracle_only:
        return
    # no cell: both sides refuse
    rng = ctx.rng
    for s in range(ctx.n(6, 30)):
        a = _norm(gen.rand_atoms(rng, n=rng.randint(1, 4), cell=False))
        inp = {"op": "replicate", "a": a, "dims": [2, 1, 1]}
        r, _ = _replicate(a, [2, 1, 1])
        ctx.count("cell:none")
        ops.append(inp)
        impls.append(r)
    models = ctx.lean.run([{k: v for k, v in o.items() if k not in ("via", "scale", "emptied_from")} for o in ops])
    for inp, r, m in zip(ops, impls, models):
        if "ok" in r and "ok" in m and inp.get("scale"):
            f = 1 / cell_scale(inp["a"])
            ref = rescaled(inp["a"], f)
            ctx.compare("replicate", inp, {"ok": canon_by_image(rescaled(r["ok"], f), ref, inp["dims"])},
                        {"ok": canon_by_image(rescaled(m["ok"], f), ref, inp["dims"])})
        elif "ok" in r and "ok" in m and inp.get("via") == "cli:cif":
            f = 1 / cell_scale(inp["a"])
            ref = rescaled(inp["a"], f)
            ctx.compare("replicate", inp, {"ok": canon_by_image(rescaled(r["ok"], f), ref, inp["dims"], CIF_TOL)},
                        {"ok": canon_by_image(rescaled(m["ok"], f), ref, inp["dims"], CIF_TOL)}, numeric_tol=CIF_TOL)
        elif "ok" in r and "ok" in m:
            ctx.compare("replicate", inp, {"ok": canon_sorted(r["ok"])}, {"ok": canon_sorted(m["ok"])},
                        numeric_tol=CLI_TOL if str(inp.get("via", "")).startswith("cli") else 1e-9)
        else:
            ctx.compare("replicate", inp, r, m)


def search(ctx):
    saved = ctx.tier
    ctx.tier = "thorough"
    try:
        run(ctx, oracle_only=True)
    finally:
        ctx.tier = saved


def replay(ctx, rec):
    inp = rec["input"]
    if inp.get("op") == "cli_replicate":
        a_ref, r = _cli_replicate(inp["a"], inp["dims"], inp.get("mic"), inp.get("fmt", "lmpdat"), inp.get("uc"),
                                  inp.get("ucfmt", "lmpdat"), inp.get("outfmt", "lmpdat"))
        if a_ref is None:
            return False
        return cli_oracle(a_ref, expected_cli_dims(a_ref, inp["dims"], inp.get("mic")), r,
                          inp.get("outfmt", "lmpdat")) is None
    if inp.get("op") == "replicate_via_ase":
        a_ref, r, side = _replicate_via_ase(inp["a"], inp["dims"])
        return a_ref is not None and judge_api(a_ref, inp["dims"], r, side) is None
    r, side = _replicate(inp["a"], inp["dims"], inp.get("emptied_from"))
    return judge_api(inp["a"], inp["dims"], r, side, rel=bool(inp.get("scale"))) is None
