"""The rotation construction of the pattern search, model (Model/QuatHelpers.lean at Float) against the real code.

Two streams, both through the second driver `drivers/Quat.lean`:

  A  searches on planted structures (generators of gen_find_c02 / findlib; the hook `mofun.mofun._verif_sink` exports per
     candidate group the tuples, the code's quaternions `q.as_quat()` and the `good` list, per search the axis indices).
     For every exported candidate the model gets (pattern positions as given, candidate positions, ax1, ax2, opoint) and
     builds ITS quaternion with the same statements in double precision.  Compared AS ROTATIONS through the rotated
     pattern (q and -q are one rotation; a collinear pattern does not see the spin about its own axis; the antiparallel
     branch draws np.random.random(3) but what it must satisfy - the axis goes onto the match axis, and for more than two
     atoms the second rotation brings the orientation point home - fixes the rotated pattern all the same; those cases
     are counted separately).  Also compared: the hint defaults (axis pair, orientation point = first point farthest
     from the axis) and the verdict of the final re-check computed from the MODEL's quaternion against the code's `good`.
  B  the helpers called directly: quaternion_from_two_vectors (the random vector of the antiparallel branch is drawn with
     a known seed and handed to the model, so that branch is compared exactly as well), ..._around_axis,
     position_index_farthest_from_axis; special angles 0 / pi / +-pi/2 / within 1e-3 ... 1e-9 of 0 and pi, axis-aligned
     and negative axes, components along the axis.

Near-degenerate inputs (a branch condition within 1e-9 of flipping, zero vectors, arg-max ties decided by rounding) are
counted in ctx.ambiguous and not compared."""
import math
import warnings

import numpy as np

from . import core, findlib as fl, gen_find_c02 as g

TOL = 1e-7                 # relative to the pattern size (arccos turns one ulp of the dot product into ~1.5e-8 rad)
RV0 = [0.5, 0.25, 0.125]   # stands for np.random.random(3) where the draw of the code is not known (stream A)
MAX_CAND = 10              # candidates per search sent through the model


def qv(v):
    return [core.q(float(x)) for x in v]


def rotmat_of(q):
    """rotation matrix of a quaternion (x, y, z, w), normalised here (independent of scipy)"""
    x, y, z, w = [float(v) for v in q]
    n = x * x + y * y + z * z + w * w
    return np.array([[w * w + x * x - y * y - z * z, 2 * (x * y - z * w), 2 * (x * z + y * w)],
                     [2 * (x * y + z * w), w * w - x * x + y * y - z * z, 2 * (y * z - x * w)],
                     [2 * (x * z - y * w), 2 * (y * z + x * w), w * w - x * x - y * y + z * z]]) / n


def fl_(x):
    return float("nan") if isinstance(x, str) and x == "nan" else float(x)


def finite(a):
    return bool(np.all(np.isfinite(np.array(a, dtype=float))))


# ------------------------------------------------------------------ stream A: searches with the hook

def search_cases(ctx, rng, n):
    """planted search cases: all pattern sizes, collinear patterns, hints (incl. index 0), exact copies, eps-copies, poses
    identity / 90 / 180 deg / antiparallel / random, every cell kind of the C02 generator"""
    out = []
    singles = ["single", "pair", "pair_same", "collinear3", "collinear_asym", "pair@y", "collinear_asym@z"]
    while len(out) < n:
        k = len(out)
        atol = rng.choice([0.05, 0.05, 0.01, 0.2])
        if k % 7 == 3:
            case = g.exact_case(rng, False)
            atol = 1e-5
            hints = (None, None, None)
        else:
            pname = rng.choice(singles) if k % 3 == 0 else rng.choice(list(fl.PATTERNS))
            hinted = rng.random() < 0.45
            case = g.random_case(rng, atol=atol, pname=pname, perturb_div=40.0 if hinted else 8.0, tight=False,
                                 cell_kind=rng.choice(["ortho", "tri+", "tri-", "rot", "upper", "sparse"]), ndecoy=rng.randint(0, 1))
            hints = (None, None, None)
            if case is not None and hinted:
                hints = g.pick_hints(rng, case["pattern"]["pos"])
        if case is None:
            ctx.count("quat:generator-rejected")
            continue
        out.append((case, atol, tuple(None if h is None else int(h) for h in hints)))
    return out


def stream_a(ctx, rng, n):
    import mofun.mofun as mm
    ops, meta = [], []
    for case, atol, hints in search_cases(ctx, rng, n):
        s = fl.mk_structure(case["elems"], case["pos"], case["cell"])
        p = g.mk_pattern(case)
        res = fl.run_find(s, p, atol, hints=hints, seed=rng.randrange(1 << 30))
        hook = res["hook"]
        if "ok" not in res or hook.find is None:
            ctx.count("quat:search-raised")
            continue
        with core.quiet():
            allpos = np.array(mm._get_positions_from_all_adjacent_unit_cells(s, 1.0)[3], dtype=float)
        P = np.array(case["pattern"]["pos"], dtype=float)
        npat = len(P)
        axis = [None if a is None else int(a) % npat for a in hook.find["axis"]]
        inp0 = {"pattern": case["pattern"], "hints": list(hints), "atol": atol}
        ctx.count("quat:search:pattern-size:%s" % (npat if npat < 3 else "3+"))
        ctx.count("quat:search:hints:%s" % ("none" if hints == (None, None, None) else
                                             ("with-index0" if 0 in hints else "given")))
        ctx.count("quat:search:cell:" + str(case["info"]["cell"]))
        if npat >= 2:
            ops.append({"op": "resolve", "ppos": [qv(v) for v in P], "hints": list(hints), "rv": qv(RV0)})
            meta.append(("resolve", inp0, axis, P))
        cands = [(t, qq, k in gr["good"]) for gr in hook.groups for k, (t, qq) in enumerate(zip(gr["tuples"], gr["quats"]))]
        if len(cands) > MAX_CAND:
            cands = rng.sample(cands, MAX_CAND)
        for t, qq, good in cands:
            A = allpos[[int(i) for i in t]]
            ops.append({"op": "match_quat", "ppos": [qv(v) for v in P], "apos": [qv(v) for v in A], "rv": qv(RV0),
                        "ax1": axis[0], "ax2": axis[1], "opoint": axis[2]})
            meta.append(("match", dict(inp0, apos=A.tolist(), axis=axis, kinds=case["info"].get("kinds")),
                         (np.array(qq, dtype=float), good, A, atol), P))
    return ops, meta


def compare_a(ctx, ops, meta, models):
    for op, (kind, inp, ref, P), m in zip(ops, meta, models):
        if "bad" in m:
            ctx.disagree("quat:" + kind, inp, None, m, "driver could not read the op: %s" % m["bad"])
            continue
        ctx.case(inp, nontrivial=(kind == "match" and len(P) > 1))
        if kind == "resolve":
            got = m["axis"]
            if got == ref:
                ctx.compared += 1
                ctx.count("quat:resolve:compared")
                continue
            # a different arg-max: decided by rounding (two candidates within 1e-9)?
            pss = sorted((fl_(x) for x in m["pss"]), reverse=True)
            ss = sorted((fl_(x) for x in m["ss"]), reverse=True)
            tie_axis = got[:2] != ref[:2] and len(pss) > 2 and abs(pss[0] - pss[2]) <= 1e-9 * max(1.0, pss[0])
            # (with the search axis exactly along +x the helper's rotation is exactly the identity: nothing is rounded)
            tie_op = (got[:2] == ref[:2] and len(ss) > 1 and abs(ss[0] - ss[1]) <= 1e-9 * max(1.0, ss[0])
                      and fl_(m["angle"]) != 0.0)
            if tie_axis or tie_op:
                ctx.ambiguous += 1
                ctx.count("quat:resolve:tie-by-rounding")
            else:
                ctx.compared += 1
                ctx.disagree("quat:resolve", inp, ref, got, "hint defaults differ (axisp1, axisp2, opoint)")
            continue
        qc, good, A, atol = ref
        n = len(P)
        size = max(1.0, fl.diam(P.tolist()))
        if n == 1:
            ok = bool(np.allclose(qc, [0, 0, 0, 1]) or np.allclose(qc, [0, 0, 0, -1]))
            ctx.compared += 1
            ctx.count("quat:match:one-atom")
            if not ok or [fl_(x) for x in m["q"]] != [0.0, 0.0, 0.0, 1.0]:
                ctx.disagree("quat:match", inp, qc.tolist(), m["q"], "one-atom pattern: identity expected on both sides")
            continue
        qm = [fl_(x) for x in m["q"]]
        if fl_(m["n1"]) < 1e-9 or fl_(m["n2"]) < 1e-9:
            ctx.ambiguous += 1
            ctx.count("quat:match:zero-vector")
            continue
        if not finite(qm) or not finite(qc):
            ctx.compared += 1
            ctx.count("quat:match:not-a-rotation")
            if finite(qm) != finite(qc):
                ctx.disagree("quat:match", inp, qc.tolist(), qm, "one side returns a rotation, the other none")
            continue
        ang, cmax, deg = fl_(m["angle"]), fl_(m["cmax"]), bool(m["degenerate"])
        if ang > 1.0 and abs(cmax - 1e-8) < 1e-9:
            ctx.ambiguous += 1
            ctx.count("quat:match:antiparallel-window-edge")
            continue
        if m.get("margin") is not None and fl_(m["margin"]) < 1e-9:
            ctx.ambiguous += 1
            ctx.count("quat:match:sign-window-edge")
            continue
        tp = np.array([[fl_(x) for x in v] for v in m["tp"]])
        if np.abs(tp - (P - P[inp["axis"][0]])).max() > 0:
            ctx.disagree("quat:match", inp, (P - P[inp["axis"][0]]).tolist(), tp.tolist(), "translated pattern differs")
            continue
        Rc, Rm = rotmat_of(qc), rotmat_of(qm)
        d = float(np.abs(tp @ Rc.T - tp @ Rm.T).max())
        ctx.compared += 1
        branch = "antiparallel(random axis)" if (deg and ang > 1.0) else ("tiny-angle(random axis)" if deg else "plain")
        ctx.count("quat:match:%d-atoms:%s" % (min(n, 3), branch))
        if ang == 0.0:
            ctx.count("quat:match:angle-exactly-0")
        elif ang == math.pi:
            ctx.count("quat:match:angle-exactly-pi")
        elif ang > math.pi - 1e-2:
            ctx.count("quat:match:angle-near-pi")
        if n > 2 and m.get("flip") is not None:
            ctx.count("quat:match:sign-branch:%s" % ("flip" if m["flip"] else "keep"))
        if d > TOL * size:
            ctx.disagree("quat:match", inp, {"q": qc.tolist(), "rotated": (tp @ Rc.T).tolist()},
                         {"q": qm, "rotated": (tp @ Rm.T).tolist(), "branch": branch},
                         "rotated pattern differs by %.3g (tolerance %.3g)" % (d, TOL * size))
            continue
        # non-collinear pattern: the rotation itself is determined; compare the matrices as well
        if n > 2 and fl_(m.get("m1", 0)) > 1e-3 and fl_(m.get("m2", 0)) > 1e-3:
            dm = float(np.abs(Rc - Rm).max())
            lever = size / min(fl_(m["m1"]), fl_(m["n1"]))
            ctx.compared += 1
            ctx.count("quat:match:matrix-compared")
            if dm > 4 * TOL * max(1.0, lever):
                ctx.disagree("quat:match", inp, Rc.tolist(), Rm.tolist(), "rotation matrices differ by %.3g" % dm)
                continue
        # the verdict of the final re-check, computed from the MODEL's quaternion, against the code's `good`
        chk = np.array([[fl_(x) for x in v] for v in m["chk"]])
        dev = float(np.abs(chk - A).max())
        if abs(dev - atol) <= 1e-6:
            ctx.ambiguous += 1
            ctx.count("quat:recheck:on-the-tolerance")
        else:
            ctx.compared += 1
            ctx.count("quat:recheck:%s" % ("passes" if dev <= atol else "fails"))
            if (dev <= atol) != bool(good):
                ctx.disagree("quat:recheck", inp, {"good": bool(good)}, {"deviation": dev, "atol": atol},
                             "final re-check: the model's rotation %s, the code's %s" %
                             ("passes" if dev <= atol else "fails", "passes" if good else "fails"))


# ------------------------------------------------------------------ stream B: the helpers called directly

def unit(v):
    v = np.array(v, dtype=float)
    return v / np.linalg.norm(v)


def rand_vec(rng, scale=None):
    s = scale if scale is not None else rng.choice([1.0, 1.0, 0.1, 7.5, 40.0])
    kind = rng.random()
    if kind < 0.2:
        v = [0.0, 0.0, 0.0]
        v[rng.randrange(3)] = rng.choice([1.0, -1.0, 1.25, -2.5])
        return np.array(v) * s
    if kind < 0.3:
        v = [rng.choice([-1.5, -1.0, 0.0, 1.0, 0.5]) for _ in range(3)]
        if any(v):
            return np.array(v) * s
    return np.array([rng.uniform(-1, 1) for _ in range(3)]) * s


def rot_about(axis, ang, v):
    k = unit(axis)
    v = np.array(v, dtype=float)
    return v * math.cos(ang) + np.cross(k, v) * math.sin(ang) + k * np.dot(k, v) * (1 - math.cos(ang))


def perp_to(rng, v):
    while True:
        w = np.cross(v, np.array([rng.uniform(-1, 1) for _ in range(3)]))
        if np.linalg.norm(w) > 1e-3 * np.linalg.norm(v):
            return unit(w)


ANGLES = ["random", "random", "0", "pi", "pi/2", "-pi/2", "near0", "nearpi", "tiny0", "tinypi"]


def pick_angle(rng, kind):
    if kind == "0":
        return 0.0
    if kind == "pi":
        return math.pi
    if kind == "pi/2":
        return math.pi / 2
    if kind == "-pi/2":
        return -math.pi / 2
    if kind == "near0":
        return rng.choice([1, -1]) * 10 ** rng.uniform(-6, -3)
    if kind == "nearpi":
        return rng.choice([1, -1]) * (math.pi - 10 ** rng.uniform(-6, -3))
    if kind == "tiny0":
        return rng.choice([1, -1]) * 10 ** rng.uniform(-9.5, -6)
    if kind == "tinypi":
        return rng.choice([1, -1]) * (math.pi - 10 ** rng.uniform(-9.5, -6))
    return rng.uniform(-math.pi, math.pi)


def stream_b(ctx, rng, n):
    import mofun.helpers as hh
    ops, meta = [], []

    def call(f, *a):
        with warnings.catch_warnings(), np.errstate(all="ignore"):
            warnings.simplefilter("ignore")
            try:
                return [float(x) for x in f(*a).as_quat()]
            except Exception as e:  # noqa   (scipy rejects a zero quaternion)
                return "error:" + type(e).__name__

    for k in range(n):
        # quaternion_from_two_vectors
        p1 = rand_vec(rng)
        if np.linalg.norm(p1) == 0:
            continue
        ak = ANGLES[k % len(ANGLES)]
        if k % 53 == 52:
            p2, ak = np.array([1.0, 0.0, 0.0]), "onto-x"
        elif ak == "0":
            p2 = p1 * rng.choice([1.0, 2.0, 0.3])                      # parallel, exactly
        elif ak == "pi":
            p2 = -p1 * rng.choice([1.0, 2.0, 0.3])                     # antiparallel, exactly
        else:
            p2 = rot_about(perp_to(rng, p1), pick_angle(rng, ak), p1) * rng.choice([1.0, 0.4, 3.0])
        seed = rng.randrange(1 << 31)
        np.random.seed(seed)
        rv = np.random.random(3)
        np.random.seed(seed)
        qc = call(hh.quaternion_from_two_vectors, p1.copy(), p2.copy())
        ops.append({"op": "qftv", "p1": qv(p1), "p2": qv(p2), "rv": qv(rv)})
        meta.append(("qftv", ak, {"p1": p1.tolist(), "p2": p2.tolist(), "rv": rv.tolist()}, qc))
        # quaternion_from_two_vectors_around_axis
        ax = rand_vec(rng)
        if np.linalg.norm(ax) == 0:
            continue
        w = perp_to(rng, ax) * rng.choice([1.0, 0.2, 5.0])
        ak2 = ANGLES[(k // 2) % len(ANGLES)]
        a1 = w + ax * rng.choice([0.0, 0.0, 0.7, -1.3])
        a2 = rot_about(ax, pick_angle(rng, ak2), w) * rng.choice([1.0, 0.5, 2.0]) + ax * rng.choice([0.0, 0.4, -2.0])
        qc2 = call(hh.quaternion_from_two_vectors_around_axis, a1.copy(), a2.copy(), ax.copy())
        ops.append({"op": "qftvaa", "p1": qv(a1), "p2": qv(a2), "axis": qv(ax)})
        meta.append(("qftvaa", ak2, {"p1": a1.tolist(), "p2": a2.tolist(), "axis": ax.tolist()}, qc2))
    # position_index_farthest_from_axis on the library of patterns, every ordered pair of distinct points as the axis
    class _A:  # what the helper reads of an Atoms object
        def __init__(self, pos):
            self.positions = pos
    names = [nm for nm in fl.PATTERNS if len(fl.PATTERNS[nm][0]) > 2]
    for k in range(max(8, n // 6)):
        P = np.array(fl.PATTERNS[rng.choice(names)][1], dtype=float)
        if rng.random() < 0.5:
            P = P @ np.array(fl.rotmat(fl.rat_quat(rng)), dtype=float).T      # another pose of the same pattern
        i, j = rng.sample(range(len(P)), 2)
        tp = P - P[i]
        seed = rng.randrange(1 << 31)
        np.random.seed(seed)
        rv = np.random.random(3)
        np.random.seed(seed)
        with warnings.catch_warnings(), np.errstate(all="ignore"):
            warnings.simplefilter("ignore")
            idx = int(hh.position_index_farthest_from_axis(tp[j].copy(), _A(tp.copy())))
        ops.append({"op": "farthest", "axis": qv(tp[j]), "pos": [qv(v) for v in tp], "rv": qv(rv)})
        meta.append(("farthest", "pattern", {"axis": tp[j].tolist(), "pos": tp.tolist(), "rv": rv.tolist()}, idx))
    return ops, meta


def compare_b(ctx, ops, meta, models):
    for op, (kind, ak, inp, ref), m in zip(ops, meta, models):
        inp = dict(inp, helper=kind, angle_kind=ak)
        if "bad" in m:
            ctx.disagree("quat:" + kind, inp, ref, m, "driver could not read the op: %s" % m["bad"])
            continue
        ctx.case(inp, nontrivial=True)
        if kind == "farthest":
            if m["idx"] == ref:
                ctx.compared += 1
                ctx.count("quat:farthest:compared")
                continue
            ss = sorted((fl_(x) for x in m["ss"]), reverse=True)
            # (axis exactly along +x: the rotation is exactly the identity, nothing is rounded, ties are decided alike)
            if len(ss) > 1 and abs(ss[0] - ss[1]) <= 1e-9 * max(1.0, ss[0]) and fl_(m["angle"]) != 0.0:
                ctx.ambiguous += 1
                ctx.count("quat:farthest:tie-by-rounding")
            else:
                ctx.compared += 1
                ctx.disagree("quat:farthest", inp, ref, m["idx"], "position_index_farthest_from_axis differs")
            continue
        qm = [fl_(x) for x in m["q"]]
        bad_c, bad_m = isinstance(ref, str) or not finite(ref), not finite(qm)
        if bad_c or bad_m:
            # no rotation comes out (nan / scipy refuses a zero quaternion): both sides, or neither
            ctx.compared += 1
            ctx.count("quat:%s:not-a-rotation:%s" % (kind, "both" if bad_c and bad_m else "one-side"))
            if bad_c != bad_m:
                ctx.disagree("quat:" + kind, inp, ref, qm, "one side returns a rotation, the other none")
            continue
        if kind == "qftv":
            ang, cmax, deg = fl_(m["angle"]), fl_(m["cmax"]), bool(m["degenerate"])
            if abs(cmax - 1e-8) < 1e-9 and ang != 0.0:
                ctx.ambiguous += 1
                ctx.count("quat:qftv:window-edge")
                continue
            branch = "antiparallel(random axis)" if (deg and ang > 1.0) else ("tiny-angle(random axis)" if deg else "plain")
            ctx.count("quat:qftv:%s:%s" % (ak, branch))
            tol = TOL
            if not deg and ang > 1.0 and cmax < 1e-6:
                tol = 4 * TOL            # plain branch just outside the window: the axis is a normalised vector of ~1e-8
        else:
            if m.get("margin") is not None and fl_(m["margin"]) < 1e-9:
                ctx.ambiguous += 1
                ctx.count("quat:qftvaa:sign-window-edge")
                continue
            if min(fl_(m["m1"]), fl_(m["m2"])) < 1e-9 * fl_(m["naxis"]) or fl_(m["naxis"]) < 1e-9:
                ctx.ambiguous += 1
                ctx.count("quat:qftvaa:zero-vector")
                continue
            a2 = fl_(m["angle2"])
            ctx.count("quat:qftvaa:%s:%s" % (ak, "angle-exactly-0" if a2 == 0.0 else "angle-exactly-pi" if a2 == math.pi
                                               else ("flip" if m["flip"] else "keep")))
            tol = TOL
        d = float(np.abs(rotmat_of(ref) - rotmat_of(qm)).max())
        ctx.compared += 1
        if d > tol:
            ctx.disagree("quat:" + kind, inp, ref, qm, "rotations differ by %.3g (tolerance %.3g)" % (d, tol))


# ------------------------------------------------------------------ the stream

def run_stream(ctx, n_search=None, n_direct=None):
    """generate, run the real code, run the model at Float through drivers/Quat.lean, compare; returns a summary dict"""
    rng = ctx.rng
    n_search = ctx.n(90, 700) if n_search is None else n_search
    n_direct = ctx.n(600, 6000) if n_direct is None else n_direct
    before = (ctx.compared, ctx.ambiguous, len(ctx.disagreements))
    ops_a, meta_a = stream_a(ctx, rng, n_search)
    ops_b, meta_b = stream_b(ctx, rng, n_direct)
    lean = core.Lean("drivers/Quat.lean")
    models = lean.run(ops_a + ops_b)
    if hasattr(ctx, "lean") and hasattr(ctx.lean, "lines"):
        ctx.lean.lines += lean.lines
    compare_a(ctx, ops_a, meta_a, models[:len(ops_a)])
    compare_b(ctx, ops_b, meta_b, models[len(ops_a):])
    summary = {"ops": len(ops_a) + len(ops_b), "compared": ctx.compared - before[0], "ambiguous": ctx.ambiguous - before[1],
               "disagreements": len(ctx.disagreements) - before[2]}
    ctx.notes.append("rotation construction (Model/QuatHelpers.lean at Float vs helpers.py / mofun.py): %(ops)d driver ops, "
                     "%(compared)d comparisons, %(ambiguous)d near-degenerate inputs set aside, %(disagreements)d disagreements" % summary)
    return summary


if __name__ == "__main__":  # python -m harness.ext_quat [seed] [tier]  — standalone smoke run (driver must be built)
    import json
    import sys
    import time
    from .run import Ctx
    c = Ctx("C02", sys.argv[2] if len(sys.argv) > 2 else "quick", int(sys.argv[1]) if len(sys.argv) > 1 else 0)
    t0 = time.time()
    s = run_stream(c)
    print(json.dumps(s), "wall %.1fs" % (time.time() - t0))
    print(json.dumps({k: v for k, v in sorted(c.dist.items())}, indent=1))
    for d in c.disagreements[:6]:
        print("DISAGREE", d["op"], d["diff"], json.dumps(d["input"], default=str)[:700], "\n   impl:", json.dumps(d["impl"], default=str)[:300],
              "\n  model:", json.dumps(d["model"], default=str)[:300])
