"""Constructor stream for property C09: `mofun.Atoms(**kwargs)` vs. the Lean model `Mofun.Construct.construct`
(lean/MofunModel/Model/Construct.lean, driver lean/drivers/Construct.lean, op "construct").

    run_stream(ctx, valid=None, malformed=None) -> dict (summary)

`ctx` is the harness context (uses ctx.rng, ctx.n, ctx.case, ctx.count, ctx.compare, ctx.fail, ctx.notes).
Generates constructor calls
  * valid: both ways of specifying atom types (`atom_types` + `atom_type_elements`, or per-atom `elements`), with and
    without masses / labels / charges / groups / terms of the four kinds / coefficient tables / extra labels and fields /
    cell; including calls the constructor accepts although the object is NOT consistent (term index outside the atoms,
    type id without table entry, wrong tuple arity) — counted as `unchecked:*`;
  * malformed: every mismatch `assert_arrays_are_consistent_sizes` checks (per-atom lengths, term/type lengths, label and
    mass tables shorter than the element table, extra-field row counts and widths for all five kinds), unknown element
    with and without masses, ragged tuple / field rows, repeated extra labels, and the no-label cases that
    `fix_extra_fields` silently repairs;
runs the real constructor, canonicalises (`core.canon_atoms`) and compares with the model:
  ok  → the whole canonical object;
  err → the coarse class  error:size (a plain `Exception` of the size assertion) | error:key (KeyError from ATOMIC_MASSES)
        | error:shape (anything numpy raises: ValueError, IndexError, TypeError …)
        and, when the message of the size assertion is recognised, WHICH check fired first (`fine`), so the order of the
        checks is tied too; an unrecognised message only loses the fine comparison, never produces a disagreement.
The driver also returns `ctor_ok` = `decide (CtorOk massOf kw)` (the guard of theorem construct_ok_iff); it is compared with
"the real constructor succeeded".
Independent oracle on every object the real constructor returns (the construction clause of C09): one entry per atom in
every per-atom array, one entry per term in every per-term array, extra-field widths = number of labels, label and mass
tables at least as long as the element table; with `elements=` the element an atom resolves to through its type id is the
element it was defined with and the type table is in first-occurrence order without repetition.
"""
import re

from . import core

ELEMS = ["C", "H", "O", "N", "Zr", "Cu", "Si", "Cl", "Zn"]
UNKNOWN = ["Xx", "Q1", "c", ""]
KINDS = [("bond", "bonds", "bond_types", "bond_type_coeffs", 2),
         ("angle", "angles", "angle_types", "angle_type_coeffs", 3),
         ("dihedral", "dihedrals", "dihedral_types", "dihedral_type_coeffs", 4),
         ("improper", "impropers", "improper_types", "improper_type_coeffs", 4)]
FLOAT_KEYS = ("charges", "atom_type_masses")

MODEL_KINDS = (["shape", "key", "len:atom_types", "len:charges", "len:groups", "len:bonds", "len:angles", "len:dihedrals",
                "len:impropers", "len:labels", "len:masses"]
               + ["xrows:" + k for k in ("atom", "bond", "angle", "dihedral", "improper")]
               + ["xwidth:" + k for k in ("atom", "bond", "angle", "dihedral", "improper")])


# ------------------------------------------------------------------ generators (kwargs in wire form: numbers as "n/d")

def dy(rng, lo=-4, hi=4):
    return core.q(rng.randint(lo * 8, hi * 8) / 8.0)


def gen_valid(rng):
    """keyword arguments the constructor accepts (wire form) + feature tags"""
    kw, tags = {}, []
    n = rng.choice([0, 1, 1, 2, 3, 3, 4, 5, 6])
    if n == 0:
        if rng.random() < 0.5:
            kw["cell"] = [[dy(rng, 1, 9), "0", "0"], ["0", dy(rng, 1, 9), "0"], ["0", "0", dy(rng, 1, 9)]]
        for kind, tups, types, coeffs, ar in KINDS:
            if rng.random() < 0.2:
                kw[coeffs] = ["k%d" % i for i in range(rng.randint(1, 2))]
            if rng.random() < 0.2:
                kw["extra_%s_labels" % kind] = ["_l%d" % i for i in range(rng.randint(1, 2))]
        if rng.random() < 0.2:
            kw["extra_atom_labels"] = ["_a"]
        tags.append("mode:empty")
        if rng.random() < 0.6:
            # tables only (since 84d3f69 an atom-less structure keeps the element table it is given; labels default to
            # it, masses are looked up for it): a legitimate starting point that is extended later
            nt = rng.randint(1, 3)
            kw["atom_type_elements"] = [rng.choice(ELEMS) for _ in range(nt)]
            tags.append("empty:type-tables")
            if rng.random() < 0.5:
                kw["atom_type_labels"] = ["L%d_%d" % (i, rng.randint(0, 9)) for i in range(nt + rng.choice([0, 0, 1]))]
                tags.append("labels:given")
            if rng.random() < 0.5:
                kw["atom_type_masses"] = [dy(rng, 1, 200) for _ in range(nt + rng.choice([0, 0, 1]))]
                tags.append("masses:given")
            if rng.random() < 0.4:
                kw["pair_coeffs"] = ["p%d" % i for i in range(nt)]
        return kw, tags
    kw["positions"] = [[dy(rng), dy(rng), dy(rng)] for _ in range(n)]
    mode = rng.choice(["types", "elements", "elements"])
    tags.append("mode:" + mode)
    if mode == "elements":
        pool = rng.sample(ELEMS, rng.randint(1, 3))
        kw["elements"] = [rng.choice(pool) for _ in range(n)]
        nt = len(dict.fromkeys(kw["elements"]))
        if rng.random() < 0.15:
            kw["atom_type_elements"] = ["Zn"]       # ignored by this branch
            tags.append("ignored:atom_type_elements")
    else:
        nt = rng.randint(1, 3)
        if rng.random() < 0.12:
            nt = 0                                   # Atoms(atom_types=[0], positions=[[0,0,0]]) of the docstring
            kw["atom_types"] = [rng.randint(0, 2) for _ in range(n)]
            tags.append("unchecked:no-tables")
        else:
            kw["atom_type_elements"] = [rng.choice(ELEMS) for _ in range(nt)]
            hi = nt - 1
            if rng.random() < 0.1:
                hi = nt + 1
                tags.append("unchecked:type-id")
            kw["atom_types"] = [rng.randint(0, hi) for _ in range(n)]
        if rng.random() < 0.15:
            kw["elements"] = [rng.choice(ELEMS) for _ in range(n)]   # ignored by this branch
            tags.append("ignored:elements")
    if nt > 0 and rng.random() < 0.5:
        kw["atom_type_masses"] = [dy(rng, 1, 200) for _ in range(nt + rng.choice([0, 0, 1]))]
        tags.append("masses:given")
    if nt > 0 and rng.random() < 0.5:
        kw["atom_type_labels"] = ["L%d_%d" % (i, rng.randint(0, 9)) for i in range(nt + rng.choice([0, 0, 2]))]
        tags.append("labels:given")
    if rng.random() < 0.5:
        kw["charges"] = [dy(rng, -2, 2) for _ in range(n)]
    if rng.random() < 0.5:
        kw["groups"] = [rng.randint(-1, 3) for _ in range(n)]
    if rng.random() < 0.4:
        kw["pair_coeffs"] = ["p%d" % i for i in range(max(nt, 1) if rng.random() < 0.8 else 1)]
    if rng.random() < 0.4:
        kw["cell"] = [[dy(rng, 1, 9), "0", "0"], [dy(rng, -2, 2), dy(rng, 1, 9), "0"], [dy(rng, -2, 2), dy(rng, -2, 2), dy(rng, 1, 9)]]
    if rng.random() < 0.4:
        labs = ["_a%d" % i for i in range(rng.randint(1, 2))]
        kw["extra_atom_labels"] = labs
        if rng.random() < 0.6:
            kw["extra_atom_fields"] = [["x%d%d" % (i, j) for j in range(len(labs))] for i in range(n)]
    for kind, tups, types, coeffs, ar in KINDS:
        if rng.random() < (0.6 if kind == "bond" else 0.3):
            m = rng.randint(1, 3)
            hi_atom = n - 1
            if rng.random() < 0.08:
                hi_atom = n + 2
                tags.append("unchecked:term-index")
            arity = ar
            if rng.random() < 0.05:
                arity = ar + 1
                tags.append("unchecked:arity")
            kw[tups] = [[rng.randint(0, hi_atom) for _ in range(arity)] for _ in range(m)]
            kw[types] = [rng.randint(0, 2) for _ in range(m)]
            tags.append("terms:" + kind)
        else:
            m = 0
        r = rng.random()
        if r < 0.35:
            kw[coeffs] = ["%s_k%d  1.5 # c" % (kind, i) for i in range(3)]
        elif r < 0.45:
            kw[coeffs] = ["short"]
            if m:
                tags.append("unchecked:coeffs")
        if rng.random() < 0.3:
            labs = ["_%s%d" % (kind[0], i) for i in range(rng.randint(1, 2))]
            kw["extra_%s_labels" % kind] = labs
            if m and rng.random() < 0.6:
                kw["extra_%s_fields" % kind] = [["y%d%d" % (i, j) for j in range(len(labs))] for i in range(m)]
            tags.append("xlabels:" + kind)
    return kw, tags


def _ntypes(kw):
    if kw.get("atom_types"):
        return len(kw.get("atom_type_elements") or [])
    return len(dict.fromkeys(kw.get("elements") or []))


def _rows_for(kw, kind):
    if kind == "atom":
        return len(kw.get("atom_types") or kw.get("elements") or [])
    return len(kw.get(kind + "_types") or [])


def mutations(rng):
    """each entry: name, function kw -> bool (True when applied)"""

    def drop_type(kw):
        key = "atom_types" if kw.get("atom_types") else "elements"
        if not kw.get(key):
            return False
        kw[key] = kw[key][:-1] if rng.random() < 0.5 else kw[key] + [kw[key][0]]
        return True

    def no_types(kw):
        if not kw.get("positions"):
            return False
        kw.pop("atom_types", None)
        kw.pop("elements", None)
        return True

    def bad_len(key, mk):
        def f(kw):
            n = len(kw.get("positions") or [])
            if n == 0:
                return False
            k = rng.choice([x for x in (1, n - 1, n + 1, n + 2) if x > 0 and x != n])
            kw[key] = [mk() for _ in range(k)]
            return True
        return f

    def kind_len(tups, types, ar):
        def f(kw):
            n = len(kw.get("positions") or [])
            if n == 0:
                return False
            if not kw.get(tups):
                kw[tups] = [[rng.randint(0, n - 1) for _ in range(ar)] for _ in range(2)]
                kw[types] = [0, 0]
            if rng.random() < 0.5:
                kw[types] = kw[types][:-1]
                if not kw[types] and rng.random() < 0.5:
                    kw.pop(types)
            else:
                kw[types] = kw[types] + [1]
            return True
        return f

    def short_table(key):
        def f(kw):
            nt = _ntypes(kw)
            if nt < 2:
                return False
            cur = kw.get(key) or (["T%d" % i for i in range(nt)] if key == "atom_type_labels" else [dy(rng, 1, 50) for _ in range(nt)])
            kw[key] = cur[:rng.randint(1, nt - 1)]
            return True
        return f

    def unknown_elem(keep_masses):
        def f(kw):
            if kw.get("atom_types"):
                if not kw.get("atom_type_elements"):
                    return False
                tbl = list(kw["atom_type_elements"])
                tbl[rng.randrange(len(tbl))] = rng.choice(UNKNOWN)
                kw["atom_type_elements"] = tbl
            elif kw.get("elements"):
                els = list(kw["elements"])
                els[rng.randrange(len(els))] = rng.choice(UNKNOWN)
                kw["elements"] = els
            else:
                return False
            if keep_masses:
                kw["atom_type_masses"] = [dy(rng, 1, 50) for _ in range(_ntypes(kw))]
            else:
                kw.pop("atom_type_masses", None)
            return True
        return f

    def xf(kind, how):
        lab_key, f_key = "extra_%s_labels" % kind, "extra_%s_fields" % kind

        def f(kw):
            if kind != "atom" and not kw.get(kind + "_types"):
                n = len(kw.get("positions") or [])
                if n == 0:
                    return False
                ar = dict((k[0], k[4]) for k in KINDS)[kind]
                kw[kind + "s"] = [[rng.randint(0, n - 1) for _ in range(ar)] for _ in range(2)]
                kw[kind + "_types"] = [0, 1]
            m = _rows_for(kw, kind)
            if how == "rows":            # labels, wrong number of rows
                labs = kw.get(lab_key) or ["_z"]
                kw[lab_key] = labs
                k = rng.choice([x for x in (1, m - 1, m + 1) if x > 0 and x != m])
                kw[f_key] = [["v"] * len(labs) for _ in range(k)]
            elif how == "width":         # labels, right rows, wrong width
                if m == 0:
                    return False
                labs = kw.get(lab_key) or ["_z"]
                kw[lab_key] = labs
                w = rng.choice([x for x in (0, len(labs) - 1, len(labs) + 1) if x >= 0 and x != len(labs)])
                kw[f_key] = [["v"] * w for _ in range(m)]
            elif how == "ragged":
                if m < 2:
                    return False
                labs = kw.get(lab_key) or ["_z", "_y"]
                kw[lab_key] = labs
                kw[f_key] = [["v"] * len(labs) for _ in range(m)]
                kw[f_key][rng.randrange(m)] = ["v"] * (len(labs) + 1)
            elif how == "nolabel-width":  # no labels, right rows, columns present
                if m == 0:
                    return False
                kw.pop(lab_key, None)
                kw[f_key] = [["v"] for _ in range(m)]
            elif how == "nolabel-rows":   # no labels, wrong rows: silently repaired
                kw.pop(lab_key, None)
                kw[f_key] = [["v"] * rng.randint(0, 2) for _ in range(m + 1)]
            elif how == "nolabel-empty":  # no labels, right rows, no columns: accepted as is
                if m == 0:
                    return False
                kw.pop(lab_key, None)
                kw[f_key] = [[] for _ in range(m)]
            elif how == "dup-default":    # repeated label, default fields
                kw[lab_key] = ["_d", "_d"] if rng.random() < 0.5 else ["_d", "_e", "_d"]
                kw.pop(f_key, None)
            elif how == "dup-given":      # repeated label, fields as wide as the distinct labels: accepted
                if m == 0:
                    return False
                kw[lab_key] = ["_d", "_e", "_d"]
                kw[f_key] = [["v", "w"] for _ in range(m)]
            return True
        return f

    def ragged_tuples(tups, types, ar):
        def f(kw):
            n = len(kw.get("positions") or [])
            if n == 0:
                return False
            kw[tups] = [[0] * ar, [0] * (ar + 1)]
            kw[types] = [0, 0]
            return True
        return f

    out = [("atom_types-length", drop_type), ("no-types", no_types),
           ("charges-length", bad_len("charges", lambda: dy(rng, -2, 2))),
           ("groups-length", bad_len("groups", lambda: rng.randint(0, 3))),
           ("labels-short", short_table("atom_type_labels")), ("masses-short", short_table("atom_type_masses")),
           ("unknown-element", unknown_elem(False)), ("unknown-element-with-masses", unknown_elem(True))]
    for kind, tups, types, coeffs, ar in KINDS:
        out.append((types + "-length", kind_len(tups, types, ar)))
        out.append((tups + "-ragged", ragged_tuples(tups, types, ar)))
    for kind in ("atom", "bond", "angle", "dihedral", "improper"):
        for how in ("rows", "width", "ragged", "nolabel-width", "nolabel-rows", "nolabel-empty", "dup-default", "dup-given"):
            out.append(("x-%s-%s" % (kind, how), xf(kind, how)))
    return out


def gen_malformed(rng, i, muts):
    """a valid call with one (sometimes two) of the mutations; the mutation kinds are cycled so that every one occurs"""
    for _ in range(50):
        kw, tags = gen_valid(rng)
        tags = [t for t in tags if not t.startswith("mode:")]
        name, f = muts[i % len(muts)]
        if not f(kw):
            continue
        names = [name]
        if rng.random() < 0.25:
            name2, f2 = rng.choice(muts)
            if f2(kw):
                names.append(name2)
        return kw, ["mut:" + x for x in names]
    return gen_valid(rng)


# ------------------------------------------------------------------ real code

def to_py(kw):
    """wire form -> what a caller passes"""
    out = {}
    for k, v in kw.items():
        if v is None:
            continue
        if k == "positions" or k == "cell":
            out[k] = [[float(core.unq(x)) for x in row] for row in v]
        elif k in FLOAT_KEYS:
            out[k] = [float(core.unq(x)) for x in v]
        else:
            out[k] = [list(x) if isinstance(x, list) else x for x in v]
    return out


FINE = [(re.compile(r"len of positions \(\d+\) and atom types"), "len:atom_types"),
        (re.compile(r"len of positions \(\d+\) and charges"), "len:charges"),
        (re.compile(r"len of positions \(\d+\) and groups"), "len:groups"),
        (re.compile(r"len of bonds and bond types"), "len:bonds"),
        (re.compile(r"len of angles and angle types"), "len:angles"),
        (re.compile(r"len of dihedrals and dihedral_types"), "len:dihedrals"),
        (re.compile(r"len of impropers and improper_types"), "len:impropers"),
        (re.compile(r"len of atom_type_labels"), "len:labels"),
        (re.compile(r"len of atom_type_masses"), "len:masses"),
        (re.compile(r"len of extra_(\w+?)_labels \(\d+\) and the width of"), "xwidth:%s"),
        (re.compile(r"len of extra_(\w+?)_fields \(\d+\) and \w+ \(\d+\) must match"), "xrows:%s")]


def classify(exc):
    """(coarse class, which size check fired or None)"""
    if type(exc) is KeyError:
        return "error:key", None
    if type(exc) is Exception:
        msg = str(exc)
        for rx, kind in FINE:
            m = rx.search(msg)
            if m:
                return "error:size", (kind % m.group(1) if "%s" in kind else kind)
        return "error:size", None
    return "error:shape", None


def respell(py, how):
    """the same keyword arguments in another public spelling (the model sees the wire form): per-atom `elements` as a
    formula string ("CHHH", only where the string parses back to the same list), tuples, numpy arrays, integer-typed
    coordinates are left to the generator (positions are dyadic)"""
    import numpy as np
    out = dict(py)
    if how == "formula" and out.get("elements"):
        try:
            from ase.formula import Formula
            txt = "".join(out["elements"])
            if list(Formula(txt)) == list(out["elements"]):
                out["elements"] = txt
        except Exception:  # noqa
            pass
    elif how == "tuple":
        for k in ("elements", "atom_types", "charges", "groups", "atom_type_elements", "atom_type_labels"):
            if out.get(k):
                out[k] = tuple(out[k])
    elif how == "array":
        for k, dt in (("elements", None), ("atom_types", int), ("charges", float), ("groups", int), ("atom_type_elements", None),
                      ("atom_type_masses", float), ("positions", float)):
            if out.get(k):
                out[k] = np.array(out[k], dtype=dt) if dt else np.array(out[k])
    return out


def run_real(kw, how=None):
    """-> ({"ok": canonical} | {"err": coarse, "fine": kind|None}, the object or None)"""
    from mofun import Atoms
    try:
        with core.quiet():
            a = Atoms(**respell(to_py(kw), how))
            return {"ok": core.canon_atoms(a)}, a
    except BaseException as e:  # noqa
        if isinstance(e, (KeyboardInterrupt, SystemExit)):
            raise
        c, fine = classify(e)
        return {"err": c, "fine": fine}, None


def model_result(m):
    """driver answer -> the same shape as run_real's"""
    if "ok" in m:
        return {"ok": m["ok"]}
    e = m.get("err", "")
    kind = e[len("reject:"):] if e.startswith("reject:") else e
    if kind == "key":
        return {"err": "error:key", "fine": None}
    if kind == "shape":
        return {"err": "error:shape", "fine": None}
    return {"err": "error:size", "fine": kind}


# ------------------------------------------------------------------ oracle (independent of the model)

def oracle(a, kw):
    """construction clause of C09 on the object the real constructor returned; -> list of complaints"""
    bad = []
    n = len(a.positions)
    for name in ("atom_types", "charges", "groups", "extra_atom_fields"):
        if len(getattr(a, name)) != n:
            bad.append("%s has %d entries for %d atoms" % (name, len(getattr(a, name)), n))
    pairs = [("atom", n)] + [(k[0], len(getattr(a, k[1]))) for k in KINDS]
    for kind, tups, types, coeffs, ar in KINDS:
        if len(getattr(a, tups)) != len(getattr(a, types)):
            bad.append("%s and %s differ in length" % (tups, types))
    for kind, m in pairs:
        f = getattr(a, "extra_%s_fields" % kind)
        labs = getattr(a, "extra_%s_labels" % kind)
        shape = getattr(f, "shape", None)
        if shape is None or len(shape) != 2 or shape[0] != m or shape[1] != len(labs):
            bad.append("extra_%s_fields has shape %s for %d rows and %d labels" % (kind, shape, m, len(labs)))
    ne = len(a.atom_type_elements)
    if len(a.atom_type_labels) < ne or len(a.atom_type_masses) < ne:
        bad.append("label / mass table shorter than the element table")
    if not kw.get("atom_types") and kw.get("elements"):
        els = list(kw["elements"])
        tbl = list(a.atom_type_elements)
        try:
            resolved = [tbl[int(t)] for t in a.atom_types]
        except Exception:
            resolved = None
        if resolved != els:
            bad.append("elements do not resolve to what was passed: %s vs %s" % (resolved, els))
        if tbl != list(dict.fromkeys(els)):
            bad.append("element table is not the distinct elements in first-occurrence order: %s" % (tbl,))
    return bad


# ------------------------------------------------------------------ the stream

def run_stream(ctx, valid=None, malformed=None):
    """generate, run the real constructor, compare with the model; returns a summary dict"""
    rng = ctx.rng
    n_valid = ctx.n(300, 3000) if valid is None else valid
    n_bad = ctx.n(450, 3000) if malformed is None else malformed
    muts = mutations(rng)
    cases = []
    for i in range(n_valid):
        kw, tags = gen_valid(rng)
        cases.append(("valid", kw, tags))
    for i in range(n_bad):
        kw, tags = gen_malformed(rng, i, muts)
        cases.append(("malformed", kw, tags))
    impl, ops = [], []
    for stream, kw, tags in cases:
        how = rng.choice([None, None, "formula", "tuple", "array"]) if stream == "valid" else None
        if how:
            ctx.count("construct:spelling:" + how)
        r, a = run_real(kw, how)
        impl.append(r)
        inp = {"op": "construct", "kw": kw}
        ops.append(inp)
        ctx.case(inp, nontrivial=bool(kw.get("positions")))
        ctx.count("construct:" + stream)
        for t in tags:
            ctx.count("construct:" + t)
        if a is not None:
            ctx.count("construct:result:ok")
            bad = oracle(a, kw)
            if bad:
                ctx.fail("constructor returned an inconsistent object: " + bad[0], inp, observed=bad,
                         required="consistent per-atom / per-term arrays; elements resolve to what was passed",
                         tags=["construct"])
        else:
            ctx.count("construct:result:%s" % (r["fine"] or r["err"]))
        if stream == "valid" and a is None:
            ctx.count("construct:valid-rejected")
    lean = core.Lean("drivers/Construct.lean")
    model = lean.run(ops)
    if hasattr(ctx, "lean") and hasattr(ctx.lean, "lines"):
        ctx.lean.lines += lean.lines
    dis = 0
    seen = set()
    for inp, r, m in zip(ops, impl, model):
        if "bad" in m:
            ctx.disagree("construct", inp, r, m, "driver could not read the op: %s" % m["bad"])
            dis += 1
            continue
        guard = m.pop("ctor_ok", None)
        mr = model_result(m)
        if "err" in m:
            seen.add(m["err"][len("reject:"):])
        if "err" in r and "err" in mr and r["fine"] is None:
            mr = dict(mr, fine=None)            # message not recognised (or not a size error): coarse comparison only
        if not ctx.compare("construct", inp, r, mr):
            dis += 1
        if guard is not None and guard != ("ok" in r):
            ctx.disagree("construct-guard", inp, {"ok": "ok" in r}, {"ctor_ok": guard},
                         "CtorOk (guard of construct_ok_iff) differs from 'the real constructor succeeded'")
            dis += 1
    missing = [k for k in MODEL_KINDS if k not in seen]
    if missing and n_bad >= 400:
        ctx.notes.append("constructor stream: error kinds of the model that no generated case reached: %s" % ", ".join(missing))
    summary = {"cases": len(cases), "valid": n_valid, "malformed": n_bad, "disagreements": dis,
               "ok": sum(1 for r in impl if "ok" in r), "errors": sum(1 for r in impl if "err" in r),
               "error_kinds_seen": sorted(seen)}
    ctx.notes.append("constructor stream: %(cases)d calls compared (%(ok)d accepted, %(errors)d rejected), %(disagreements)d disagreements" % summary)
    return summary


if __name__ == "__main__":  # python -m harness.ext_construct [seed]  — standalone smoke run (driver must be built)
    import json
    import sys
    from .run import Ctx
    c = Ctx("C09", "quick", int(sys.argv[1]) if len(sys.argv) > 1 else 0)
    s = run_stream(c)
    print(json.dumps(s, indent=1))
    print(json.dumps({k: v for k, v in sorted(c.dist.items())}, indent=1))
    for d in c.disagreements[:5]:
        print("DISAGREE", d["diff"], json.dumps(d["input"])[:600], "\n   impl:", json.dumps(d["impl"])[:300], "\n  model:", json.dumps(d["model"])[:300])
    for f in c.failures[:5]:
        print("FAIL", f["what"], json.dumps(f["input"])[:600])
