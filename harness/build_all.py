"""`python -m harness.build_all` — setup: regenerate the tables and build every module any claimed check needs."""
import glob
import json
import os
import sys

from . import core, gen_tables, gen_code


def main():
    gen_tables.regenerate()
    gen_code.regenerate()
    mods = ["MofunModel"]
    for p in sorted(glob.glob(os.path.join(core.LEAN, "theorems", "C*.json")) + glob.glob(os.path.join(core.LEAN, "theorems", "extra", "C*.json"))):
        m = json.load(open(p))
        for x in list(m.get("modules", [])) + list(m.get("driver_modules", [])):
            if x not in mods:
                mods.append(x)
    b = core.lake_build(mods)
    lines = [l for l in b.log.split("\n") if not l.startswith("trace:")]
    print("\n".join(lines[-40:]))
    return 0 if b.ok else 1


if __name__ == "__main__":
    sys.exit(main())
