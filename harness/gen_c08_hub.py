"""C08, HUB stream: DISTINCT occurrences of a site pattern that SHARE an atom which the substitution leaves unchanged.

A hub atom (a methyl / methylene carbon, a metal node) carries 2–4 arms; every arm is an exact rigid image of the site
pattern A = hub + 1 or 2 arm atoms, so the structure holds one occurrence of A PER ARM and all occurrences of one hub share
the hub atom.  B is A with ONE ARM ATOM substituted by an element the structure does not contain (in place, or — terminal atom
— moved outwards along its bond, C–H → C–F); the hub has the same element and coordinates in A and B, so it is kept and no atom
is deleted twice.  The hub may stand at ANY position of the pattern's atom list (first, middle, last).

Ground truth by construction, confirmed by brute force inside the generator (`occurrences`): the index tuples whose elements
fit and whose pairwise minimum-image distances all agree with the pattern's within a wide margin (4·atol + 0.05 Å) are
exactly the planted arms — in the structure as generated (pattern A) and in the ideal substituted structure (pattern B).
The cases have the shape of the EXACT stream (op "c08-exact", mode "aba") and are judged by the same oracle:
number replaced = number of planted occurrences (× replace_fraction), after A→B no A is found, B→A finds as many, the
(element, position mod lattice) multiset is restored up to rounding noise.
"""
import itertools
import math

import numpy as np

from . import findlib
from . import gen_replace_c05 as G

HUBS = ["C", "Si", "Zr", "N", "Cu"]
ARM1 = ["H", "O", "N", "C", "Cl"]
ARM2 = ["H", "C", "O"]
NEW = ["F", "S", "P", "Br", "Se"]
SPECTATORS = ["Ar", "Kr", "Xe", "Ne"]


def rand_rotation(rng):
    while True:
        q = np.array([rng.gauss(0, 1) for _ in range(4)])
        if np.linalg.norm(q) > 1e-3:
            break
    x, y, z, w = q / np.linalg.norm(q)
    return np.array([[1 - 2 * (y * y + z * z), 2 * (x * y - z * w), 2 * (x * z + y * w)],
                     [2 * (x * y + z * w), 1 - 2 * (x * x + z * z), 2 * (y * z - x * w)],
                     [2 * (x * z - y * w), 2 * (y * z + x * w), 1 - 2 * (x * x + y * y)]])


def min_image_dist(a, b, cell, cinv):
    f = (np.asarray(a) - np.asarray(b)).dot(cinv)
    f -= np.round(f)
    best = None
    # the rounded image is the nearest one for the moderately skewed cells used here up to a neighbouring shift: scan them
    for s in itertools.product((-1, 0, 1), repeat=3):
        d = float(np.linalg.norm((f + np.array(s)).dot(cell)))
        best = d if best is None or d < best else best
    return best


def occurrences(elems, pos, cell, pel, ppos, margin):
    """brute force: all index tuples (distinct atoms, elements as in the pattern) whose pairwise minimum-image distances
    all agree with the pattern's within `margin`"""
    cinv = np.linalg.inv(cell)
    n, m = len(elems), len(pel)
    pp = np.array(ppos, dtype=float)
    pd = [[float(np.linalg.norm(pp[i] - pp[j])) for j in range(m)] for i in range(m)]
    dist = [[min_image_dist(pos[i], pos[j], cell, cinv) if i < j else 0.0 for j in range(n)] for i in range(n)]
    for i in range(n):
        for j in range(i):
            dist[i][j] = dist[j][i]
    out = []

    def rec(t):
        k = len(t)
        if k == m:
            out.append(tuple(t))
            return
        for i in range(n):
            if elems[i] != pel[k] or i in t:
                continue
            if all(abs(dist[i][t[j]] - pd[k][j]) <= margin for j in range(k)):
                rec(t + [i])
    rec([])
    return out


def make_hub_case(rng, tier="quick"):
    for attempt in range(200):
        case = _try_hub_case(rng, tier)
        if case is not None:
            return case
    raise RuntimeError("gen_c08_hub: no admissible hub structure in 200 attempts")


def _try_hub_case(rng, tier):
    arm_len = rng.choice([1, 1, 2])
    hub_el = rng.choice(HUBS)
    a1 = rng.choice([e for e in ARM1 if e != hub_el])
    a2 = rng.choice([e for e in ARM2 if e not in (hub_el, a1)])
    atol = rng.choice([0.05, 0.05, 0.02, 0.1, 0.01])
    d1 = rng.randint(16, 26) / 16.0                     # 1.0 … 1.625 Å
    d2 = rng.randint(14, 20) / 16.0
    theta = math.radians(rng.uniform(100.0, 125.0))     # hub–a1–a2 angle
    # the pattern in its own frame: hub, a1 (, a2); then posed and shifted arbitrarily, atoms listed in a random order
    base = [np.zeros(3), np.array([d1, 0.0, 0.0])]
    bel0 = [hub_el, a1]
    if arm_len == 2:
        base.append(base[1] + d2 * np.array([-math.cos(theta), math.sin(theta), 0.0]))
        bel0.append(a2)
    m = len(base)
    hub_at = rng.choice(["first", "first", "last", "any"])
    order = list(range(m))
    if hub_at == "last":
        order = order[1:] + [0]
        if rng.random() < 0.5:
            order = order[:-1][::-1] + [0]
    elif hub_at == "any":
        rng.shuffle(order)
    hub_k = order.index(0)                               # position of the hub in the pattern's atom list
    Rp = rand_rotation(rng) if rng.random() < 0.7 else np.identity(3)
    shift = np.array([G.dyad(rng, -3, 3) for _ in range(3)]) if rng.random() < 0.7 else np.zeros(3)
    pel = [bel0[k] for k in order]
    pp = np.array([Rp.dot(base[k]) + shift for k in order])
    # B: one arm atom substituted by an element the structure does not contain; a terminal atom may move outwards on its bond
    new_el = rng.choice(NEW)
    sub0 = rng.randrange(1, m)                           # index in the own frame (never the hub)
    sub_k = order.index(sub0)
    bel = list(pel)
    bel[sub_k] = new_el
    bp = pp.copy()
    rp_kind = "hub:subst"
    if sub0 == m - 1 and rng.random() < 0.5:
        along = pp[sub_k] - pp[order.index(sub0 - 1)]
        bp[sub_k] = pp[sub_k] + along / np.linalg.norm(along) * rng.randint(2, 6) / 16.0      # 0.125 … 0.375 Å further out
        rp_kind = "hub:subst+stretch"
    reach = d1 + (d2 if arm_len == 2 else 0.0) + 0.4
    cell_kind = rng.choice(["ortho", "tri+", "tri-", "rot"])
    for _ in range(20):
        cell = np.array([[float(v) for v in row] for row in findlib.make_cell(rng, cell_kind, max(8.0, 4 * reach + 2))])
        if min(findlib.perp_widths(cell)) > 4 * reach + 1.0:
            break
    else:
        return None
    cinv = np.linalg.inv(cell)
    margin = 4 * atol + 0.05

    elems, pos, ideal_b_el, ideal_b_pos, planted = [], [], [], [], []
    nhubs = rng.randint(1, 2)
    centres = []
    for h in range(nhubs):
        for _ in range(50):
            boundary = rng.random() < 0.4
            fr = [rng.choice([0.0, 0.01, 0.5, 0.98, 0.999]) if boundary and rng.random() < 0.7 else rng.random() for _ in range(3)]
            c = np.array(fr).dot(cell)
            if all(min_image_dist(c, x, cell, cinv) > 2 * reach + 0.8 for x in centres):
                break
        else:
            return None
        centres.append(c)
        k = rng.randint(2, 4) if h == 0 else rng.randint(1, 4)
        arms = []                                        # per arm: (A positions in pattern order, B positions in pattern order)
        for _ in range(400):
            R = rand_rotation(rng)
            pa = [c + R.dot(p - pp[hub_k]) for p in pp]
            pb = [c + R.dot(p - pp[hub_k]) for p in bp]
            own = [x for j, x in enumerate(pa) if j != hub_k] + [pb[sub_k]]
            others = [x for (qa, qb) in arms for j, x in enumerate(qa) if j != hub_k] + [qb[sub_k] for (qa, qb) in arms]
            if all(np.linalg.norm(x - y) > 0.9 for x in own for y in others):
                arms.append((pa, pb))
            if len(arms) == k:
                break
        if len(arms) < 2 and h == 0:
            return None
        hub_index = len(elems)
        elems.append(hub_el); pos.append(c)
        ideal_b_el.append(hub_el); ideal_b_pos.append(c)
        per_arm = []
        for (pa, pb) in arms:
            idx = {}
            for j in range(m):
                if j == hub_k:
                    idx[j] = hub_index
                    continue
                idx[j] = len(elems)
                elems.append(pel[j]); pos.append(pa[j])
                ideal_b_el.append(bel[j]); ideal_b_pos.append(pb[j])
            per_arm.append([idx[j] for j in range(m)])
        planted.extend(per_arm)
    for _ in range(rng.randint(0, 3)):
        for _ in range(30):
            v = np.array([rng.random() for _ in range(3)]).dot(cell)
            if all(min_image_dist(v, x, cell, cinv) > 2.2 for x in pos + ideal_b_pos):
                e = rng.choice(SPECTATORS)
                elems.append(e); pos.append(v)
                ideal_b_el.append(e); ideal_b_pos.append(v)
                break
    # atom order: arms of one hub interleaved with everything else (the hub need not come first in the structure)
    perm = list(range(len(elems)))
    if rng.random() < 0.7:
        rng.shuffle(perm)
    inv = {old: new for new, old in enumerate(perm)}
    elems = [elems[o] for o in perm]
    pos = [pos[o] for o in perm]
    ideal_b_el = [ideal_b_el[o] for o in perm]
    ideal_b_pos = [ideal_b_pos[o] for o in perm]
    planted = [[inv[i] for i in t] for t in planted]
    # brute-force confirmation of the ground truth, before and after the substitution
    if sorted(occurrences(elems, pos, cell, pel, pp, margin)) != sorted(tuple(t) for t in planted):
        return None
    if sorted(occurrences(ideal_b_el, ideal_b_pos, cell, bel, bp, margin)) != sorted(tuple(t) for t in planted):
        return None
    if occurrences(ideal_b_el, ideal_b_pos, cell, pel, pp, margin):
        return None

    def wrap(v):
        f = np.asarray(v).dot(cinv) % 1.0
        f[f >= 1.0] = 0.0
        return f.dot(cell)
    unwrapped = rng.random() < 0.15
    pos = [np.asarray(x) if unwrapped else wrap(x) for x in pos]
    n = len(elems)
    sj = findlib.struct_json(elems, [[float(v) for v in x] for x in pos], [[float(v) for v in row] for row in cell],
                             charges=[(i + 1) / 16.0 for i in range(n)], groups=[rng.randint(0, 3) for _ in range(n)])
    aj = G.pattern_atoms_json(pel, [[float(v) for v in p] for p in pp])
    bj = G.pattern_atoms_json(bel, [[float(v) for v in p] for p in bp])
    case = {"op": "c08-exact", "mode": "aba", "s": sj, "a": aj, "b": bj, "atol": atol, "seed": rng.randrange(10 ** 6),
            "planted": planted,
            "info": {"cell": cell_kind, "offdiag": None, "pattern": "hub%d-arm%d" % (hub_k, arm_len), "boundary": "hub",
                     "rp": rp_kind, "copies": len(planted), "poses": ["hub-shared"], "atol": atol, "unwrapped": unwrapped,
                     "hub_at": hub_k, "hubs": nhubs, "pattern_elems": pel}}
    if rng.random() < 0.25 and len(planted) >= 2:
        case["fraction"] = rng.choice([0.5, 0.34, 0.75])
    return case
