"""Translator for data (DESIGN.md §3a): the tables of /repo are re-read from the SOURCE TEXT on every run and
written as Lean literals with exact decimals (mantissa, decimal exponent). Parsed with `ast`, not imported."""
import ast
import os
import re

from . import core

OUT = os.path.join(core.LEAN, "MofunModel", "Generated")


def _dec(src, node):
    """numeric literal (possibly negated) -> (mantissa:int, exp:int) with value = mantissa / 10**exp, from the source text"""
    neg = False
    if isinstance(node, ast.UnaryOp) and isinstance(node.op, ast.USub):
        neg, node = True, node.operand
    if not isinstance(node, ast.Constant) or not isinstance(node.value, (int, float)) or isinstance(node.value, bool):
        raise ValueError("numeric literal expected at line %d" % node.lineno)
    text = ast.get_source_segment(src, node).strip().replace("_", "")
    m = re.fullmatch(r"(\d*)\.?(\d*)(?:[eE]([+-]?\d+))?", text)
    if not m or (m.group(1) == "" and m.group(2) == ""):
        raise ValueError("unsupported numeric literal %r" % text)
    ip, fp, ex = m.group(1) or "", m.group(2) or "", int(m.group(3) or 0)
    mant = int((ip + fp) or "0")
    e = len(fp) - ex
    if e < 0:
        mant, e = mant * 10 ** (-e), 0
    return (-mant if neg else mant, e)


def _find_assign(tree, name):
    for node in tree.body:
        if isinstance(node, ast.Assign) and any(isinstance(t, ast.Name) and t.id == name for t in node.targets):
            return node.value
    raise ValueError("assignment to %s not found" % name)


def _str(node):
    if isinstance(node, ast.Constant) and isinstance(node.value, str):
        return node.value
    raise ValueError("string literal expected at line %d" % node.lineno)


def _dictlit(pairs):
    """python dict-literal semantics: a repeated key keeps its first position and takes the last value"""
    return list(dict(pairs).items())


def read_tables(repo=None):
    repo = repo or core.REPO
    out = {}
    src = open(os.path.join(repo, "mofun", "atomic_masses.py")).read()
    d = _find_assign(ast.parse(src), "ATOMIC_MASSES")
    out["masses"] = _dictlit([(_str(k), _dec(src, v)) for k, v in zip(d.keys, d.values)])
    src = open(os.path.join(repo, "mofun", "detect_bonds.py")).read()
    tree = ast.parse(src)
    d = _find_assign(tree, "COVALENT_RADII")
    out["radii"] = _dictlit([(_str(k), _dec(src, v)) for k, v in zip(d.keys, d.values)])
    out["nonmetals"] = [_str(e) for e in _find_assign(tree, "NON_METALS").elts]
    src = open(os.path.join(repo, "mofun", "uff4mof.py")).read()
    tree = ast.parse(src)
    d = _find_assign(tree, "UFF4MOF")
    out["uff"] = _dictlit([(_str(k), [_dec(src, e) for e in v.elts]) for k, v in zip(d.keys, d.values)])
    out["maingroup"] = [_str(e) for e in _find_assign(tree, "MAIN_GROUP_ELEMENTS").elts]
    return out


def _lean_dec(d):
    return "⟨%d, %d⟩" % d


def _lean_str(s):
    return '"' + s.replace("\\", "\\\\").replace('"', '\\"') + '"'


def render(t):
    files = {}
    hdr = "/- GENERATED on every run by harness/gen_tables.py from the sources of /repo — do not edit. -/\nimport MofunModel.Model.Basic\nnamespace Mofun.Generated\nopen Mofun\n\n"
    body = "/-- mofun/atomic_masses.py: ATOMIC_MASSES, in source order -/\ndef atomicMasses : List (String × Dec) := [\n"
    body += ",\n".join("  (%s, %s)" % (_lean_str(k), _lean_dec(v)) for k, v in t["masses"]) + "]\n"
    files["Masses.lean"] = hdr + body + "\nend Mofun.Generated\n"
    body = "/-- mofun/detect_bonds.py: COVALENT_RADII, in source order -/\ndef covalentRadii : List (String × Dec) := [\n"
    body += ",\n".join("  (%s, %s)" % (_lean_str(k), _lean_dec(v)) for k, v in t["radii"]) + "]\n\n"
    body += "/-- mofun/detect_bonds.py: NON_METALS -/\ndef nonMetals : List String := [" + ", ".join(_lean_str(s) for s in t["nonmetals"]) + "]\n"
    files["Radii.lean"] = hdr + body + "\nend Mofun.Generated\n"
    body = "/-- mofun/uff4mof.py: UFF4MOF, in source order; columns r1 theta0 x1 D1 zeta Z1 Vi Uj Xi Hard Radius -/\ndef uff4mof : List (String × List Dec) := [\n"
    body += ",\n".join("  (%s, [%s])" % (_lean_str(k), ", ".join(_lean_dec(x) for x in v)) for k, v in t["uff"]) + "]\n\n"
    body += "/-- mofun/uff4mof.py: MAIN_GROUP_ELEMENTS -/\ndef mainGroupElements : List String := [" + ", ".join(_lean_str(s) for s in t["maingroup"]) + "]\n"
    files["Uff.lean"] = hdr + body + "\nend Mofun.Generated\n"
    return files


def regenerate(repo=None):
    """rewrite lean/MofunModel/Generated/*.lean when (and only when) their content changes"""
    files = render(read_tables(repo))
    os.makedirs(OUT, exist_ok=True)
    changed = []
    for name, text in files.items():
        p = os.path.join(OUT, name)
        if not os.path.exists(p) or open(p).read() != text:
            tmp = p + ".tmp%d" % os.getpid()
            with open(tmp, "w") as f:
                f.write(text)
            os.replace(tmp, p)
            changed.append(name)
    return changed


if __name__ == "__main__":
    print(regenerate())
