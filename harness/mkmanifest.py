"""Regenerates MANIFEST.json from lean/theorems/C*.json (one file per claimed property)."""
import glob
import json
import os

from . import core

ALL = ["C%02d" % i for i in range(1, 21)]
PENDING_REASON = "no check registered yet in this revision (model/theorems/correspondence for it are still being built); nothing is claimed"


def main():
    checks, claimed = [], []
    ready = json.load(open(os.path.join(core.VERIF, "claimed.json")))  # property ids integrated and verified green
    for p in sorted(glob.glob(os.path.join(core.LEAN, "theorems", "C*.json"))):
        pid = os.path.basename(p)[:-5]
        from .run import load_meta
        m = load_meta(pid)
        if m.get("disabled") or pid not in ready:
            continue
        claimed.append(pid)
        names = [t["name"].replace("Mofun.", "") for t in m["theorems"]]
        partial = [t["name"].replace("Mofun.", "") for t in m["theorems"] if t.get("status") != "full"]
        text = m.get("level_text") or ("Lean 4 theorems about the executable model (%s), re-checked by lake build + #print axioms on every "
                                       "run, plus a correspondence run of the model against the real code and an independent property "
                                       "oracle on the real code." % ", ".join(names))
        if partial:
            text += " Partial theorems: %s." % ", ".join(partial)
        checks.append({
            "property_id": pid,
            "quick_cmd": "./check %s --tier quick" % pid,
            "thorough_cmd": "./check %s --tier thorough" % pid,
            "evidence_file": "evidence/%s.json" % pid,
            "replay_cmd_template": "./check %s --replay {path}" % pid,
            "engine": "lean-model+correspondence",
            "level_claimed": {"category": "proof", "text": text, "design_ref": m.get("design_ref", "DESIGN.md §7 " + pid)},
            "level_note": m.get("level_note") or ("Trusted: Lean kernel + axioms propext/Classical.choice/Quot.sound; the hand-written model is tied "
                                                 "to the code only by the correspondence run (differential testing on generated cases); "
                                                 + "; ".join(m.get("trusted_base", []))),
            "technique": m.get("technique", "Lean 4 proof about a hand-written executable model + model/implementation correspondence check")
                         + (" + code translator (definitions regenerated from the Python source on every run, proved equal to the model)"
                            if glob.glob(os.path.join(core.LEAN, "theorems", "extra", pid + "-code*.json")) and "translator" not in m.get("technique", "") else ""),
        })
    na = [{"property_id": p, "reason": PENDING_REASON} for p in ALL if p not in claimed]
    extra_na = os.path.join(core.VERIF, "not_applicable.json")
    if os.path.exists(extra_na):
        reasons = json.load(open(extra_na))
        na = [{"property_id": e["property_id"], "reason": reasons.get(e["property_id"], e["reason"])} for e in na]
    man = {
        "version": 1,
        "setup_cmd": "/venv/bin/python -m harness.build_all",
        "hooks": {
            "guard": "MOFUN_VERIF",
            "enable": "MOFUN_VERIF=1 in the environment (set by ./check); the harness installs mofun.mofun._verif_sink",
            "baseline_off_cmd": "cd /repo && /venv/bin/python -m pytest -ra -q -p no:cacheprovider --timeout=900 --continue-on-collection-errors",
            "source_commits": json.load(open(os.path.join(core.VERIF, "hooks.json")))["source_commits"],
            "add_only": True,
        },
        "engines": [{"name": "lean-model+correspondence", "path": "lean/ + harness/", "serves_properties": claimed,
                     "kind_free_text": "Lean 4 models and theorems (lake project, no Mathlib in models), tables regenerated from /repo sources, JSON line-protocol correspondence against the real Python code, property oracles on the real code"}],
        "checks": checks,
        "not_applicable": na,
        "notes": "Every check: regenerate tables from /repo -> lake build -> axiom audit -> correspondence -> oracle; see DESIGN.md §2, §5. known_findings.json lists recorded defects and fix: commits.",
    }
    with open(os.path.join(core.VERIF, "MANIFEST.json"), "w") as f:
        json.dump(man, f, indent=1)
    try:
        import jsonschema
        jsonschema.validate(man, json.load(open("/root/.vp/MANIFEST.schema.json")))
        print("MANIFEST valid;", len(checks), "checks,", len(na), "not claimed")
    except ImportError:
        print("written (jsonschema not available)")


if __name__ == "__main__":
    main()
