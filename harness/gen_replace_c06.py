"""Generators for C06: typed, internally consistent structures and replacement patterns around a planted geometry.

Everything is canonical JSON (core.atoms_from_json). Every atom of the structure gets a unique POSITIVE charge, every
atom of a replacement pattern a unique NEGATIVE charge (multiples of 1/64, never 0), every term a unique tag in an extra
column when its kind has extra columns, and every coefficient text is unique per (side, kind, id): so atoms and terms
can be recognised in the result without relying on positions in the arrays."""
from fractions import Fraction

import numpy as np

from . import core, findlib

KINDS = ["bond", "angle", "dihedral", "improper"]
ARITY = {"bond": 2, "angle": 3, "dihedral": 4, "improper": 4}
BYSTANDER_ELEMENTS = ["S", "P", "Si", "Se"]
NEW_ELEMENTS = ["N", "O", "F", "Cl", "C", "H", "B"]

# per kind: (structure has terms, structure has table, pattern has terms, pattern has table) — every combination that
# the property's compatibility clause admits.  The one excluded corner (structure: terms without table; pattern: table
# without terms) is documented in the check's notes.
COMBOS = {
    "TT": (True, True, True, True),        # both define tables covering their ids
    "NN": (True, False, True, False),      # neither defines coefficients
    "s0T-rT": (False, True, True, True),   # structure emptied (stale table), pattern typed
    "s0T-rN": (False, True, True, False),
    "s0N-rT": (False, False, True, True),  # structure has nothing of the kind (e.g. loaded from CIF)
    "s0N-rN": (False, False, True, False),
    "sT-r0N": (True, True, False, False),  # pattern has nothing of the kind
    "sN-r0N": (True, False, False, False),
    "sT-r0T": (True, True, False, True),   # pattern: unused table
    "s0T-r0T": (False, True, False, True),
    "s0N-r0N": (False, False, False, False),
}
COMBO_NAMES = list(COMBOS)
# admitted by the compatibility clause as well ("the pattern has no terms of the kind"), but it is the recorded
# finding C06-orphan-coefficient-table: generated only by its own small stream (orphan_case), never at random
ORPHAN = "sN-r0T"
COMBOS[ORPHAN] = (True, False, False, True)


def masses():
    from mofun.atomic_masses import ATOMIC_MASSES
    return ATOMIC_MASSES


def _dy(rng, lo, hi, den=64):
    return Fraction(rng.randint(int(lo * den), int(hi * den)), den)


def coeff_text(side, kind, i, rng):
    """unique, LAMMPS-like, survives a write/read cycle (one comment at most)"""
    return "%.6f %.6f   # %s%s%d" % (float(_dy(rng, 1, 900, 8)), float(_dy(rng, 1, 4, 64)), side, kind[0].upper(), i)


def pair_text(side, label, rng):
    return "%.6f %.6f   # %s%s" % (float(_dy(rng, 0, 1, 1024)), float(_dy(rng, 2, 4, 64)), side, label)


def _types_for(rng, elems, side):
    """split the atoms of each element over 1–2 types; returns (per-atom type id, elem table, label table)"""
    table_e, table_l, ty = [], [], []
    by_el = {}
    for e in elems:
        if e not in by_el:
            k = rng.randint(1, 2)
            ids = []
            for j in range(k):
                ids.append(len(table_e))
                table_e.append(e)
                table_l.append("%s%s%d" % (e, side, j + 1))
            by_el[e] = ids
        ty.append(rng.choice(by_el[e]))
    # every type used at least once is not required; unused types are legal
    return ty, table_e, table_l


def _rand_tuples(rng, pool, arity, m, taken):
    out = []
    for _ in range(m * 6):
        if len(out) >= m or len(pool) < arity:
            break
        tup = rng.sample(pool, arity)
        key = min(tuple(tup), tuple(reversed(tup)))
        if key in taken:
            continue
        taken.add(key)
        out.append(tup)
    return out


def make_replacement(rng, pat_elems, pat_pos, cfg, side="r", allow_empty=True):
    """a replacement pattern in the coordinate system of the search pattern.

    Returns (rj, info) with info = dict(retained={r index: search index}, removed=[search indices])"""
    n_p = len(pat_elems)
    mode = rng.choice(["all", "all", "some", "some", "some", "none"])
    if mode == "all":
        keep = list(range(n_p))
    elif mode == "none":
        keep = []
    else:
        keep = sorted(rng.sample(range(n_p), rng.randint(1, n_p))) if n_p else []
    ppos = [np.array([float(x) for x in p]) for p in pat_pos]
    cen = np.mean(ppos, axis=0) if ppos else np.zeros(3)
    atoms = [("keep", j, pat_elems[j], ppos[j]) for j in keep]
    gone = [j for j in range(n_p) if j not in keep]
    nnew = rng.randint(0, 3) if (keep or not allow_empty or rng.random() < 0.85) else 0
    if not keep and nnew == 0 and not allow_empty:
        nnew = 1
    for _ in range(nnew):
        how = rng.choice(["changed", "moved", "fresh", "fresh"])
        if how == "changed" and gone:
            j = rng.choice(gone)
            el = rng.choice([e for e in NEW_ELEMENTS if e != pat_elems[j]])
            atoms.append(("new", None, el, ppos[j].copy()))
        elif how == "moved" and gone:
            j = rng.choice(gone)
            d = np.array([rng.choice([-1, 1]) * float(_dy(rng, 0.375, 0.75)) for _ in range(3)])
            atoms.append(("new", None, pat_elems[j], ppos[j] + d))
        else:
            d = np.array([float(_dy(rng, -1.5, 1.5)) for _ in range(3)])
            atoms.append(("new", None, rng.choice(NEW_ELEMENTS), cen + d))
    if cfg.get("nudge") and gone:
        # a same-element atom NUDGED by 1e-4 … 0.09 Å from a search atom that is not kept: by the documented rule
        # (identical coordinates) it is NOT shared — the matched atom is removed, this one is inserted
        for j in rng.sample(gone, min(len(gone), rng.randint(1, 2))):
            while True:
                d = np.array([rng.choice([0, 0, 1, -1]) * float(rng.choice([Fraction(1, 4096), Fraction(1, 256),
                              Fraction(1, 64), Fraction(1, 32), Fraction(3, 64)])) for _ in range(3)])
                if 1e-4 < np.linalg.norm(d) < 0.09:
                    break
            atoms.append(("nudge", j, pat_elems[j], ppos[j] + d))
    # no new atom may coincide with a kept atom of the same element (it would be identified with it)
    clean = []
    for a in atoms:
        if a[0] == "nudge":
            clean.append(a)
            continue
        if a[0] == "new" and any(b[0] == "keep" and b[2] == a[2] and np.linalg.norm(b[3] - a[3]) < 0.2 for b in atoms):
            continue
        if a[0] == "new" and any(b is not a and b[0] in ("new", "nudge") and np.linalg.norm(b[3] - a[3]) < 0.2
                                 for b in clean + [x for x in atoms if x[0] == "nudge"]):
            continue
        clean.append(a)
    atoms = clean
    rng.shuffle(atoms)
    n = len(atoms)
    elems = [a[2] for a in atoms]
    ty, tel, tlab = _types_for(rng, elems, side)
    M = masses()
    order = list(range(1, n + 1))
    rng.shuffle(order)
    xl_atom = []
    if cfg.get("r_xatom"):
        xl_atom = rng.sample(["_atom_site_occupancy", "_atom_site_note", "_atom_site_u"], rng.randint(1, 2))
    rows = []
    for i, a in enumerate(atoms):
        rows.append({"ty": ty[i], "pos": [core.q(float(v)) for v in a[3]], "q": core.q(Fraction(-order[i], 64)),
                     "g": rng.randint(0, 3), "x": ["%s%d%s" % (side, i, l[-1]) for l in xl_atom]})
    if n >= 2 and all(r["g"] == rows[0]["g"] for r in rows):
        rows[-1]["g"] = rows[0]["g"] + 1      # groups must not all equal atom 0's
    rj = {"cell": None, "atoms": rows, "terms": {}, "types": {}, "xlabels": {"atom": xl_atom}}
    tagn = 0
    for k in KINDS:
        _, _, r_terms, r_table = COMBOS[cfg["combo"][k]]
        ar = ARITY[k]
        terms, xl = [], []
        if cfg.get("r_xterm", {}).get(k):
            xl = ["_geom_%s_tag" % k] + (["_geom_%s_aux" % k] if rng.random() < 0.3 else [])
        ntk = rng.randint(1, 3)
        if r_terms and n >= ar:
            tups = _rand_tuples(rng, list(range(n)), ar, rng.randint(1, 4), set())
            nudged = [i for i, a in enumerate(atoms) if a[0] == "nudge"]
            if nudged and tups and not any(set(t) & set(nudged) for t in tups):
                x = rng.choice(nudged)        # the nudged atom carries pattern terms
                t0 = [x] + [i for i in tups[0] if i != x][:ar - 1]
                if len(t0) == ar and min(tuple(t0), tuple(reversed(t0))) not in \
                        set(min(tuple(t), tuple(reversed(t))) for t in tups[1:]):
                    tups[0] = t0
            for tup in tups:
                tagn += 1
                terms.append({"a": tup, "ty": rng.randrange(ntk), "x": ["%s%s%d%s" % (side, k[0], tagn, l[-1]) for l in xl]})
        table = []
        if r_table:
            top = max([t["ty"] for t in terms], default=-1) + 1 + rng.randint(0, 1)
            if cfg["combo"][k] == ORPHAN:
                top = 3          # an unused entry for every type id the structure may use
            table = [coeff_text(side, k, i, rng) for i in range(max(top, 1))]
        rj["terms"][k] = terms
        rj["types"][k] = table
        rj["xlabels"][k] = xl if terms or rng.random() < 0.5 else []
        if not rj["xlabels"][k]:
            for t in terms:
                t["x"] = []
    rj["types"]["elem"] = tel
    rj["types"]["label"] = tlab
    rj["types"]["mass"] = [core.q(M[e]) for e in tel]
    rj["types"]["pair"] = [pair_text(side, l, rng) for l in tlab] if cfg.get("r_pair") else []
    if n == 0:      # the empty pattern: an Atoms() object has no tables and no labels at all
        rj = {"cell": None, "atoms": [], "terms": {k: [] for k in KINDS},
              "types": {k: [] for k in KINDS + ["elem", "label", "mass", "pair"]},
              "xlabels": {k: [] for k in ["atom"] + KINDS}}
    info = {"retained": {i: a[1] for i, a in enumerate(atoms) if a[0] == "keep"},
            "removed": gone, "nudged": {i: a[1] for i, a in enumerate(atoms) if a[0] == "nudge"}}
    return rj, info


def relabel_like_structure(rng, rj, retained_label):
    """`retained_label`: {pattern atom: type label its partner atom has in the structure}. For some of the retained
    atoms the pattern's type takes exactly that label, but keeps its own (distinct) pair coefficient and gets a mass
    that differs from the element's (still within the mass-guess tolerance of the LAMMPS reader). Returns #types hit."""
    M = masses()
    done = {}
    for i, lab in sorted(retained_label.items()):
        t = rj["atoms"][i]["ty"]
        if t in done or rng.random() < 0.25:
            continue
        if lab in rj["types"]["label"] and rj["types"]["label"][t] != lab:
            continue                      # would give two pattern types the same label
        rj["types"]["label"][t] = lab
        rj["types"]["mass"][t] = core.q(Fraction(M[rj["types"]["elem"][t]]).limit_denominator(10 ** 6) + Fraction(3, 64))
        done[t] = lab
    return len(done)


def make_structure(rng, geo, rj, rinfo, cfg):
    """the typed structure around the planted geometry `geo` (findlib.planted_structure), with bystander atoms and
    terms inside / outside / across the planted copies and on exactly the atoms of pattern terms (fwd / reversed)"""
    elems = list(geo["elems"])
    pos = [list(p) for p in geo["pos"]]
    cell = np.array(geo["cell"])
    planted = [list(g) for g in geo["planted"]]
    # planted copy c: search atom j sits at structure index base_c + j (atoms are appended in pattern order)
    bases = [min(g) for g in planted]
    nby = max(rng.randint(2, 5), cfg.get("min_bystanders", 0))
    by_el = rng.choice(BYSTANDER_ELEMENTS)
    for _ in range(nby):
        f = np.array([rng.random() for _ in range(3)])
        elems.append(by_el if rng.random() < 0.7 else rng.choice(BYSTANDER_ELEMENTS))
        pos.append(list(f.dot(cell)))
    n = len(elems)
    inside = set(i for g in planted for i in g)
    outside = [i for i in range(n) if i not in inside]
    ty, tel, tlab = _types_for(rng, elems, "s")
    M = masses()
    order = list(range(1, n + 1))
    rng.shuffle(order)
    xl_atom = []
    if cfg.get("s_xatom"):
        xl_atom = rng.sample(["_atom_site_occupancy", "_atom_site_note", "_atom_site_b"], rng.randint(1, 2))
    rows = [{"ty": ty[i], "pos": [core.q(float(v)) for v in pos[i]], "q": core.q(Fraction(order[i], 64)),
             "g": rng.randint(0, 2), "x": ["s%d%s" % (i, l[-1]) for l in xl_atom]} for i in range(n)]
    sj = {"cell": [[core.q(float(v)) for v in row] for row in cell], "atoms": rows, "terms": {}, "types": {},
          "xlabels": {"atom": xl_atom}}
    tagn = 0
    stats = {"override_planned": 0}
    for k in KINDS:
        s_terms, s_table, _, _ = COMBOS[cfg["combo"][k]]
        ar = ARITY[k]
        terms, xl = [], []
        if cfg.get("s_xterm", {}).get(k):
            xl = ["_geom_%s_tag" % k] + (["_geom_%s_note" % k] if rng.random() < 0.3 else [])
        ntk = rng.randint(1, 3)
        tuples = []
        taken = set()
        if s_terms:
            # on exactly the atoms of a pattern term (all of them retained), forwards or reversed
            cands = [u for u in rj["terms"][k] if all(a in rinfo["retained"] for a in u["a"])]
            for c, b in enumerate(bases):
                for u in cands:
                    if rng.random() < 0.6:
                        tup = [b + rinfo["retained"][a] for a in u["a"]]
                        if rng.random() < 0.5:
                            tup = tup[::-1]
                        key = min(tuple(tup), tuple(reversed(tup)))
                        if key not in taken:
                            taken.add(key)
                            tuples.append(tup)
                            stats["override_planned"] += 1
            for b in bases:     # attached to the matched atom next to which the pattern has a NUDGED atom
                for j in set(rinfo.get("nudged", {}).values()):
                    rest = [i for i in range(n) if i != b + j]
                    if len(rest) >= ar - 1:
                        tup = [b + j] + rng.sample(outside if len(outside) >= ar - 1 and rng.random() < 0.6 else rest, ar - 1)
                        rng.shuffle(tup)
                        key = min(tuple(tup), tuple(reversed(tup)))
                        if key not in taken and len(set(tup)) == ar:
                            taken.add(key)
                            tuples.append(tup)
                            stats["on_nudged"] = stats.get("on_nudged", 0) + 1
            for g in planted:   # inside one copy
                tuples += _rand_tuples(rng, g, ar, rng.randint(0, 2), taken)
            tuples += _rand_tuples(rng, outside, ar, rng.randint(1, 2), taken)   # outside every copy
            for _ in range(rng.randint(1, 3)):     # across: at least one atom inside and one outside / other copy
                if inside and len(outside) >= 1 and n >= ar:
                    a_in = rng.choice(sorted(inside))
                    rest = [i for i in range(n) if i != a_in]
                    tup = [a_in] + rng.sample(rest, ar - 1)
                    if all(i in inside for i in tup) and len(planted) == 1:
                        tup[-1] = rng.choice(outside)
                    if len(set(tup)) == ar:
                        rng.shuffle(tup)
                        key = min(tuple(tup), tuple(reversed(tup)))
                        if key not in taken:
                            taken.add(key)
                            tuples.append(tup)
            if not tuples and n >= ar:
                tuples = _rand_tuples(rng, list(range(n)), ar, 1, taken)
            rng.shuffle(tuples)
            for tup in tuples:
                tagn += 1
                terms.append({"a": [int(i) for i in tup], "ty": rng.randrange(ntk),
                              "x": ["s%s%d%s" % (k[0], tagn, l[-1]) for l in xl]})
        table = []
        if s_table:
            top = max([t["ty"] for t in terms], default=-1) + 1 + rng.randint(0, 1)
            table = [coeff_text("s", k, i, rng) for i in range(max(top, 1))]
        sj["terms"][k] = terms
        sj["types"][k] = table
        sj["xlabels"][k] = xl if terms or rng.random() < 0.5 else []
        if not sj["xlabels"][k]:
            for t in terms:
                t["x"] = []
    sj["types"]["elem"] = tel
    sj["types"]["label"] = tlab
    sj["types"]["mass"] = [core.q(M[e]) for e in tel]
    sj["types"]["pair"] = [pair_text("s", l, rng) for l in tlab] if cfg.get("s_pair") else []
    stats["same_label"] = 0
    if cfg.get("same_label") and bases and rinfo["retained"]:
        # every copy's partner atom gets the type its partner has in the first copy, so the labels collide everywhere
        for i, j in rinfo["retained"].items():
            for b in bases[1:]:
                rows[b + j]["ty"] = rows[bases[0] + j]["ty"]
        stats["same_label"] = relabel_like_structure(
            rng, rj, {i: tlab[rows[bases[0] + j]["ty"]] for i, j in rinfo["retained"].items()})
    return sj, stats


def search_json(pat_elems, pat_pos):
    return findlib.struct_json(list(pat_elems), [[float(x) for x in p] for p in pat_pos], None)


def classify(table_terms, table_coeffs):
    """state of one kind in a structure: '0N' / '0T' no terms (without / with table), 'T' covered, 'N' no table,
    'X' table that does not cover the ids in use (inconsistent)"""
    if not table_terms:
        return "0T" if table_coeffs else "0N"
    if not table_coeffs:
        return "N"
    return "T" if all(t["ty"] < len(table_coeffs) for t in table_terms) else "X"


def combo_for_structure(rng, state):
    """a compatible pattern configuration for a structure whose kind is in `state` (for chained replacements)"""
    if state == "T":
        return rng.choice(["TT", "sT-r0N", "sT-r0T"])
    if state == "N":
        return rng.choice(["NN", "sN-r0N"])
    if state == "0T":
        return rng.choice(["s0T-rT", "s0T-rN", "s0T-r0T"])
    if state == "0N":
        return rng.choice(["s0N-rT", "s0N-rN", "s0N-r0N"])
    return "sN-r0N"      # inconsistent table: the pattern brings nothing of this kind


def random_cfg(rng, combos=None):
    cfg = {"combo": {k: (combos[k] if combos else rng.choice(COMBO_NAMES)) for k in KINDS},
           "s_pair": rng.random() < 0.6, "r_pair": rng.random() < 0.6,
           "s_xatom": rng.random() < 0.4, "r_xatom": rng.random() < 0.4,
           "s_xterm": {k: rng.random() < 0.5 for k in KINDS}, "r_xterm": {k: rng.random() < 0.5 for k in KINDS}}
    # a good share of cases: the pattern RE-PARAMETERISES a retained atom under the SAME type label (and element) as
    # the structure's type of that atom, with a different mass and a different pair coefficient (both pair tables)
    cfg["nudge"] = rng.random() < 0.3
    cfg["same_label"] = rng.random() < 0.4
    if cfg["same_label"]:
        cfg["s_pair"] = cfg["r_pair"] = True
    return cfg


PATTERN_POOL = ["asym4", "asym5", "chiral", "ch3", "planar4", "bent", "collinear_asym", "collinear3", "pair", "single",
                "pair_same"]


def orphan_case(rng, kind):
    """the input class of the known finding C06-orphan-coefficient-table for `kind`: the structure has terms of the
    kind without a coefficient table, the pattern a coefficient table of the kind without terms"""
    combos = {k: rng.choice(COMBO_NAMES) for k in KINDS}
    combos[kind] = ORPHAN
    case = synthetic_case(rng, combos=combos, extra={"min_bystanders": 5})
    case["opts"]["fraction"] = 1.0
    case["meta"]["stream"] = "orphan:" + kind
    return case


def synthetic_case(rng, combos=None, pname=None, big=False, extra=None):
    """one single-step case: dict(s, p, r, opts, meta)"""
    cfg = random_cfg(rng, combos)
    cfg.update(extra or {})
    pname = pname or rng.choice(PATTERN_POOL[:5] * 3 + PATTERN_POOL)
    geo = findlib.planted_structure(rng, pname=pname, cell_kind=rng.choice(["ortho", "ortho", "tri+", "tri-", "rot"]),
                                    ncopies=rng.randint(1, 3 if not big else 4), decoys=rng.random() < 0.5)
    pe, pp = geo["pattern"]["elems"], geo["pattern"]["pos"]
    rj, rinfo = make_replacement(rng, pe, pp, cfg)
    sj, stats = make_structure(rng, geo, rj, rinfo, cfg)
    opts = {"atol": 0.05,
            "fraction": 1.0 if rng.random() < 0.75 else rng.choice([0.0, 0.1, 0.25, 0.34, 0.5, 0.75, 0.9, 1, 1.5]),
            "replace_all": rng.random() < 0.15, "ignore": rng.random() < 0.15, "seed": rng.randint(0, 10 ** 6)}
    meta = {"pattern": pname, "cell": geo["info"]["cell"], "copies": geo["info"]["copies"], "combo": cfg["combo"],
            "s_pair": cfg["s_pair"], "r_pair": cfg["r_pair"], "override_planned": stats["override_planned"], "same_label_types": stats["same_label"], "nudged_atoms": len(rinfo.get("nudged", {})),
            "terms_on_nudged_partner": stats.get("on_nudged", 0)}
    return {"s": sj, "p": search_json(pe, pp), "r": rj, "opts": opts, "meta": meta}


def retag(aj):
    """fresh unique positive charges (k/64) for every atom, unique tags for the terms that have an extra column:
    makes the result of one replacement usable as the tagged structure of the next one"""
    import copy
    out = copy.deepcopy(aj)
    for i, row in enumerate(out["atoms"]):
        row["q"] = core.q(Fraction(i + 1, 64))
    return out


def chained_second(rng, first_case, result1, side="t", step=2):
    """the next step of a chain: search for the geometry of the previous replacement pattern in the result of the previous
    replacement and replace it with another typed pattern (configuration compatible with what the structure now is).
    `side`: prefix of the new pattern's labels and coefficient texts (distinct per step)"""
    s2 = retag(result1)
    r1 = first_case["r"]
    if len(r1["atoms"]) == 0:
        return None
    pe = [r1["types"]["elem"][a["ty"]] for a in r1["atoms"]]
    pp = [[float(core.unq(v)) for v in a["pos"]] for a in r1["atoms"]]
    combos = {k: combo_for_structure(rng, classify(s2["terms"][k], s2["types"][k])) for k in KINDS}
    cfg = random_cfg(rng, combos)
    ns = len(s2["types"]["elem"])
    if s2["types"]["pair"] and len(s2["types"]["pair"]) != ns:
        cfg["r_pair"] = False
    aligned = len(s2["types"]["pair"]) == ns and ns > 0
    if cfg.get("same_label") and not aligned:
        cfg["same_label"] = False
    rj, rinfo = make_replacement(rng, pe, pp, cfg, side=side, allow_empty=False)
    nsame = 0
    if cfg.get("same_label"):
        # the atoms the second pattern retains are atoms of the first pattern: they carry ITS type labels now
        nsame = relabel_like_structure(
            rng, rj, {i: r1["types"]["label"][r1["atoms"][j]["ty"]] for i, j in rinfo["retained"].items()})
    opts = {"atol": 0.05, "fraction": 1.0, "replace_all": False, "ignore": False, "seed": rng.randint(0, 10 ** 6)}
    meta = {"pattern": "chain:" + first_case["meta"]["pattern"], "cell": first_case["meta"]["cell"], "combo": combos,
            "s_pair": bool(s2["types"]["pair"]), "r_pair": cfg["r_pair"], "chain": step, "override_planned": 0, "same_label_types": nsame}
    return {"s": s2, "p": search_json(pe, pp), "r": rj, "opts": opts, "meta": meta}


def zero_match_case(rng, kind):
    """nothing is replaced (fraction 0, or a search pattern that does not occur) — but `extend_types` runs before the
    loop, so the two table-misalignment findings (pair coefficients, orphan coefficient table) fire all the same"""
    combos = {k: rng.choice(COMBO_NAMES) for k in KINDS}
    combos[kind] = ORPHAN
    case = synthetic_case(rng, combos=combos, extra={"min_bystanders": 5, "same_label": False, "s_pair": False,
                                                      "r_pair": True, "nudge": False})
    if rng.random() < 0.5:
        case["opts"]["fraction"] = 0.0
    else:                      # a search pattern made of an element the structure does not contain
        case["opts"]["fraction"] = 1.0
        case["p"]["types"]["elem"] = ["Xe"] * len(case["p"]["types"]["elem"])
        case["p"]["types"]["label"] = list(case["p"]["types"]["elem"])
        case["p"]["types"]["mass"] = [core.q(masses()["Xe"])] * len(case["p"]["types"]["elem"])
    case["opts"]["replace_all"] = False
    case["meta"]["stream"] = "zero-match:" + kind
    return case


def overlap_case(rng, variant=None, mode=None):
    """neighbouring occurrences that overlap so that one match's RETAINED atom is another match's REMOVED atom (mode
    'steal': the replacement keeps the first atom of a same-element pair and changes the second), or that retain the
    same atom in roles with different pattern types (mode 'contest'). Chains and stars of one element."""
    variant = variant or rng.choice(["chain", "chain", "star"])
    mode = mode or rng.choice(["steal", "steal", "contest"])
    el = rng.choice(["C", "N", "Si"])
    d = Fraction(3, 2)
    if variant == "chain":
        pts = [(i * d, 0, 0) for i in range(rng.randint(3, 5))]
    else:
        arms = rng.sample([(d, 0, 0), (0, d, 0), (0, 0, d), (-d, 0, 0), (0, -d, 0)], rng.randint(2, 3))
        pts = [(0, 0, 0)] + arms
    R = findlib.rotmat(findlib.rat_quat(rng, rng.choice(["identity", "axis90", "random"])))
    org = [Fraction(rng.randint(3 * 8, 15 * 8), 8) for _ in range(3)]
    pos = [[float(x + o) for x, o in zip(findlib.matvec(R, [Fraction(v) for v in pt]), org)] for pt in pts]
    n0 = len(pos)
    by = rng.choice([e for e in BYSTANDER_ELEMENTS])
    elems = [el] * n0 + [by, by]
    pos += [[float(Fraction(rng.randint(0, 19 * 8), 8)) for _ in range(3)] for _ in range(2)]
    cell = [[20.0, 0, 0], [0, 20.0, 0], [0, 0, 20.0]]
    pos = [[x % 20.0 for x in p] for p in pos]
    order = list(range(1, len(elems) + 1))
    rng.shuffle(order)
    sj = findlib.struct_json(elems, pos, cell, charges=[Fraction(o, 64) for o in order], groups=[rng.randint(0, 2) for _ in elems])
    sj["types"]["label"] = [l + "s1" for l in sj["types"]["label"]]
    sj["types"]["pair"] = [pair_text("s", l, rng) for l in sj["types"]["label"]]
    # original bonds: along the motif and to the bystanders
    bonds = [[i, i + 1] for i in range(n0 - 1)] if variant == "chain" else [[0, i] for i in range(1, n0)]
    bonds += [[rng.randrange(n0), n0], [n0, n0 + 1]]
    sj["terms"]["bond"] = [{"a": b if rng.random() < 0.5 else b[::-1], "ty": rng.randrange(2), "x": []} for b in bonds]
    sj["types"]["bond"] = [coeff_text("s", "bond", i, rng) for i in range(2)]
    pj = search_json([el, el], [[0, 0, 0], [float(d), 0, 0]])
    if mode == "steal":
        new = rng.choice([e for e in NEW_ELEMENTS if e != el])
        rel = [el, new]
    else:
        rel = [el, el]
    rj = findlib.struct_json(rel, [[0, 0, 0], [float(d), 0, 0]], None, charges=[Fraction(-1, 64), Fraction(-2, 64)], groups=[1, 2])
    M = masses()
    rj["atoms"][0]["ty"], rj["atoms"][1]["ty"] = 0, 1
    rj["types"]["elem"] = rel
    rj["types"]["label"] = [rel[0] + "r1", rel[1] + "r2"]
    rj["types"]["mass"] = [core.q(M[rel[0]]), core.q(Fraction(M[rel[1]]).limit_denominator(10 ** 6) + Fraction(3, 64))]
    rj["types"]["pair"] = [pair_text("r", l, rng) for l in rj["types"]["label"]]
    rj["terms"]["bond"] = [{"a": [0, 1] if rng.random() < 0.5 else [1, 0], "ty": 0, "x": []}]
    rj["types"]["bond"] = [coeff_text("r", "bond", 0, rng)]
    opts = {"atol": 0.05, "fraction": 1.0, "replace_all": False, "ignore": rng.random() < 0.3, "seed": rng.randint(0, 10 ** 6)}
    meta = {"pattern": "overlap:%s:%s" % (variant, mode), "cell": "ortho", "stream": "overlap", "override_planned": 0,
            "combo": {"bond": "TT", "angle": "s0N-r0N", "dihedral": "s0N-r0N", "improper": "s0N-r0N"}}
    return {"s": sj, "p": pj, "r": rj, "opts": opts, "meta": meta}


def partial_overlap_case(rng, variant=None):
    """two (or more) selected matches whose REMOVAL sets overlap partially — they share some but not all removed atoms —
    with the ignore flag (mostly) on: every atom removed by any selected match must be gone exactly once, the terms
    touching it gone, the other original terms alive, each match's pattern terms present once.
    'chain': A0-B1-B2-B3-A4, two-fold symmetric about B2, search A-B-B found from both ends (both remove B2);
    'star' : centre X with 2-4 arms Y-Z at right angles, search Z-Y-X found once per arm (all remove X).
    The replacement keeps the outer atom, changes the next one in place and puts a new atom NEAR the shared one, off the
    symmetry axis, so that the atoms inserted by different matches land in different places."""
    variant = variant or rng.choice(["chain", "star"])
    F = Fraction
    if variant == "chain":
        ea, eb = rng.choice([("C", "N"), ("Si", "O"), ("C", "O")])
        base = [(F(-2), F(-1), F(0)), (F(-3, 4), F(-1), F(0)), (F(0), F(0), F(0))]       # A0, B1, B2 (B2 on the axis)
        pts = base + [(-base[1][0], -base[1][1], base[1][2]), (-base[0][0], -base[0][1], base[0][2])]
        elems = [ea, eb, eb, eb, ea]
        pel = [ea, eb, eb]
        ppos = base
        bonds = [[0, 1], [1, 2], [2, 3], [3, 4]]
        angles = [[0, 1, 2], [1, 2, 3], [2, 3, 4]]
    else:
        ex, ey, ez = rng.choice([("Si", "O", "C"), ("Zr", "O", "C"), ("N", "C", "H")])
        arm = [(F(5, 4), F(0), F(0)), (F(9, 4), F(3, 4), F(0))]                            # Y, Z of the first arm
        rots = rng.sample([0, 1, 2, 3], rng.randint(2, 4))

        def rz(k, v):
            x, y, z = v
            for _ in range(k):
                x, y = -y, x
            return (x, y, z)
        pts, elems, bonds, angles = [(F(0), F(0), F(0))], [ex], [], []
        for k in rots:
            iy = len(pts)
            pts += [rz(k, arm[0]), rz(k, arm[1])]
            elems += [ey, ez]
            bonds += [[0, iy], [iy, iy + 1]]
            angles += [[0, iy, iy + 1]]
        k0 = rots[0]
        pel = [ez, ey, ex]
        ppos = [rz(k0, arm[1]), rz(k0, arm[0]), (F(0), F(0), F(0))]
    R = findlib.rotmat(findlib.rat_quat(rng, rng.choice(["identity", "axis90", "random", "random"])))
    org = [F(rng.randint(5 * 8, 15 * 8), 8) for _ in range(3)]
    pos = [[float(x + o) % 20.0 for x, o in zip(findlib.matvec(R, list(pt)), org)] for pt in pts]
    n0 = len(pos)
    by = rng.choice(BYSTANDER_ELEMENTS)
    elems = elems + [by, by]
    pos += [[float(F(rng.randint(0, 19 * 8), 8)) for _ in range(3)] for _ in range(2)]
    cell = [[20.0, 0, 0], [0, 20.0, 0], [0, 0, 20.0]]
    order = list(range(1, len(elems) + 1))
    rng.shuffle(order)
    sj = findlib.struct_json(elems, pos, cell, charges=[F(o, 64) for o in order], groups=[rng.randint(0, 2) for _ in elems])
    sj["types"]["label"] = [l + "s1" for l in sj["types"]["label"]]
    sj["types"]["pair"] = [pair_text("s", l, rng) for l in sj["types"]["label"]]
    bonds = bonds + [[rng.randrange(n0), n0], [n0, n0 + 1]]
    sj["terms"]["bond"] = [{"a": b if rng.random() < 0.5 else b[::-1], "ty": rng.randrange(2), "x": []} for b in bonds]
    sj["types"]["bond"] = [coeff_text("s", "bond", i, rng) for i in range(2)]
    sj["terms"]["angle"] = [{"a": a if rng.random() < 0.5 else a[::-1], "ty": 0, "x": []} for a in angles]
    sj["types"]["angle"] = [coeff_text("s", "angle", 0, rng)]
    pj = search_json(pel, [[float(v) for v in q_] for q_ in ppos])
    # replacement: outer atom kept, second changed in place, third a new atom near the shared one, off the axis
    new1, new2 = rng.sample([e for e in NEW_ELEMENTS if e not in pel], 2)
    off = (F(1, 4), F(0), F(1, 4)) if variant == "chain" else (F(1, 4), F(1, 8), F(1, 4))
    rpos = [ppos[0], ppos[1], tuple(a + b for a, b in zip(ppos[2], off))]
    rel = [pel[0], new1, new2]
    rj = findlib.struct_json(rel, [[float(v) for v in q_] for q_ in rpos], None, charges=[F(-1, 64), F(-2, 64), F(-3, 64)],
                             groups=[1, 2, 3])
    rj["types"]["label"] = [l + "r1" for l in rj["types"]["label"]]
    rj["types"]["pair"] = [pair_text("r", l, rng) for l in rj["types"]["label"]]
    rj["terms"]["bond"] = [{"a": [0, 1], "ty": 0, "x": []}, {"a": [2, 1] if rng.random() < 0.5 else [1, 2], "ty": 1, "x": []}]
    rj["types"]["bond"] = [coeff_text("r", "bond", i, rng) for i in range(2)]
    rj["terms"]["angle"] = [{"a": [0, 1, 2], "ty": 0, "x": []}]
    rj["types"]["angle"] = [coeff_text("r", "angle", 0, rng)]
    opts = {"atol": 0.05, "fraction": 1.0, "replace_all": rng.random() < 0.15, "ignore": rng.random() < 0.8,
            "seed": rng.randint(0, 10 ** 6)}
    meta = {"pattern": "partial-overlap:%s" % variant, "cell": "ortho", "stream": "partial-overlap", "override_planned": 0,
            "combo": {"bond": "TT", "angle": "TT", "dihedral": "s0N-r0N", "improper": "s0N-r0N"}}
    return {"s": sj, "p": pj, "r": rj, "opts": opts, "meta": meta}
