"""Species NAMES for the soundness check of the pattern search (C01): the input class "atom types whose element names
are not one- or two-letter periodic-table symbols".

The Atoms constructor takes any string as the element of a type (`atom_type_elements`; with `atom_type_masses` given
explicitly the name need not be in the mass table — united-atom / coarse-grained models: CH2, CH3, …), and mofun's own
mass table holds three-letter symbols (Uut, Uuq, Uup, Uuh, Uuo). "Whose elements equal the pattern's" is equality of
the WHOLE name, so two species whose names merely look alike — a common prefix, one name a prefix of the other, the
same letters in another case — are different elements.

* `FAMILIES`        — groups of such look-alike names (every two members of a group are DIFFERENT species);
* `rename_species`  — an injective renaming of the species of a generated case (structure and pattern alike: planted
                      copies stay copies, decoys stay decoys), then rigid copies of the pattern in which ONE atom is a
                      sibling species (right place, wrong species): nothing may be reported there. The generator's own
                      lists stay the ground truth;
* `routes` / `build`— the Atoms objects through the explicit-types constructor with a mass table (also `.copy()` and
                      `a[idx]` of it); the type table holds unused sibling names as well.
"""
import math
from fractions import Fraction

import numpy as np

from . import core, gen_find_c01 as g

# every group: pairwise different species with look-alike names
FAMILIES = [
    ["CH", "CH2", "CH3", "CH4"],                # united-atom carbons
    ["NH", "NH2", "NH3"],
    ["OH", "OH2"],
    ["SiH", "SiH2", "SiH3"],
    ["CF2", "CF3"],
    ["Uut", "Uuq", "Uup", "Uuh", "Uuo"],        # three-letter symbols of mofun's own mass table
    ["CH3a", "CH3b", "CH3"],                    # two kinds of methyl beads
    ["Bead1", "Bead2", "Bead10", "Bead"],       # coarse-grained beads
    ["CO", "Co", "CO2"],                        # a carbonyl bead is not cobalt
    ["SI", "Si", "Si4"],
    ["C", "C1", "C2", "Cl", "Cl2"],
    ["Oh", "OH", "O"],
    ["N", "Na", "NA", "Na+"],
    ["H", "HW", "HW1", "HW2"],                  # water-model hydrogens
]
TABLE3 = FAMILIES[5]


def in_mass_table(name):
    """can the name go through the constructors that look masses up? (the library's table is asked which names it knows —
    an input-validity matter; the ground truth of the case does not depend on it)"""
    from mofun.atomic_masses import ATOMIC_MASSES
    return name in ATOMIC_MASSES


def mass_of(name):
    """a mass for a made-up species (any positive number will do: the search does not look at masses)"""
    return round(5.0 + (sum((i + 1) * ord(ch) for i, ch in enumerate(name)) % 2000) / 16.0, 4)


def family_of(name):
    return [f for f in FAMILIES if name in f]


def siblings(name):
    out = []
    for f in FAMILIES:
        if name in f:
            out += [x for x in f if x != name and x not in out]
    return out


def rename_species(rng, case, atol, p_decoy=0.9):
    """rename some species of the case (injectively; pattern and structure alike) to look-alike names, then add 1-2 rigid
    copies of the pattern with ONE atom of a sibling species. Returns the list of names in use, or None when nothing was
    renamed. `case` is edited in place (elems, pattern.elems, decoys, info)."""
    pel = list(case["pattern"]["elems"])
    species = list(dict.fromkeys(pel + list(case["elems"])))
    k = len(pel)
    # which species get a new name: at least one species of the pattern; often NOT the first pattern atom's (its element is
    # tested when the starting atoms are selected, the others in the extension loop), often several, sometimes all
    pat_species = list(dict.fromkeys(pel))
    later = [e for e in dict.fromkeys(pel[1:]) if e != pel[0]]
    u = rng.random()
    if u < 0.45 and later:
        chosen = rng.sample(later, rng.randint(1, len(later)))
    elif u < 0.8:
        chosen = rng.sample(pat_species, rng.randint(1, len(pat_species)))
    else:
        chosen = list(species)
    if rng.random() < 0.25:
        fams = [TABLE3]            # names the library's own mass table knows: every constructor takes them
    else:
        fams = rng.sample(FAMILIES, rng.randint(1, 2))
    pool = []
    for f in fams:
        pool += [x for x in f if x not in pool]
    rng.shuffle(pool)
    kept = set(species) - set(chosen)
    mapping = {}
    for e in chosen:
        free = [x for x in pool if x not in kept and x not in mapping.values()]
        if not free:
            break
        mapping[e] = free[0]
    if not mapping:
        return None
    ren = lambda e: mapping.get(e, e)
    case["elems"] = [ren(e) for e in case["elems"]]
    case["pattern"] = dict(case["pattern"], elems=[ren(e) for e in pel])
    pel = case["pattern"]["elems"]
    case["info"]["names"] = "renamed:%d" % len(mapping)
    # right place, wrong (sibling) species
    ppos = [[Fraction(x).limit_denominator(10 ** 6) for x in p] for p in case["pattern"]["pos"]]
    placed = 0
    for _ in range(rng.randint(1, 2)):
        if rng.random() > p_decoy:
            continue
        cands = [j for j in range(k) if siblings(pel[j])]
        if not cands:
            break
        notfirst = [j for j in cands if j > 0]
        j = rng.choice(notfirst) if (notfirst and rng.random() < 0.7) else rng.choice(cands)
        sib = siblings(pel[j])
        # prefer a species that occurs nowhere else in the pattern (else it is an ordinary exchanged-elements copy)
        fresh = [x for x in sib if x not in pel]
        els = list(pel)
        els[j] = rng.choice(fresh or sib)
        grp = g._place(rng, case, ppos, els, perturb=atol / 8 / math.sqrt(3))
        if grp is not None:
            case["decoys"].append(("wrongelem", grp))
            case["info"].setdefault("extra", []).append("wrongelem:sibling")
            placed += 1
    case["info"]["names"] += ",sibling copies:%d" % placed
    return sorted(set(case["elems"]) | set(pel))


def routes(rng, case, route=None):
    """the style entries that make the objects come from the explicit-types constructor with masses. The type tables hold
    the species in use, unused siblings of theirs and unrelated entries, in a shuffled order."""
    def table(names):
        extra = []
        for n in names:
            s = siblings(n)
            if s and rng.random() < 0.6:
                extra.append(rng.choice(s))
        tab = sorted(set(names) | set(extra) | set(rng.sample(g.FOREIGN + g.JUNK, 1)))
        rng.shuffle(tab)
        return tab
    stab = table(list(case["elems"]))
    ptab = table(list(case["pattern"]["elems"]))
    every = set(stab) | set(ptab)
    plain = all(in_mass_table(n) for n in set(case["elems"]) | set(case["pattern"]["elems"]))
    r = route or rng.choice(["masses", "masses", "masses-copy", "masses-getitem"])
    pr = rng.choice(["masses", "masses", "masses-copy"])
    if plain and rng.random() < 0.5:
        # every name is in the library's mass table: the ordinary constructors take them as they are
        r, pr = rng.choice(["elements", "types", "copy", "getitem"]), rng.choice(["elements", "types", "copy"])
        stab = [n for n in stab if in_mass_table(n)]
        ptab = [n for n in ptab if in_mass_table(n)]
    return {"route": r, "proute": pr, "type_table": stab, "ptype_table": ptab,
            "masses": {n: mass_of(n) for n in sorted(every)}, "route_seed": rng.randrange(1 << 30)}


def uses_masses(route):
    return str(route or "").startswith("masses")


def build(route, elems, pos, cell, table, masses, seed):
    """an Atoms object holding exactly these atoms in this order: Atoms(atom_types=, atom_type_elements=, atom_type_masses=,
    atom_type_labels=, …), its `.copy()`, or a selection `big[idx]` out of a larger object in another order"""
    import random as _random
    from mofun import Atoms
    elems = list(elems)
    tab = list(table) if table else sorted(set(elems))
    P = np.array(pos, dtype=float).reshape(len(elems), 3)
    C = None if cell is None else np.array(cell, dtype=float)
    ms = [float(masses[n]) if n in masses else mass_of(n) for n in tab]
    with core.quiet():
        if route == "masses-getitem":
            r = _random.Random(seed)
            n = len(elems)
            order = list(range(n))
            r.shuffle(order)
            junk = r.randint(0, 3)
            big_e = [elems[i] for i in order] + [r.choice(tab) for _ in range(junk)]
            big_p = [P[i] for i in order] + [[r.uniform(0, 3) for _ in range(3)] for _ in range(junk)]
            big = Atoms(atom_types=[tab.index(e) for e in big_e], atom_type_elements=list(tab), atom_type_masses=list(ms),
                        atom_type_labels=list(tab), positions=np.array(big_p, dtype=float).reshape(len(big_e), 3), cell=C)
            where = {a: i for i, a in enumerate(order)}
            return big[[where[i] for i in range(n)]]
        a = Atoms(atom_types=[tab.index(e) for e in elems], atom_type_elements=list(tab), atom_type_masses=list(ms),
                  atom_type_labels=list(tab), positions=P, cell=C)
        return a.copy() if route == "masses-copy" else a


def build_structure(inp):
    if uses_masses(inp.get("route")):
        return build(inp["route"], inp["elems"], inp["pos"], inp["cell"], inp.get("type_table"), inp.get("masses", {}),
                     inp.get("route_seed", 0))
    return g.build_structure(inp)


def build_pattern(inp):
    if uses_masses(inp.get("proute")):
        pat = inp["pattern"]
        return build(inp["proute"], pat["elems"], pat["pos"], None, inp.get("ptype_table"), inp.get("masses", {}),
                     inp.get("route_seed", 0) + 1)
    return g.build_pattern(inp)
