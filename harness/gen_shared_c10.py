"""C10 stream 'handed-over tables': deletion scenarios on structures whose term tables reach `Atoms(...)` the way a
loader or a user program hands them over — as integer ndarrays (own array, read-only array, int32), as arrays that SHARE
memory (the very same array for two term kinds with the same tuples, a column view `angles[:, :2]` as the bond table, a
row slice of one master table), and with further structures made from the same tables (constructed again from the same
arguments, constructed from the first object's attributes, copy(), deepcopy()) — followed by a short program of deletions
(`del s[idx]`, `s.pop(i)`) on these objects.

A scenario is plain JSON (it is the replay record):
    {"op": "delete_scn", "a": <canonical structure>, "tables": {kind: layout}, "types": "list"|"array"|"shared",
     "dtype": "int64"|"int32", "readonly": bool, "steps": [step, ...]}
    layout:  "list" | "tuples" | "array" | "same:<kind>" | "cols:<kind>:<c0>" | "rows:<kind>:<r0>"
    step:    ["new", how, src]   how in ctor/attrs/copy/deepcopy : a further object (object 0 is the first construction)
             ["del", obj, idx]   del objects[obj][idx]
             ["pop", obj, i]     objects[obj].pop(i)   (i = null: pop())
Ground truth is by construction: every object is DEFINED by the canonical structure `a` it was built from (a copy or
attribute-built twin is defined by what its source is at that moment), and `ideal_delete` below — a brute-force
statement of the property on canonical dumps, using neither the library nor the Lean model — says what each deletion must
leave. Nothing is demanded of the arrays that were handed over (the caller's arrays may or may not be written to).
"""
import copy as _copy

from . import core, gen


# ------------------------------------------------------------------ the property as a function on canonical dumps

def ideal_delete(a, dead):
    """the structure `a` (canonical dump) without the atoms at the positions `dead`: remaining atoms in order with their
    data; a term stays iff it names none of the dead atoms, with its atoms re-numbered to their new positions and its
    type and extra fields untouched, in the order the terms had; tables, labels and cell untouched"""
    dead = set(dead)
    n = len(a["atoms"])
    keep = [i for i in range(n) if i not in dead]
    new = {old: k for k, old in enumerate(keep)}
    out = {"cell": a["cell"], "atoms": [a["atoms"][i] for i in keep], "terms": {},
           "types": a["types"], "xlabels": a["xlabels"]}
    for k in gen.KINDS:
        out["terms"][k] = [{"a": [new[x] for x in t["a"]], "ty": t["ty"], "x": t["x"]}
                          for t in a["terms"][k] if not (set(t["a"]) & dead)]
    return out


# ------------------------------------------------------------------ building the real objects

def _kwargs(scn):
    """constructor arguments for the canonical structure scn["a"], the term tables laid out as scn["tables"] says"""
    import numpy as np
    j = scn["a"]
    kw = {}
    rows = j["atoms"]
    kw["atom_types"] = [r["ty"] for r in rows]
    kw["positions"] = [[float(core.unq(v)) for v in r["pos"]] for r in rows]
    kw["charges"] = [float(core.unq(r["q"])) for r in rows]
    kw["groups"] = [r["g"] for r in rows]
    ty = j["types"]
    kw["atom_type_elements"] = list(ty["elem"])
    kw["atom_type_labels"] = list(ty["label"])
    kw["atom_type_masses"] = [float(core.unq(m)) for m in ty["mass"]]
    kw["pair_coeffs"] = list(ty["pair"])
    xl = j["xlabels"]
    kw["extra_atom_labels"] = list(xl["atom"])
    if kw["extra_atom_labels"]:
        kw["extra_atom_fields"] = np.array([r["x"] for r in rows], dtype=object).reshape(len(rows), len(xl["atom"]))
    dtype = np.int32 if scn.get("dtype") == "int32" else np.int64
    arrays = {}          # kind -> the ndarray handed over as its tuple table
    masters = []
    tuples_of = {k: [list(t["a"]) for t in j["terms"][k]] for k in gen.KINDS}

    def table(k, depth=0):
        if k in arrays:
            return arrays[k]
        if depth > 4:
            raise ValueError("scenario is not self-consistent: circular table layout")
        lay = scn["tables"][k].split(":")
        tl = tuples_of[k]
        if lay[0] == "list":
            return tl
        if lay[0] == "tuples":
            return [tuple(t) for t in tl]
        if lay[0] == "array":
            tab = np.array(tl, dtype=dtype).reshape(len(tl), gen.ARITY[k])
            masters.append(tab)
        elif lay[0] == "same":
            tab = table(lay[1], depth + 1)
        elif lay[0] == "cols":
            c0 = int(lay[2])
            tab = table(lay[1], depth + 1)[:, c0:c0 + gen.ARITY[k]]
        elif lay[0] == "rows":
            r0 = int(lay[2])
            tab = table(lay[1], depth + 1)[r0:r0 + len(tl)]
        else:
            raise ValueError("unknown table layout %r" % (lay,))
        if isinstance(tab, list) or [[int(v) for v in row] for row in tab] != tl:
            raise ValueError("scenario is not self-consistent: %s table laid out as %s does not hold its tuples" % (k, lay))
        arrays[k] = tab
        return tab

    type_arrays = {}
    for k, tups, types, xf, xlab, coeffs in core.KINDS:
        ts = j["terms"][k]
        tab = table(k)
        kw[tups] = tab
        tyl = [t["ty"] for t in ts]
        if scn.get("types") == "array" and tyl:
            kw[types] = np.array(tyl, dtype=dtype)
        elif scn.get("types") == "shared" and tyl:
            key = tuple(tyl)           # kinds whose type-id vectors are equal get the very same array
            if key not in type_arrays:
                type_arrays[key] = np.array(tyl, dtype=dtype)
            kw[types] = type_arrays[key]
        else:
            kw[types] = tyl
        kw[coeffs] = list(ty[k])
        labs = list(xl[k])
        kw[xlab] = labs
        if labs:
            kw[xf] = np.array([t["x"] for t in ts], dtype=object).reshape(len(ts), len(labs))
    if scn.get("readonly"):
        for arr in masters + list(type_arrays.values()):
            arr.flags.writeable = False
        for k, tups, types, xf, xlab, coeffs in core.KINDS:
            for name in (tups, types):
                if hasattr(kw[name], "flags"):
                    kw[name].flags.writeable = False
    if j.get("cell") is not None:
        kw["cell"] = [[float(core.unq(v)) for v in row] for row in j["cell"]]
    return kw


CTOR_FIELDS = (["atom_types", "positions", "charges", "groups", "atom_type_masses", "atom_type_elements",
                "atom_type_labels", "pair_coeffs", "cell", "extra_atom_labels", "extra_atom_fields"]
               + [name for K in core.KINDS for name in K[1:]])


def _derive(how, src, kw):
    from mofun import Atoms
    if how == "ctor":
        return Atoms(**kw)
    if how == "attrs":
        return Atoms(**{name: getattr(src, name) for name in CTOR_FIELDS})
    if how == "copy":
        return src.copy()
    if how == "deepcopy":
        return _copy.deepcopy(src)
    raise ValueError("unknown derivation %r" % how)


def play(scn, spell=None, before=None, after=None):
    """run the scenario on the real code -> list of (step number, step, expected-before dump, dead positions, result);
    result = {"ok": dump after} | {"err": kind}.  One entry per del/pop step; stops after the first step that raised.
    `before(obj)` / `after(obj)` are called on the real object around each deletion (accessor probes)."""
    out = []
    with core.quiet():
        kw = _kwargs(scn)
        objs = [_derive("ctor", None, kw)]
    want = [scn["a"]]
    for si, st in enumerate(scn["steps"]):
        if st[0] == "new":
            _, how, src = st

            def mk():
                return _derive(how, objs[src], kw)
            r = core.result_of(mk)
            if "ok" not in r:
                # making the further object is not this property's business: stop here, nothing demanded
                out.append((si, st, None, None, {"skip": r["err"]}))
                return out
            objs.append(r["ok"])
            want.append(scn["a"] if how == "ctor" else want[src])
            continue
        _, o, arg = st
        a = objs[o]
        exp = want[o]
        n = len(exp["atoms"])
        if st[0] == "del":
            dead = sorted({i % n for i in arg})
            x = spell(arg) if spell else arg
        else:
            dead = [(n - 1) if arg is None else arg % n]

        def f():
            if before:
                before(a)
            if st[0] == "del":
                del a[x]
            elif arg is None:
                a.pop()
            else:
                a.pop(arg)
            if after:
                after(a)
            return core.canon_atoms(a)
        r = core.result_of(f)
        out.append((si, st, exp, dead, r))
        if "ok" not in r:
            return out
        want[o] = ideal_delete(exp, dead)
    return out


def first_dump(scn):
    """canonical dump of object 0 right after construction (must equal scn["a"] for the scenario to mean what it says)"""
    def f():
        from mofun import Atoms
        return core.canon_atoms(Atoms(**_kwargs(dict(scn, readonly=False))))
    return core.result_of(f)


# ------------------------------------------------------------------ generators

def _terms_for(rng, k, tuples, tag, extras):
    xl = []
    if extras if extras is not None else rng.random() < 0.4:
        xl = ["_geom_%s_tag" % k] + (["_geom_%s_aux" % k] if rng.random() < 0.3 else [])
    ntk = rng.randint(1, 3)
    terms = []
    for t in tuples:
        tag[0] += 1
        terms.append({"a": list(t), "ty": rng.randrange(ntk), "x": ["%s%d%s" % (k[0], tag[0], l[-1]) for l in xl]})
    table = []
    if terms and rng.random() < 0.5:
        top = max(t["ty"] for t in terms) + 1 + rng.randint(0, 1)
        table = ["%s_coeff_%d %s # %s%d" % (k, i, gen.dy(rng, 0, 9), k[0], i) for i in range(top)]
    return terms, table, xl


def rand_structure(rng, n, family):
    """-> (canonical structure, tables layout). `family` picks how the term tables relate to each other:
      plain     unrelated random tables, each handed over as list / tuples / own array
      twin4     dihedrals and impropers over the same quadruples, one array used for both (types / fields differ)
      chain     tables derived from one another the way topology builders do: bonds = two neighbouring columns of the
                angle table, angles = three neighbouring columns of the dihedral table, handed over as column views
      slices    dihedrals and impropers are two row ranges (possibly overlapping) of one master array of quadruples
    Terms live on a random pool of the atoms, so that some atoms touch no term at all."""
    aj = gen.rand_atoms(rng, n=n, kinds=[], cell=None)
    need = min(n, 2 if family == "plain" else 4)      # enough atoms in the pool for the family's widest table
    size = rng.randint(need, n)
    if size == n and n > need and rng.random() < 0.6:
        size = rng.randint(need, n - 1)               # mostly leave at least one atom that touches no term
    pool = sorted(rng.sample(range(n), size))
    if rng.random() < 0.5 and n > 2:      # spectators at the low end: every term index lies above them
        pool = list(range(n - len(pool), n))
    tag = [0]
    tup = {k: [] for k in gen.KINDS}
    lay = {k: "list" for k in gen.KINDS}

    def draw(ar, m):
        if len(pool) < ar:
            return []
        return [rng.sample(pool, ar) for _ in range(m)]

    def own():
        return rng.choice(["list", "tuples", "array", "array", "array"])

    if family == "plain":
        for k in gen.KINDS:
            if rng.random() < 0.75:
                tup[k] = draw(gen.ARITY[k], rng.randint(1, 4))
            lay[k] = own() if tup[k] else "list"
    elif family == "twin4":
        quads = draw(4, rng.randint(1, 4))
        tup["dihedral"] = quads
        tup["improper"] = [list(t) for t in quads]
        if quads:
            first, second = rng.sample(["dihedral", "improper"], 2)
            lay[first] = "array"
            lay[second] = "same:" + first
        for k in ("bond", "angle"):
            if rng.random() < 0.6:
                tup[k] = draw(gen.ARITY[k], rng.randint(1, 3))
                lay[k] = own() if tup[k] else "list"
    elif family == "chain":
        top = rng.choice(["angle", "dihedral", "dihedral"])
        tup[top] = draw(gen.ARITY[top], rng.randint(1, 4))
        if tup[top]:
            lay[top] = "array"
            if top == "dihedral":
                if rng.random() < 0.7:
                    c = rng.randint(0, 1)
                    tup["angle"] = [t[c:c + 3] for t in tup["dihedral"]]
                    lay["angle"] = "cols:dihedral:%d" % c
                if rng.random() < 0.5:
                    tup["improper"] = draw(4, rng.randint(1, 2))
                    lay["improper"] = own() if tup["improper"] else "list"
            if rng.random() < 0.8:
                src = "angle" if (tup["angle"] and rng.random() < 0.6) or top == "angle" else "dihedral"
                c = rng.randint(0, gen.ARITY[src] - 2)
                tup["bond"] = [t[c:c + 2] for t in tup[src]]
                lay["bond"] = "cols:%s:%d" % (src, c)
    elif family == "slices":
        quads = draw(4, rng.randint(2, 5))
        if quads:
            master, part = rng.sample(["dihedral", "improper"], 2)
            ni = rng.randint(1, len(quads))
            r0 = rng.randint(0, len(quads) - ni)
            tup[master] = quads
            tup[part] = [list(t) for t in quads[r0:r0 + ni]]
            lay[master] = "array"
            lay[part] = "rows:%s:%d" % (master, r0)
        if rng.random() < 0.6:
            tup["bond"] = draw(2, rng.randint(1, 3))
            lay["bond"] = own() if tup["bond"] else "list"
    else:
        raise ValueError(family)
    for k in gen.KINDS:
        terms, table, xl = _terms_for(rng, k, tup[k], tag, None)
        aj["terms"][k] = terms
        aj["types"][k] = table
        aj["xlabels"][k] = xl
        if not terms:
            lay[k] = "list"
    return aj, lay


FAMILIES = ["plain", "twin4", "twin4", "chain", "chain", "slices"]


def _free_atoms(state, kinds):
    used = {x for k in kinds for t in state["terms"][k] for x in t["a"]}
    return [i for i in range(len(state["atoms"])) if i not in used]


def rand_indices(rng, state, lay):
    """an index list for one deletion on a structure currently equal to `state`: atoms that no term touches / that no
    row of one (preferably shared) table touches / a random subset; any listing order; sometimes numpy's negative
    spelling"""
    n = len(state["atoms"])
    shared = [k for k in gen.KINDS if lay[k].split(":")[0] in ("same", "cols", "rows")]
    shared += [lay[k].split(":")[1] for k in shared]
    u = rng.random()
    pick = None
    if u < 0.3:
        pick = _free_atoms(state, gen.KINDS)
    elif u < 0.6:
        ks = shared or [k for k in gen.KINDS if state["terms"][k]] or gen.KINDS
        pick = _free_atoms(state, [rng.choice(ks)])
    if pick:
        idx = rng.sample(pick, rng.randint(1, min(len(pick), 3)))
        mode = "free"
    else:
        idx = rng.sample(range(n), rng.randint(1, max(1, n - 1)))
        mode = "any"
    if rng.random() < 0.25:
        idx = [i - n if rng.random() < 0.5 else i for i in idx]
    return idx, mode


def rand_program(rng, aj, lay, nsteps=None):
    """a short program: further objects and deletions on all of them"""
    steps = []
    states = [aj]
    nobj = rng.choice([1, 1, 2, 2, 3])
    nsteps = nsteps or rng.randint(1, 3)
    for _ in range(nobj - 1):
        how = rng.choice(["ctor", "attrs", "copy", "deepcopy"])
        src = rng.randrange(len(states))
        if rng.random() < 0.3 and len(states[src]["atoms"]) > 2:
            # the source has already been shortened when the further object is made
            idx, _m = rand_indices(rng, states[src], lay)
            n = len(states[src]["atoms"])
            steps.append(["del", src, idx])
            states[src] = ideal_delete(states[src], {i % n for i in idx})
        steps.append(["new", how, src])
        states.append(aj if how == "ctor" else states[src])
    order = list(range(len(states)))
    rng.shuffle(order)
    todo = order + [rng.randrange(len(states)) for _ in range(max(0, nsteps - len(order)))]
    for o in todo:
        n = len(states[o]["atoms"])
        if n == 0:
            continue
        if rng.random() < 0.12:
            i = rng.choice([None, rng.randint(-n, n - 1)])
            steps.append(["pop", o, i])
            dead = {(n - 1) if i is None else i % n}
        else:
            idx, _m = rand_indices(rng, states[o], lay)
            steps.append(["del", o, idx])
            dead = {i % n for i in idx}
        states[o] = ideal_delete(states[o], dead)
    return steps


def scenario(rng, aj, lay, steps):
    has_array = any(l != "list" and l != "tuples" for l in lay.values())
    return {"op": "delete_scn", "a": aj, "tables": lay,
            "types": rng.choice(["list", "array", "shared"]),
            "dtype": "int32" if rng.random() < 0.1 else "int64",
            "readonly": bool(has_array and rng.random() < 0.15),
            "steps": steps}
