"""Shared machinery of the mofun verification harness (see DESIGN.md §2, §3, §5).

Real code runs in-process (the repo is an editable install: mofun.__file__ is under /repo);
the Lean model runs as `lake env lean --run Driver.lean` behind a JSON line protocol.
"""
import contextlib
import fcntl
import hashlib
import io
import json
import os
import random
import re
import subprocess
import sys
import time
from fractions import Fraction

os.environ.setdefault("MOFUN_VERIF", "1")

VERIF = os.path.dirname(os.path.dirname(os.path.abspath(__file__)))
LEAN = os.path.join(VERIF, "lean")
REPO = os.environ.get("MOFUN_REPO", "/repo")
EVIDENCE = os.environ.get("VERIF_EVIDENCE_DIR") or os.path.join(VERIF, "evidence")
REPLAYS = os.path.join(EVIDENCE, "replays")
ALLOWED_AXIOMS = {"propext", "Classical.choice", "Quot.sound"}

if REPO not in sys.path:
    sys.path.insert(0, REPO)


@contextlib.contextmanager
def quiet():
    """silence the code's own WARNING prints (stderr and stdout)"""
    old_err, old_out = sys.stderr, sys.stdout
    sys.stderr = io.StringIO()
    sys.stdout = io.StringIO()
    try:
        yield
    finally:
        sys.stderr, sys.stdout = old_err, old_out


# ------------------------------------------------------------------ exact numbers

def q(x):
    """a python/numpy number as the exact rational it is: "n" or "n/d" """
    if isinstance(x, Fraction):
        f = x
    elif isinstance(x, (int,)) or (hasattr(x, "dtype") and getattr(x.dtype, "kind", "") in "iu"):
        f = Fraction(int(x))
    else:
        f = Fraction(float(x))
    return str(f.numerator) if f.denominator == 1 else "%d/%d" % (f.numerator, f.denominator)


def unq(s):
    if isinstance(s, (int, float)):
        return Fraction(s)
    return Fraction(s)


def close(a, b, tol=1e-9):
    fa, fb = unq(a), unq(b)
    if fa == fb:
        return True
    d = abs(fa - fb)
    return d <= tol or d <= tol * max(abs(fa), abs(fb))


NUMERIC_KEYS = {"pos", "q", "mass", "cell", "slack"}


def same(a, b, numeric=False, tol=1e-9, path=""):
    """structural equality of two canonical JSON values; numbers under NUMERIC_KEYS are compared as
    rationals with tolerance `tol`. Returns None when equal, else a short description of the first difference."""
    if isinstance(a, dict) and isinstance(b, dict):
        if set(a) != set(b):
            return "%s: keys %s vs %s" % (path, sorted(a), sorted(b))
        for k in a:
            r = same(a[k], b[k], numeric or k in NUMERIC_KEYS, tol, path + "/" + k)
            if r:
                return r
        return None
    if isinstance(a, list) and isinstance(b, list):
        if len(a) != len(b):
            return "%s: length %d vs %d" % (path, len(a), len(b))
        for i, (x, y) in enumerate(zip(a, b)):
            r = same(x, y, numeric, tol, "%s[%d]" % (path, i))
            if r:
                return r
        return None
    if numeric and a is not None and b is not None and not isinstance(a, (dict, list)) and not isinstance(b, (dict, list)):
        try:
            return None if close(a, b, tol) else "%s: %s vs %s" % (path, a, b)
        except (ValueError, ZeroDivisionError):
            pass
    if a != b or type(a) != type(b):
        if isinstance(a, bool) or isinstance(b, bool) or type(a) != type(b) or a != b:
            return "%s: %r vs %r" % (path, a, b)
    return None


# ------------------------------------------------------------------ Atoms <-> canonical JSON

KINDS = [("bond", "bonds", "bond_types", "extra_bond_fields", "extra_bond_labels", "bond_type_coeffs"),
         ("angle", "angles", "angle_types", "extra_angle_fields", "extra_angle_labels", "angle_type_coeffs"),
         ("dihedral", "dihedrals", "dihedral_types", "extra_dihedral_fields", "extra_dihedral_labels", "dihedral_type_coeffs"),
         ("improper", "impropers", "improper_types", "extra_improper_fields", "extra_improper_labels", "improper_type_coeffs")]


def _rows(fields, n):
    """extra_*_fields (n x m array of anything) as n lists of str"""
    try:
        import numpy as np
        arr = np.array(fields, dtype=object)
        if arr.ndim == 2 and arr.shape[0] == n:
            return [[str(v) for v in row] for row in arr]
    except Exception:
        pass
    return [[] for _ in range(n)]


def canon_atoms(a):
    """canonical JSON of a real mofun.Atoms (DESIGN.md Appendix B)"""
    n = len(a.atom_types)
    xa = _rows(a.extra_atom_fields, n)
    out = {
        "cell": None if a.cell is None else [[q(v) for v in row] for row in a.cell],
        "atoms": [{"ty": int(a.atom_types[i]), "pos": [q(v) for v in a.positions[i]], "q": q(a.charges[i]),
                   "g": int(a.groups[i]), "x": xa[i]} for i in range(n)],
        "terms": {}, "types": {}, "xlabels": {"atom": [str(s) for s in a.extra_atom_labels]},
    }
    for k, tups, types, xf, xl, coeffs in KINDS:
        t = getattr(a, tups)
        ty = getattr(a, types)
        m = len(ty)
        x = _rows(getattr(a, xf), m)
        out["terms"][k] = [{"a": [int(v) for v in t[i]], "ty": int(ty[i]), "x": x[i]} for i in range(m)]
        out["types"][k] = [str(s) for s in getattr(a, coeffs)]
        out["xlabels"][k] = [str(s) for s in getattr(a, xl)]
    out["types"]["elem"] = [str(s) for s in a.atom_type_elements]
    out["types"]["label"] = [str(s) for s in a.atom_type_labels]
    out["types"]["mass"] = [q(m) for m in a.atom_type_masses]
    out["types"]["pair"] = [str(s) for s in a.pair_coeffs]
    return out


def atoms_from_json(j):
    """build a real mofun.Atoms from canonical JSON"""
    import numpy as np
    from mofun import Atoms
    kw = {}
    rows = j["atoms"]
    kw["atom_types"] = [r["ty"] for r in rows]
    kw["positions"] = [[float(unq(v)) for v in r["pos"]] for r in rows]
    kw["charges"] = [float(unq(r["q"])) for r in rows]
    kw["groups"] = [r["g"] for r in rows]
    ty = j.get("types", {})
    kw["atom_type_elements"] = list(ty.get("elem", []))
    kw["atom_type_labels"] = list(ty.get("label", []))
    kw["atom_type_masses"] = [float(unq(m)) for m in ty.get("mass", [])]
    kw["pair_coeffs"] = list(ty.get("pair", []))
    xl = j.get("xlabels", {})
    kw["extra_atom_labels"] = list(xl.get("atom", []))
    if kw["extra_atom_labels"]:
        kw["extra_atom_fields"] = np.array([r.get("x", []) for r in rows], dtype=object).reshape(len(rows), len(kw["extra_atom_labels"]))
    for k, tups, types, xf, xlab, coeffs in KINDS:
        ts = j.get("terms", {}).get(k, [])
        kw[tups] = [t["a"] for t in ts]
        kw[types] = [t["ty"] for t in ts]
        kw[coeffs] = list(ty.get(k, []))
        labs = list(xl.get(k, []))
        kw[xlab] = labs
        if labs:
            kw[xf] = np.array([t.get("x", []) for t in ts], dtype=object).reshape(len(ts), len(labs))
    if j.get("cell") is not None:
        kw["cell"] = [[float(unq(v)) for v in row] for row in j["cell"]]
    with quiet():
        if not rows:
            a = Atoms(cell=kw.get("cell"))
            return a
        return Atoms(**kw)


def result_of(fn):
    """run `fn` on the real code; map the outcome onto the protocol's result enum"""
    from mofun.mofun import AtomsShouldNotBeDeletedTwice
    try:
        with quiet():
            r = fn()
        return {"ok": r}
    except AtomsShouldNotBeDeletedTwice:
        return {"err": "overlap"}
    except IndexError:
        return {"err": "error:index"}
    except Exception as e:  # noqa
        return {"err": "error:" + type(e).__name__}


# ------------------------------------------------------------------ Lean side

def _run(cmd, cwd, timeout=None):
    return subprocess.run(cmd, cwd=cwd, stdout=subprocess.PIPE, stderr=subprocess.STDOUT, text=True, timeout=timeout)


class BuildResult:
    def __init__(self, ok, log, failed):
        self.ok, self.log, self.failed = ok, log, failed


@contextlib.contextmanager
def generated_lock():
    """exclusive lock over 'regenerate Generated/*.lean, build, audit' (re-entrant use is not needed: lake_build takes a
    different lock file)"""
    os.makedirs(os.path.join(LEAN, ".lake"), exist_ok=True)
    with open(os.path.join(LEAN, ".lake", "generated.lock"), "w") as lk:
        fcntl.flock(lk, fcntl.LOCK_EX)
        yield


def lake_build(targets, timeout=3000):
    """`lake build <targets>` under a file lock; returns BuildResult (failed = module names that did not build)"""
    os.makedirs(os.path.join(LEAN, ".lake"), exist_ok=True)
    with open(os.path.join(LEAN, ".lake", "verif.lock"), "w") as lk:
        fcntl.flock(lk, fcntl.LOCK_EX)
        p = _run(["lake", "build"] + list(targets), LEAN, timeout)
    failed = re.findall(r"^- (\S+)", p.stdout, flags=re.M)
    return BuildResult(p.returncode == 0, p.stdout, failed)


def lean_file(path, timeout=3000):
    """`lake env lean <path>`: returns (rc, output)"""
    p = _run(["lake", "env", "lean", path], LEAN, timeout)
    return p.returncode, p.stdout


def leanchecker(modules, timeout=3000):
    """`lake env leanchecker <modules>`: the toolchain's independent re-checker of the compiled .olean files"""
    try:
        p = _run(["lake", "env", "leanchecker"] + list(modules), LEAN, timeout)
        return p.returncode, p.stdout
    except Exception as e:  # noqa
        return 1, repr(e)


FORBIDDEN = re.compile(r"\b(sorry|admit|native_decide|bv_decide|implemented_by|unsafe)\b|^\s*axiom\s|maxHeartbeats\s+0\b", re.M)


def strip_comments(src):
    src = re.sub(r"/-.*?-/", "", src, flags=re.S)
    return re.sub(r"--.*", "", src)


def import_closure(modules):
    """files of the project reachable from `modules` through `import MofunModel.…` lines"""
    seen, todo = set(), list(modules)
    while todo:
        m = todo.pop()
        if m in seen or not m.startswith("MofunModel"):
            continue
        seen.add(m)
        p = os.path.join(LEAN, *m.split(".")) + ".lean"
        if os.path.exists(p):
            for imp in re.findall(r"^\s*import\s+(MofunModel[\w.]*)", open(p).read(), flags=re.M):
                todo.append(imp)
    return sorted(seen)


def scan_sources(modules=None):
    """textual scan (comments removed) for forbidden constructs of every project file the given modules depend on
    (all project files when `modules` is None)"""
    hits = []
    if modules is None:
        paths = []
        for root, _, files in os.walk(LEAN):
            if ".lake" in root:
                continue
            paths += [os.path.join(root, f) for f in files if f.endswith(".lean")]
    else:
        paths = [os.path.join(LEAN, *m.split(".")) + ".lean" for m in import_closure(modules)]
    for p in paths:
        if not os.path.exists(p):
            continue
        src = strip_comments(open(p).read())
        for m in FORBIDDEN.finditer(src):
            hits.append("%s: %s" % (os.path.relpath(p, LEAN), m.group(0).strip()))
    return hits


def audit(prop_id, theorems, modules):
    """#print axioms for every listed theorem; returns {theorem: {"ok": bool, "axioms": [...], "msg": str}}"""
    os.makedirs(os.path.join(LEAN, ".lake", "audit"), exist_ok=True)
    path = os.path.join(LEAN, ".lake", "audit", "Audit_%s.lean" % prop_id)
    with open(path, "w") as f:
        for m in modules:
            f.write("import %s\n" % m)
        for t in theorems:
            f.write("#print axioms %s\n" % t)
    rc, out = lean_file(path)
    res = {}
    # output: "'name' depends on axioms: [a, b]" or "'name' does not depend on any axioms"
    for t in theorems:
        m = re.search(r"'%s' depends on axioms: \[([^\]]*)\]" % re.escape(t), out, flags=re.S)
        if m:
            ax = [a.strip() for a in m.group(1).replace("\n", " ").split(",") if a.strip()]
            res[t] = {"ok": set(ax) <= ALLOWED_AXIOMS, "axioms": ax, "msg": ""}
        elif re.search(r"'%s' does not depend on any axioms" % re.escape(t), out):
            res[t] = {"ok": True, "axioms": [], "msg": ""}
        else:
            res[t] = {"ok": False, "axioms": [], "msg": "not found / does not elaborate: " + out[-400:]}
    return res


class Lean:
    """the model behind the line protocol; one process per batch"""

    def __init__(self, driver="drivers/Topo.lean"):
        self.driver = driver
        self.lines = 0
        self.calls = 0

    def run(self, ops, timeout=3000):
        """ops: list of JSON-able dicts -> list of parsed JSON results (same length)"""
        if not ops:
            return []
        data = "\n".join(json.dumps(o, separators=(",", ":")) for o in ops) + "\n"
        p = subprocess.run(["lake", "env", "lean", "--run", self.driver], cwd=LEAN, input=data,
                           stdout=subprocess.PIPE, stderr=subprocess.PIPE, text=True, timeout=timeout)
        out = [l for l in p.stdout.split("\n") if l.strip()]
        self.lines += len(ops)
        self.calls += 1
        if p.returncode != 0 or len(out) != len(ops):
            raise RuntimeError("lean driver failed rc=%s out=%d/%d: %s" % (p.returncode, len(out), len(ops), (p.stderr or p.stdout)[-2000:]))
        return [json.loads(l) for l in out]


# ------------------------------------------------------------------ known findings

def load_findings():
    p = os.path.join(VERIF, "known_findings.json")
    if not os.path.exists(p):
        return []
    return json.load(open(p))


def sha(obj):
    return hashlib.sha1(json.dumps(obj, sort_keys=True, default=str).encode()).hexdigest()[:12]
