"""Generators used only by the C03 check: NEARLY LINEAR patterns.

A pattern of 3-5 atoms strung along a line, the inner atoms pushed off that line by at most r = f * atol, with f from
0 (exactly collinear) over the window 0.5 < f < 1 (bend visible to the final per-coordinate comparison only after a
roll about the long axis: a roll by the angle t moves such an atom by 2 r sin(t/2), which exceeds atol for t large
enough) up to a few atol (clearly bent).  The search aligns a pattern with its occurrence by the long axis plus ONE
azimuth about it, taken from the atom farthest off the axis -- for these patterns that atom is only a fraction of the
tolerance away from the axis, so whether (and how) the azimuth is fixed decides whether an occurrence that is presented
rolled about its own axis relative to the pattern is still reported.

Ground truth by construction: rigid copies (exact, or every atom displaced by <= atol/40 resp. atol/16) in distinct
random poses, far enough from each other that no atom group can mix two copies; additionally validated by the
independent brute-force enumerator of gen_find_c02 (the planted groups are exactly the occurrences, none ambiguous)."""
import math

import numpy as np

from . import findlib as fl, gen_find_c02 as g

BONDS = [1.0, 1.125, 1.25, 1.375, 1.5, 1.625, 1.75]
ELEMENTS = ["N", "C", "O", "S", "P", "F", "Cl", "H", "Si", "B"]
# classes of the bend factor f = (largest distance of an atom from the long axis) / atol
BEND = {"collinear": (0.0, 0.0), "tiny": (1e-6, 0.05), "below-half": (0.1, 0.5), "window": (0.52, 0.97),
        "just-above": (1.03, 1.6), "clear": (1.6, 4.0)}
BEND_DRAW = ["collinear", "tiny", "below-half", "window", "window", "window", "window", "just-above", "clear"]
PERTURB = [0.0, 0.0, 40.0, 40.0, 16.0]          # 0 = exact rigid image, else per-atom noise atol / value


def rot_of(quat):
    return np.array([[float(x) for x in row] for row in fl.rotmat(quat)])


def near_linear_pattern(rng, atol, bend=None):
    """(elements, coordinates (k x 3 float array, long axis along x, end atoms ON the axis), bend class, f)"""
    k = rng.choice([3, 3, 3, 4, 4, 5])
    xs = [0.0]
    for _ in range(k - 1):
        xs.append(xs[-1] + rng.choice(BONDS))
    bend = bend or rng.choice(BEND_DRAW)
    lo, hi = BEND[bend]
    f = rng.uniform(lo, hi)
    r = f * atol
    P = np.zeros((k, 3))
    P[:, 0] = xs
    inner = list(range(1, k - 1))
    main = rng.choice(inner)
    for i in inner:
        ri = r if i == main else r * rng.uniform(0.0, 0.9) * (rng.random() < 0.7)
        phi = rng.uniform(0, 2 * math.pi) if rng.random() < 0.7 else rng.choice([0.0, math.pi / 2, math.pi])
        P[i, 1], P[i, 2] = ri * math.cos(phi), ri * math.sin(phi)
    if rng.random() < 0.3:
        pool = rng.sample(ELEMENTS, 2)
        els = [rng.choice(pool) for _ in range(k)]
    else:
        els = rng.sample(ELEMENTS, k)
    return els, P, bend, f


def axis_roll(ppos, angle):
    """quaternion (x, y, z, w; floats) of the rotation by `angle` about the direction of the pattern's own long axis
    (its farthest pair of atoms), whatever pose the pattern is given in"""
    P = np.array(ppos, dtype=float)
    d2 = ((P[:, None, :] - P[None, :, :]) ** 2).sum(axis=2)
    i, j = np.unravel_index(np.argmax(d2), d2.shape)
    u = (P[j] - P[i]) / math.sqrt(d2[i, j])
    s = math.sin(angle / 2)
    return [float(u[0] * s), float(u[1] * s), float(u[2] * s), float(math.cos(angle / 2))]


def near_linear_case(rng, atol=0.05, bend=None, max_tries=10):
    """a periodic structure with 1-3 planted copies of a nearly linear pattern; None when no unambiguous one came out"""
    els, P0, bend, f = near_linear_pattern(rng, atol, bend)
    k = len(els)
    # the pattern as handed to the search: along x / in another exact pose / arbitrarily posed and placed
    R0 = rot_of(fl.rat_quat(rng, rng.choice(["identity", "axis90", "random", "random"])))
    t0 = np.array([rng.choice([0.0, rng.uniform(-5, 5)]) for _ in range(3)])
    P = P0.dot(R0.T) + t0
    d = float(np.sqrt(((P[:, None] - P[None]) ** 2).sum(-1).max()))
    sep = d + 4 * atol + 1.0
    pdiv = rng.choice(PERTURB)
    for _ in range(max_tries):
        cf = g._cell(rng, rng.choice(["ortho", "ortho", "tri+", "tri-", "rot", "upper", "ortho-2"]), d, atol, False)
        cinv = np.linalg.inv(cf)
        elems, pos, plant = [], [], []
        for _copy in range(rng.randint(1, 3)):
            for _try in range(30):
                R = rot_of(fl.rat_quat(rng, rng.choice(["random", "random", "random", "identity", "axis90", "axis180"])))
                fr = [rng.choice(g.FRACS) if rng.random() < 0.3 else rng.random() for _ in range(3)]
                X = P0.dot(R.T) + np.array(fr).dot(cf)
                if pdiv:
                    X = X + np.array([[rng.uniform(-1, 1) for _ in range(3)] for _ in range(k)]) * (atol / pdiv / math.sqrt(3))
                X = np.array([g.wrap(x, cf, cinv) for x in X])
                ok = True
                for x in X:
                    for y in pos:
                        dv = (x - y).dot(cinv)
                        dv -= np.round(dv)
                        if np.linalg.norm(dv.dot(cf)) < sep:
                            ok = False
                            break
                    if not ok:
                        break
                if ok:
                    plant.append(tuple(range(len(pos), len(pos) + k)))
                    elems.extend(els)
                    pos.extend(X)
                    break
        if not plant:
            continue
        case = {"elems": elems, "pos": [[float(v) for v in x] for x in pos], "cell": cf.tolist(),
                "pattern": {"elems": list(els), "pos": P.tolist(), "name": "near-linear"}, "planted": sorted(plant),
                "info": {"cell": "near-linear", "pattern": "near-linear%d" % k, "copies": len(plant), "bend": bend,
                         "bend_over_atol": f, "perturb_div": pdiv, "tight": False}}
        ins, amb = g.brute_occurrences(elems, case["pos"], case["cell"], els, P.tolist(), atol)
        if not amb and ins == set(plant):
            return case
    return None


def conditioned_hints(ppos, max_ro=3.0, max_ra=2.5):
    """the valid hint triples (axis points distinct, a given orientation point off the resolved axis) whose lever ratios
    are small: the hinted orientation atom is at least 1/max_ro as far from the axis as the farthest atom"""
    P = np.array(ppos, dtype=float)
    out = []
    for h in g.valid_hints(ppos, min_off=1e-7):
        if h == (None, None, None):
            continue
        ra, ro, _ = g.hint_levers(ppos, h)
        if ro <= max_ro and ra <= max_ra:
            out.append(h)
    return out
