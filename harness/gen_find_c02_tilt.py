"""C02 generator: copies in NEARLY special poses, with lever arms that are long against the tolerance.

The clause of the property exercised here: *a rotated and translated copy of the pattern is reported* — for rotations
that differ from a special one (none at all, a turn about the search axis, a quarter / half turn about a coordinate
axis, the turn that reverses the search axis) only by a SMALL angle theta.  gen_find_c02.planted draws its poses from
{exactly special, random}: a random pose is never within 1e-2 rad of a special one, and an exactly special pose has
theta = 0.  In between lies the range in which an alignment routine is tempted to round (treat "almost parallel" as
parallel, "almost antiparallel" as antiparallel, drop a cross product that is "too small"): the copy is a perfectly
rigid image of the pattern, but an alignment that is off by theta misplaces an atom at distance L from the pivot by
theta * L.  What matters is therefore theta * L against atol, and the generator draws

    theta = (atol / L) * 10^u,   u uniform in [-2.5, 1.5]      (capped at 0.2 rad),   L = diameter of the pattern,

with L from the named patterns of findlib (1-3 A) and from random patterns made here with a long pair of 3-80 A
(log-uniform; a linker-sized or a framework-sized search pattern) and atol in {0.001 ... 0.05}.

Ground truth: by construction (the planted groups are rigid images of the pattern, exact or perturbed by <= atol/8;
the near misses have one distance changed by 3-5 atol) AND by the independent enumeration
gen_find_c02.brute_occurrences (plain Euclidean distances over the periodic images, best proper rigid fit by SVD),
which must find exactly the planted groups well inside the tolerance and nothing ambiguous."""
import math
from fractions import Fraction

import numpy as np

from . import findlib as fl, gen_find_c02 as g

ATOLS = [0.001, 0.002, 0.005, 0.01, 0.05, 0.05]
BASES = ["identity", "identity", "spin", "spin", "anti", "axis90", "axis180", "random"]
CELL_KINDS = ["ortho", "ortho", "tri+", "tri-", "rot", "upper", "sparse"]
ELEMENTS = [["C", "N", "O", "H"], ["C", "C", "N", "O"], ["Zn", "O", "C"], ["C", "O", "O", "H", "N"], ["Cu", "N", "C", "H"],
            ["C", "C", "C"], ["N", "C", "C", "N", "H"], ["Zr", "O", "C", "C", "H"], ["C", "H", "F", "Cl", "Br"]]
DIRS = [(1, 0, 0), (0, 1, 0), (0, 0, 1), (1, 2, 2, 3), (2, 3, 6, 7), (1, 4, 8, 9), (4, 4, 7, 9), (3, 4, 0, 5), (0, 3, 4, 5)]


def _dy(x, den=8):
    return Fraction(int(round(x * den)), den)


def lever_pattern(rng):
    """a random pattern of 3-5 atoms with ONE long pair (3-80 A, log-uniform) and the remaining atoms within ~1.5 A of
    the line between them (off the line by >= 0.4 A, so that the pattern is not collinear) -> (elems, [[Fraction]*3])"""
    els = list(rng.choice(ELEMENTS))
    n = len(els)
    L = _dy(math.exp(rng.uniform(math.log(3.0), math.log(80.0))))
    dv = rng.choice(DIRS)
    if len(dv) == 3:
        u = [Fraction(rng.choice([1, -1]) * x) for x in dv]
    else:
        v = list(dv[:3])
        rng.shuffle(v)
        u = [Fraction(rng.choice([1, -1]) * x, dv[3]) for x in v]
    o = [Fraction(0)] * 3 if rng.random() < 0.5 else [_dy(rng.uniform(-2, 2)) for _ in range(3)]
    pts = [list(o), [o[c] + L * u[c] for c in range(3)]]
    uf = np.array([float(x) for x in u])
    for _ in range(n - 2):
        for _ in range(200):
            # somewhere along the line (most often near one of the two ends), off it by 0.4-1.5 A
            r = rng.random()
            t = rng.uniform(0.05, 0.3) if r < 0.4 else rng.uniform(0.7, 0.95) if r < 0.8 else rng.uniform(0.3, 0.7)
            w = np.array([rng.gauss(0, 1) for _ in range(3)])
            w -= w.dot(uf) * uf
            if np.linalg.norm(w) < 0.2:
                continue
            w *= rng.uniform(0.4, 1.5) / np.linalg.norm(w)
            p = [o[c] + _dy(float(L) * t * uf[c] + w[c]) for c in range(3)]
            pf = np.array([float(x) for x in p])
            if all(np.linalg.norm(pf - np.array([float(x) for x in q])) >= 0.9 for q in pts):
                pts.append(p)
                break
        else:
            return None
    d = fl.diam(pts)
    if d > float(L) + 1e-9:                     # the long pair must stay the (unique) farthest pair
        return None
    order = list(range(n))
    if rng.random() < 0.5:                      # the long pair not always listed first
        rng.shuffle(order)
    return [els[i] for i in order], [pts[i] for i in order]


def pick_pattern(rng):
    if rng.random() < 0.35:
        name = rng.choice([k for k, v in fl.PATTERNS.items() if len(v[0]) >= 2])
        pj = fl.pattern_json(name)
        return {"elems": pj["elems"], "pos": pj["pos"], "name": name}
    for _ in range(20):
        lp = lever_pattern(rng)
        if lp is not None:
            return {"elems": lp[0], "pos": lp[1], "name": "lever%d" % len(lp[0])}
    pj = fl.pattern_json("asym5")
    return {"elems": pj["elems"], "pos": pj["pos"], "name": "asym5"}


def rotvec_matrix(axis, angle):
    """Rodrigues' formula (float)"""
    k = np.asarray(axis, dtype=float)
    k = k / np.linalg.norm(k)
    K = np.array([[0, -k[2], k[1]], [k[2], 0, -k[0]], [-k[1], k[0], 0]])
    return np.eye(3) + math.sin(angle) * K + (1 - math.cos(angle)) * K.dot(K)


def near_special_rotation(rng, base, ppos, theta):
    """a rotation matrix (float) = (turn by theta about a random axis) o (special rotation `base`)"""
    if base == "spin":            # any angle about the search axis: the axis keeps its direction
        ax = np.array([float(x) for x in g.search_axis(ppos)])
        B = rotvec_matrix(ax, rng.uniform(-math.pi, math.pi))
    else:
        B = np.array([[float(x) for x in row] for row in g.pose_rotation(rng, base, ppos)])
    while True:
        k = np.array([rng.gauss(0, 1) for _ in range(3)])
        if np.linalg.norm(k) > 0.1:
            break
    return rotvec_matrix(k, theta).dot(B)


def tilt_case(rng, atol=None, pattern=None, max_tries=8, exact=False):
    """A periodic structure with 1-2 copies of the pattern in nearly special poses (see module text), inside the cell or
    across faces / edges / corners, sometimes a control copy in a random pose, a near miss in a nearly special pose and
    a lone same-element atom.  exact=True: no copy is perturbed.  Returns the usual case dict (gen_find_c02.planted) with atol / thetas in info, or None."""
    pat = pattern or pick_pattern(rng)
    pel, ppos = pat["elems"], pat["pos"]
    pf = [[float(x) for x in p] for p in ppos]
    d = fl.diam(ppos)
    atol = atol if atol is not None else rng.choice(ATOLS)
    if d < 20 * atol:
        return None

    def theta():
        return min(0.2, atol / d * 10 ** rng.uniform(-2.5, 1.5))

    for attempt in range(max_tries):
        cell_kind = rng.choice(CELL_KINDS)
        tight = rng.random() < 0.15
        cf = g._cell(rng, cell_kind, d, atol, tight)
        cinv = np.linalg.inv(cf)
        elems, pos, plant, kinds, thetas = [], [], [], [], []

        def far_enough(pts, dmin=1.0):
            for p in pts:
                for qpt in pos:
                    dv = (np.array(p) - np.array(qpt)).dot(cinv)
                    dv -= np.round(dv)
                    if np.linalg.norm(dv.dot(cf)) < dmin:
                        return False
            return True

        def place(src, els, Rm_of, frac, perturb):
            for _ in range(40):
                Rm = Rm_of()
                fr = frac if frac is not None else [rng.random() for _ in range(3)]
                origin = np.array(fr, dtype=float).dot(cf)
                pts = []
                for p in src:
                    v = Rm.dot(np.array(p, dtype=float)) + origin
                    if perturb:
                        v = v + np.array([rng.uniform(-1, 1) for _ in range(3)]) * (atol / 8 / math.sqrt(3))
                    pts.append(g.wrap(v, cf, cinv))
                if far_enough(pts):
                    base = len(pos)
                    elems.extend(els)
                    pos.extend(pts)
                    return list(range(base, base + len(pts)))
                if frac is not None:
                    return None
            return None

        def a_frac():
            return [rng.choice(g.FRACS) if rng.random() < 0.7 else rng.random() for _ in range(3)] if rng.random() < 0.5 else None

        ok = True
        for _ in range(1 if tight else rng.randint(1, 2)):
            base, th = rng.choice(BASES), theta()
            rot = lambda: near_special_rotation(rng, base, ppos, th)
            perturb = (rng.random() < 0.5) and not exact
            grp = place(pf, pel, rot, a_frac(), perturb) or place(pf, pel, rot, None, perturb)
            if grp is None:
                ok = False
                break
            plant.append(tuple(sorted(grp)))
            kinds.append("copy:near-" + base)
            thetas.append(th)
        if not ok:
            continue
        if not tight and rng.random() < 0.3:          # control: a copy in a random pose
            grp = place(pf, pel, lambda: near_special_rotation(rng, "random", ppos, 0.0), a_frac(), not exact)
            if grp is not None:
                plant.append(tuple(sorted(grp)))
                kinds.append("copy:random")
        if not tight and rng.random() < 0.4:          # near miss in a nearly special pose: one distance off by 3-5 atol
            src = [list(p) for p in pf]
            k = rng.randrange(len(src))
            j = rng.choice([i for i in range(len(src)) if i != k])
            bond = np.array(src[k]) - np.array(src[j])
            src[k] = list(np.array(src[k]) + bond / np.linalg.norm(bond) * rng.uniform(3, 5) * atol)
            base, th = rng.choice(BASES), theta()
            if place(src, pel, lambda: near_special_rotation(rng, base, ppos, th), None, False) is not None:
                kinds.append("decoy:nearmiss")
        if not tight and rng.random() < 0.3:
            if place([pf[0]], [rng.choice(pel)], lambda: np.eye(3), None, False) is not None:
                kinds.append("decoy:distractor")
        case = {"elems": elems, "pos": [[float(x) for x in v] for v in pos], "cell": [[float(v) for v in row] for row in cf],
                "pattern": {"elems": list(pel), "pos": pf, "name": pat["name"]}, "planted": sorted(plant),
                "info": {"cell": cell_kind, "pattern": pat["name"], "copies": len(plant), "kinds": kinds, "tight": bool(tight),
                         "attempts": attempt + 1, "atol": atol, "exact": bool(exact), "diameter": d, "thetas": thetas,
                         "theta*L/atol": [t * d / atol for t in thetas]}}
        ins, amb = g.brute_occurrences(elems, case["pos"], case["cell"], pel, pf, atol)
        if not amb and ins == set(plant) and len(set(plant)) == len(plant):
            r = rng.random()
            if r < 0.3:
                case = g.relist(case, rng, "random" if r < 0.2 else "reversed")
            if rng.random() < 0.2:
                case = g.unwrap(case, rng)
            return case
    return None
