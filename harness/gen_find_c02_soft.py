"""C02 generator: FLAT patterns (rods of >= 3 atoms, planar groups of >= 4 atoms) with "soft" near-miss decoys.

The clause of the property exercised here: *nothing is reported that lies clearly outside the tolerance*.

The near misses of gen_find_c02.planted change one interatomic DISTANCE by 3..5 atol, so the pairwise-distance stage of
the search already rejects them.  A flat pattern has a second kind of near miss: an atom displaced PERPENDICULAR to the
line / plane that holds all the atoms changes every distance only in second order (by ~h^2 / 2d), while the group is no
rigid image of the pattern any more (a bent rod, a puckered ring).  With h ~ sqrt(2 d atol) >> atol every pairwise
distance still agrees within the tolerance and only a comparison of POSITIONS after the alignment can tell the group
from an occurrence.

Ground truth: by construction (straight / flat copies, perturbed by <= atol/8, are the occurrences; bent / puckered
groups are none) AND by the independent enumeration gen_find_c02.brute_occurrences, which must find exactly the planted
groups well inside the tolerance and every other group clearly outside (best proper rigid fit with rmsd > 2 atol, which
excludes per-coordinate deviations <= atol under ANY rigid placement, the code's own included).  A case is dropped when
any group is ambiguous.

Patterns: the flat ones of findlib.PATTERNS (collinear3, collinear_asym, planar4 and their @y/@z poses) and random
ones made here: rods of 3-5 atoms (bonds 1-2.5 A, dyadic, along x / y / z / a general direction, not through the
origin, elements with repeats) and planar groups of 4-6 atoms in a randomly oriented plane."""
import math
from fractions import Fraction

import numpy as np

from . import findlib as fl, gen_find_c02 as g

FLAT_NAMED = ["collinear3", "collinear_asym", "collinear_asym@y", "collinear_asym@z", "planar4", "planar4@y", "planar4@z"]
ATOLS = [0.001, 0.01, 0.02, 0.05, 0.05, 0.05, 0.1]
ROD_ELEMENTS = [["H", "C", "N"], ["O", "C", "O"], ["N", "N", "N"], ["C", "C", "H"], ["H", "C", "C", "H"], ["S", "C", "N"],
                ["C", "C", "C", "C"], ["N", "C", "C", "N"], ["H", "C", "C", "C", "N"], ["Cl", "C", "C", "Cl"], ["O", "C", "S"]]
FLAT_ELEMENTS = [["C", "O", "O", "H"], ["B", "F", "F", "F"], ["C", "C", "C", "C"], ["N", "O", "O", "O"], ["C", "N", "C", "N", "H"],
                 ["C", "C", "C", "C", "C", "C"], ["C", "H", "H", "O"], ["S", "O", "O", "O"]]


def _dy(x, den=8):
    return Fraction(int(round(x * den)), den)


def random_rod(rng):
    """a collinear pattern of 3-5 atoms -> (elems, [[Fraction]*3])"""
    els = list(rng.choice(ROD_ELEMENTS))
    if rng.random() < 0.3:
        els.reverse()
    bonds = [_dy(rng.uniform(1.0, 2.5)) for _ in range(len(els) - 1)]
    t = [Fraction(0)]
    for b in bonds:
        t.append(t[-1] + b)
    r = rng.random()
    if r < 0.55:
        ax = rng.randrange(3)
        u = [Fraction(0)] * 3
        u[ax] = Fraction(rng.choice([1, 1, -1]))
    else:                                   # a general rational unit direction (Pythagorean quadruples)
        a, b, c, n = rng.choice([(1, 2, 2, 3), (2, 3, 6, 7), (1, 4, 8, 9), (4, 4, 7, 9), (2, 6, 9, 11), (3, 4, 0, 5), (0, 3, 4, 5)])
        v = [a, b, c]
        rng.shuffle(v)
        u = [Fraction(rng.choice([1, -1]) * x, n) for x in v]
    o = [Fraction(0)] * 3 if rng.random() < 0.5 else [_dy(rng.uniform(-2, 2)) for _ in range(3)]
    shift = rng.choice([Fraction(0), Fraction(0), -t[len(t) // 2]])          # some rods centred on their middle atom
    pos = [[o[c] + (s + shift) * u[c] for c in range(3)] for s in t]
    if rng.random() < 0.3:                  # the atoms not listed in their order along the rod
        order = list(range(len(els)))
        rng.shuffle(order)
        els, pos = [els[i] for i in order], [pos[i] for i in order]
    return els, pos


def random_planar(rng):
    """a planar pattern of 4-6 atoms (no three of them on a line, nearest neighbours >= 1 A) in a rational plane"""
    els = list(rng.choice(FLAT_ELEMENTS))
    n = len(els)
    for _ in range(200):
        pts = [(Fraction(0), Fraction(0))]
        while len(pts) < n:
            p = (_dy(rng.uniform(-2.5, 2.5)), _dy(rng.uniform(-2.5, 2.5)))
            if all(math.hypot(float(p[0] - q[0]), float(p[1] - q[1])) >= 1.0 for q in pts):
                pts.append(p)
        ok = True
        for i in range(n):
            for j in range(i + 1, n):
                for k in range(j + 1, n):
                    ar = abs(float((pts[j][0] - pts[i][0]) * (pts[k][1] - pts[i][1]) - (pts[j][1] - pts[i][1]) * (pts[k][0] - pts[i][0])))
                    if ar < 0.6:
                        ok = False
        if ok:
            break
    else:
        return None
    Rm = fl.rotmat(fl.rat_quat(rng, rng.choice(["identity", "random", "axis90"])))
    o = [Fraction(0)] * 3 if rng.random() < 0.5 else [_dy(rng.uniform(-1, 1)) for _ in range(3)]
    pos = [[o[c] + x for c, x in enumerate(fl.matvec(Rm, [p[0], p[1], Fraction(0)]))] for p in pts]
    return els, pos


def pick_pattern(rng):
    """-> dict(elems, pos [[Fraction]], name)"""
    r = rng.random()
    if r < 0.3:
        name = rng.choice(FLAT_NAMED)
        pj = fl.pattern_json(name)
        return {"elems": pj["elems"], "pos": pj["pos"], "name": name}
    if r < 0.8:
        els, pos = random_rod(rng)
        return {"elems": els, "pos": pos, "name": "rod%d" % len(els)}
    rp = random_planar(rng)
    if rp is None:
        els, pos = random_rod(rng)
        return {"elems": els, "pos": pos, "name": "rod%d" % len(els)}
    return {"elems": rp[0], "pos": rp[1], "name": "flat%d" % len(rp[0])}


def hull_rank(P, tol=1e-9):
    """dimension of the affine hull of the points (1 = line, 2 = plane, 3 = space) and an orthonormal basis of its normal space"""
    Q = P - P.mean(axis=0)
    U, S, Vt = np.linalg.svd(Q)
    rank = int((S > tol * max(1.0, S.max())).sum())
    return rank, Vt[rank:]


def soft_displacement(rng, P, atol):
    """a copy of the flat pattern P (float array) in which one or more atoms are moved perpendicular to the pattern's
    line / plane, as far as possible while EVERY pairwise distance stays within f*atol (f in 0.3..0.85) of the pattern's.
    Returns (Q, info) or None when the deformed group would not be clearly outside the tolerance (rmsd of the best
    proper rigid fit <= 2.3 atol; e.g. a tolerance too large for the bond lengths)."""
    n = len(P)
    rank, normal = hull_rank(P)
    if rank >= 3 or n < rank + 2 or len(normal) == 0:
        return None
    movers = rng.sample(range(n), 1 if rng.random() < 0.6 else rng.randint(1, max(1, n - 1)))
    disp = np.zeros((n, 3))
    for k in movers:
        w = np.array([rng.gauss(0, 1) for _ in range(len(normal))])
        w /= np.linalg.norm(w)
        disp[k] = w.dot(normal) * rng.choice([1.0, 1.0, 0.6])
    pd = np.linalg.norm(P[:, None] - P[None], axis=2)
    f = rng.uniform(0.3, 0.85)

    def mism(h):
        Q = P + h * disp
        return np.abs(np.linalg.norm(Q[:, None] - Q[None], axis=2) - pd).max()

    lo, hi = 0.0, 4.0
    if mism(hi) < f * atol:
        return None
    for _ in range(60):
        mid = 0.5 * (lo + hi)
        if mism(mid) <= f * atol:
            lo = mid
        else:
            hi = mid
    h = lo
    Q = P + h * disp
    maxdev, rmsd = g.kabsch_proper(P, Q)
    if rmsd <= 2.3 * atol or mism(h) > 0.9 * atol:
        return None
    return Q, {"h": h, "movers": sorted(movers), "mismatch/atol": mism(h) / atol, "rmsd/atol": rmsd / atol}


def soft_case(rng, atol=None, pattern=None, ncopies=None, ndecoys=None, max_tries=10):
    """A periodic structure with 1-3 planted copies of a flat pattern (random / axis / antiparallel poses, inside the cell
    or across faces / edges / corners) and 1-3 soft decoys (bent rods / puckered planar groups, see module text), plus
    sometimes a lone same-element atom.  Returns the usual case dict (gen_find_c02.planted) with atol in info, or None."""
    pat = pattern or pick_pattern(rng)
    pel, ppos = pat["elems"], pat["pos"]
    pf = [[float(x) for x in p] for p in ppos]
    P = np.array(pf)
    d = fl.diam(ppos)
    if atol is None:
        # the largest tolerance of a random descending tail of ATOLS for which this pattern HAS a soft decoy (short bonds
        # and a large tolerance: a group bent far enough to be clearly outside already fails a distance test)
        top = rng.choice(ATOLS)
        for atol in sorted(set(a for a in ATOLS if a <= top), reverse=True):
            if any(soft_displacement(rng, P, atol) is not None for _ in range(4)):
                break
        else:
            return None
    for attempt in range(max_tries):
        cell_kind = rng.choice(["ortho", "ortho", "tri+", "tri-", "rot", "upper", "sparse"])
        tight = rng.random() < 0.15
        cf = g._cell(rng, cell_kind, d, atol, tight)
        cinv = np.linalg.inv(cf)
        elems, pos, plant, kinds, details = [], [], [], [], []

        def far_enough(pts, dmin=1.0):
            for p in pts:
                for qpt in pos:
                    dv = (np.array(p) - np.array(qpt)).dot(cinv)
                    dv -= np.round(dv)
                    if np.linalg.norm(dv.dot(cf)) < dmin:
                        return False
            return True

        def place(src, els, pose, frac, perturb):
            for _ in range(40):
                Rm = np.array([[float(x) for x in row] for row in g.pose_rotation(rng, pose, ppos)])
                fr = frac if frac is not None else [rng.random() for _ in range(3)]
                origin = np.array(fr, dtype=float).dot(cf)
                exact = perturb and rng.random() < 0.25
                pts = []
                for p in src:
                    v = Rm.dot(np.array(p, dtype=float)) + origin
                    if perturb and not exact:
                        v = v + np.array([rng.uniform(-1, 1) for _ in range(3)]) * (atol / 8 / math.sqrt(3))
                    pts.append(g.wrap(v, cf, cinv))
                if far_enough(pts):
                    base = len(pos)
                    elems.extend(els)
                    pos.extend(pts)
                    return list(range(base, base + len(pts)))
                if frac is not None:
                    return None
            return None

        nc = ncopies if ncopies is not None else (1 if tight else rng.randint(1, 3))
        nd = ndecoys if ndecoys is not None else (1 if tight else rng.randint(1, 3))
        # copies and decoys in random order (so that a decoy is also met before the first copy)
        todo = ["copy"] * nc + ["decoy"] * nd
        rng.shuffle(todo)
        ok = True
        for what in todo:
            pose = rng.choice(g.POSES)
            frac = [rng.choice(g.FRACS) if rng.random() < 0.7 else rng.random() for _ in range(3)] if rng.random() < 0.5 else None
            if what == "copy":
                grp = place(pf, pel, pose, frac, True)
                if grp is None:
                    if frac is not None:
                        grp = place(pf, pel, pose, None, True)
                    if grp is None:
                        ok = False
                        break
                plant.append(tuple(sorted(grp)))
                kinds.append("copy:" + pose)
            else:
                sd = None
                for _ in range(6):
                    sd = sd or soft_displacement(rng, P, atol)
                if sd is None:
                    ok = False
                    break
                Q, inf = sd
                grp = place(Q.tolist(), pel, pose, frac, False) or place(Q.tolist(), pel, pose, None, False)
                if grp is None:
                    ok = False
                    break
                kinds.append("decoy:soft-" + ("bent-rod" if hull_rank(P)[0] == 1 else "puckered-plane"))
                details.append(inf)
        if not ok:
            continue
        if rng.random() < 0.3:
            if place([pf[0]], [rng.choice(pel)], "identity", None, False) is not None:
                kinds.append("decoy:distractor")
        case = {"elems": elems, "pos": [[float(x) for x in v] for v in pos], "cell": [[float(v) for v in row] for row in cf],
                "pattern": {"elems": list(pel), "pos": pf, "name": pat["name"]}, "planted": sorted(plant),
                "info": {"cell": cell_kind, "pattern": pat["name"], "copies": nc, "kinds": kinds, "tight": bool(tight),
                         "attempts": attempt + 1, "soft": details, "atol": atol}}
        ins, amb = g.brute_occurrences(elems, case["pos"], case["cell"], pel, pf, atol)
        if not amb and ins == set(plant) and len(set(plant)) == len(plant):
            r = rng.random()
            if r < 0.3:
                case = g.relist(case, rng, "random" if r < 0.2 else "reversed")
            if rng.random() < 0.25:
                case = g.unwrap(case, rng)
            return case
    return None
