"""Shared machinery for the pattern search / replacement properties (C01–C08):
generators of periodic structures with planted pattern copies, the real-code runner with the MOFUN_VERIF hook,
and the construction / comparison of the model op."""
import math
import random
from fractions import Fraction

import numpy as np

from . import core

# ------------------------------------------------------------------ geometry helpers (generator side)


def rat_quat(rng, kind="random"):
    """a rational quaternion (x, y, z, w); the rotation matrix M(q)/|q|^2 is then exactly rational"""
    if kind == "identity":
        return (0, 0, 0, 1)
    if kind == "axis90":
        ax = rng.randrange(3)
        q = [0, 0, 0, 1]
        q[ax] = rng.choice([1, -1])
        return tuple(q)
    if kind == "axis180":
        q = [0, 0, 0, 0]
        q[rng.randrange(3)] = 1
        return tuple(q)
    while True:
        q = tuple(rng.randint(-6, 6) for _ in range(4))
        if any(q):
            return q


def rotmat(q):
    x, y, z, w = [Fraction(v) for v in q]
    n = x * x + y * y + z * z + w * w
    m = [[w * w + x * x - y * y - z * z, 2 * (x * y - z * w), 2 * (x * z + y * w)],
         [2 * (x * y + z * w), w * w - x * x + y * y - z * z, 2 * (y * z - x * w)],
         [2 * (x * z - y * w), 2 * (y * z + x * w), w * w - x * x - y * y + z * z]]
    return [[v / n for v in row] for row in m]


def matvec(m, v):
    return [sum(m[i][j] * v[j] for j in range(3)) for i in range(3)]


PATTERNS = {
    # name: (elements, coordinates) — asymmetric, symmetric, planar, collinear, chiral, 1–2 atoms
    "single": (["N"], [(0, 0, 0)]),
    "pair": (["C", "O"], [(0, 0, 0), (1.25, 0, 0)]),
    "pair_same": (["C", "C"], [(0, 0, 0), (1.5, 0, 0)]),
    "collinear3": (["O", "C", "O"], [(-1.125, 0, 0), (0, 0, 0), (1.125, 0, 0)]),
    "collinear_asym": (["C", "C", "N"], [(0, 0, 0), (1.25, 0, 0), (2.375, 0, 0)]),
    "bent": (["H", "O", "H"], [(0.75, 0.5, 0), (0, 0, 0), (-0.75, 0.5, 0)]),
    "ch3": (["C", "H", "H", "H"], [(0, 0, 0), (1, 0, -0.375), (-0.5, 0.875, -0.375), (-0.5, -0.875, -0.375)]),
    "planar4": (["C", "O", "O", "H"], [(0, 0, 0), (1.125, 0.5, 0), (-1.125, 0.5, 0), (0, -1.0, 0)]),
    "asym4": (["C", "N", "O", "F"], [(0, 0, 0), (1.25, 0, 0), (0.25, 1.375, 0), (-0.5, -0.25, 1.125)]),
    "chiral": (["C", "H", "F", "Cl", "Br"], [(0, 0, 0), (0.625, 0.625, 0.625), (-0.75, -0.75, 0.75), (-0.875, 0.875, -0.875), (1, -1, -1)]),
    # first atom with a two-letter symbol that contains a one-letter symbol (Cl/C, Si/S): look-alike elements
    "halo": (["Cl", "C", "N"], [(0, 0, 0), (1.75, 0, 0), (2.375, 1.125, 0)]),
    "siloxy": (["Si", "O", "H"], [(0, 0, 0), (1.625, 0, 0), (2.0, 0.875, 0.25)]),
    "asym5": (["C", "C", "N", "O", "H"], [(0, 0, 0), (1.5, 0, 0), (2.0, 1.25, 0.25), (-0.5, 1.0, -0.75), (0.25, -0.75, 0.875)]),
}


# the same patterns supplied in other exact poses (cyclic permutations of the coordinate axes are proper rotations):
# the long axis of the pattern then lies along y or z instead of x
for _name in ["pair", "collinear_asym", "bent", "planar4", "asym4"]:
    _els, _xyz = PATTERNS[_name]
    PATTERNS[_name + "@y"] = (_els, [(p[2], p[0], p[1]) for p in _xyz])
    PATTERNS[_name + "@z"] = (_els, [(p[1], p[2], p[0]) for p in _xyz])


def pattern_json(name):
    els, xyz = PATTERNS[name]
    return {"elems": list(els), "pos": [[Fraction(v).limit_denominator(10 ** 6) for v in p] for p in xyz], "name": name}


def mirror(ppos):
    return [[-p[0], p[1], p[2]] for p in ppos]


def diam(ppos):
    return max([math.sqrt(float(sum((a[i] - b[i]) ** 2 for i in range(3)))) for a in ppos for b in ppos] or [0.0])


def make_cell(rng, kind, size):
    """cell rows as Fractions; `size` ~ edge length"""
    a, b, c = [Fraction(rng.randint(int(size * 8), int(size * 8) + 24), 8) for _ in range(3)]
    if kind == "ortho":
        return [[a, 0, 0], [0, b, 0], [0, 0, c]]
    if kind in ("tri+", "tri-"):
        s = 1 if kind == "tri+" else -1
        t = lambda: s * Fraction(rng.randint(2, 20), 8)
        return [[a, 0, 0], [t(), b, 0], [t(), rng.choice([1, -1]) * t(), c]]
    # arbitrarily oriented: rotate a LAMMPS-triclinic cell by a rational rotation
    base = make_cell(rng, rng.choice(["tri+", "tri-", "ortho"]), size)
    r = rotmat(rat_quat(rng))
    return [matvec(r, row) for row in base]


def inv3(m):
    m = np.array([[float(v) for v in row] for row in m])
    return np.linalg.inv(m)


def perp_widths(cell):
    c = np.array([[float(v) for v in row] for row in cell])
    vol = abs(np.linalg.det(c))
    return [vol / np.linalg.norm(np.cross(c[(k + 1) % 3], c[(k + 2) % 3])) for k in range(3)]


def planted_structure(rng, pname=None, cell_kind=None, ncopies=None, atol=0.05, decoys=True, pose=None,
                      boundary=None, perturb=True):
    """a periodic structure with planted rigid copies of a pattern (and decoys).

    Returns dict(struct=canonical-ish dict(elems,pos(float),cell), pattern, planted=[sorted index groups], info)"""
    pname = pname or rng.choice(list(PATTERNS))
    pat = pattern_json(pname)
    ppos = pat["pos"]
    d = diam(ppos)
    cell_kind = cell_kind or rng.choice(["ortho", "ortho", "tri+", "tri-", "rot"])
    while True:
        cell = make_cell(rng, cell_kind, max(7.0, 2.2 * d + 3))
        if min(perp_widths(cell)) > d + 2 * atol + 1.0:
            break
    cellf = np.array([[float(v) for v in row] for row in cell])
    cinv = np.linalg.inv(cellf)
    ncopies = ncopies if ncopies is not None else rng.randint(1, 3)
    elems, pos, planted = [], [], []
    # copy centres on a coarse fractional grid so that copies do not interfere
    slots = [(i, j, k) for i in range(2) for j in range(2) for k in range(2)]
    rng.shuffle(slots)
    span = [2, 2, 2]
    placed = []
    # atoms of different copies / decoys are farther apart than any two atoms of one match can be, so that no match can
    # mix atoms of two planted objects (which would make matches overlap and the replacement refuse them)
    sep = max(1.6, d + 3 * atol + 0.3)

    def far_enough(pts):
        for p in pts:
            for qpt in placed:
                dv = (np.array(p) - np.array(qpt)).dot(cinv)
                dv -= np.round(dv)
                if np.linalg.norm(dv.dot(cellf)) < sep:
                    return False
        return True

    for c in range(ncopies):
        for attempt in range(50):
            qk = pose or rng.choice(["random", "random", "random", "identity", "axis90", "axis180"])
            R = rotmat(rat_quat(rng, qk))
            if boundary:
                # origin near faces/edges/corners: fractions from a boundary-hugging set
                fr = [rng.choice([0.0, 0.01, 0.5, 0.99, 0.999]) if (boundary == "corner" or rng.random() < 0.67) else rng.random() for _ in range(3)]
            else:
                fr = [rng.random() for _ in range(3)]
            origin = np.array(fr).dot(cellf)
            pts = []
            for p in ppos:
                v = np.array([float(x) for x in matvec(R, p)]) + origin
                if perturb:
                    v = v + np.array([rng.uniform(-1, 1) for _ in range(3)]) * (atol / 8 / math.sqrt(3))
                f = v.dot(cinv) % 1.0
                f[f >= 1.0] = 0.0
                pts.append(f.dot(cellf))
            if far_enough(pts):
                base = len(pos)
                for e, v in zip(pat["elems"], pts):
                    elems.append(e)
                    pos.append(v)
                    placed.append(v)
                planted.append(sorted(range(base, base + len(ppos))))
                break
    ndecoy = rng.randint(0, 3) if decoys else 0
    dkinds = []
    for _ in range(ndecoy):
        kind = rng.choice(["mirror", "nearmiss", "distractor"])
        for attempt in range(30):
            R = rotmat(rat_quat(rng))
            origin = np.array([rng.random() for _ in range(3)]).dot(cellf)
            if kind == "mirror" and len(ppos) >= 4:
                src = mirror(ppos)
                els = list(pat["elems"])
            elif kind == "nearmiss" and len(ppos) >= 2:
                src = [list(p) for p in ppos]
                k = rng.randrange(len(src))
                dirv = np.array([rng.uniform(-1, 1) for _ in range(3)])
                dirv = dirv / np.linalg.norm(dirv) * rng.uniform(3, 5) * atol
                src[k] = [Fraction(float(src[k][i]) + dirv[i]).limit_denominator(10 ** 6) for i in range(3)]
                els = list(pat["elems"])
            else:
                kind = "distractor"
                src = [ppos[0]]
                els = [pat["elems"][0]]
            pts = []
            for p in src:
                v = np.array([float(x) for x in matvec(R, p)]) + origin
                f = v.dot(cinv) % 1.0
                f[f >= 1.0] = 0.0
                pts.append(f.dot(cellf))
            if far_enough(pts):
                for e, v in zip(els, pts):
                    elems.append(e)
                    pos.append(v)
                    placed.append(v)
                dkinds.append(kind)
                break
    # a mirror decoy of an ACHIRAL pattern is a genuine occurrence; a distractor of a 1-atom pattern too
    return {"elems": elems, "pos": [[float(x) for x in v] for v in pos], "cell": [[float(v) for v in row] for row in cellf],
            "pattern": {"elems": pat["elems"], "pos": [[float(x) for x in p] for p in ppos], "name": pname},
            "planted": planted, "info": {"cell": cell_kind, "pattern": pname, "copies": len(planted), "decoys": dkinds}}


# ------------------------------------------------------------------ real code + hook

def mk_structure(elems, pos, cell):
    from mofun import Atoms
    with core.quiet():
        return Atoms(elements=list(elems), positions=np.array(pos, dtype=float), cell=np.array(cell, dtype=float))


class Sink:
    def __init__(self):
        self.groups, self.find = [], None

    def __call__(self, rec):
        if rec["kind"] == "group":
            self.groups.append(rec)
        else:
            self.find = rec


def run_find(struct, pattern, atol, hints=(None, None, None), seed=None):
    """the real search with the hook installed. Returns dict(result | err, hook)"""
    import mofun.mofun as mm
    sink = Sink()
    mm._verif_sink = sink
    mm._verif_on = True
    try:
        if seed is not None:
            random.seed(seed)
            np.random.seed(seed % (2 ** 32))
        with core.quiet():
            idx, pos, quats = mm.find_pattern_in_structure(struct, pattern, axisp1_idx=hints[0], axisp2_idx=hints[1],
                                                            opoint_idx=hints[2], return_positions_and_quats=True, atol=atol)
        out = {"idx": [[int(i) for i in t] for t in idx], "pos": [[[float(x) for x in p] for p in m] for m in pos],
               "quats": [[float(x) for x in q.as_quat()] for q in quats]}
        return {"ok": out, "hook": sink}
    except Exception as e:  # noqa
        return {"err": "error:" + type(e).__name__, "msg": str(e)[:200], "hook": sink}
    finally:
        mm._verif_sink = None


def find_op(case, atol, hints, hook):
    """the model op for one search; the oracle (quaternion of every candidate tuple) and the code's picks are taken
    from the hook and keyed BY TUPLE, not by enumeration position"""
    oracle = [{"t": [int(i) for i in t], "q": [core.q(x) for x in qq]} for g in hook.groups for t, qq in zip(g["tuples"], g["quats"])]
    chosen = [[int(i) for i in t] for t in (hook.find["chosen"] if hook.find else [])]
    axis = [None, None, None]
    if hook.find:
        axis = [None if a is None else int(a) for a in hook.find["axis"]]
    return {"op": "find", "elems": case["elems"], "pos": [[core.q(x) for x in p] for p in case["pos"]],
            "cell": [[core.q(x) for x in row] for row in case["cell"]],
            "pelems": case["pattern"]["elems"], "ppos": [[core.q(x) for x in p] for p in case["pattern"]["pos"]],
            "atol": core.q(atol), "hints": list(hints), "axis": axis, "oracle": oracle, "chosen": chosen}


def _canon_groups(groups, good_of):
    """order-free form of the candidate groups: sorted by their first sorted tuple; tuples and good tuples as sorted lists.
    (The order in which candidates are enumerated follows a sort of float coordinates that can tie in the last bit between
    an atom and an image computed with one rounding more; no property constrains that order.)"""
    out = []
    for g in groups:
        ts = sorted([int(i) for i in t] for t in g["tuples"])
        out.append({"tuples": ts, "good": sorted(good_of(g))})
    return sorted(out, key=lambda g: g["tuples"])


def _canon_matches(ms):
    return sorted(ms, key=lambda m: m["idx"] + [str(v) for p in m["pos"] for v in p]) if ms is not None else None


def impl_view(res):
    """what the code did, in the shape of the model's answer (order-free)"""
    hook = res["hook"]
    return {"near": hook.find["near_indices"] if hook.find else None,
            "groups": _canon_groups(hook.groups, lambda g: [[int(i) for i in g["tuples"][k]] for k in g["good"]]),
            "matches": _canon_matches([{"idx": i, "pos": [[core.q(x) for x in p] for p in m]} for i, m in zip(res["ok"]["idx"], res["ok"]["pos"])]) if "ok" in res else None}


def model_view(m):
    return {"near": m.get("near"),
            "groups": _canon_groups(m.get("groups", []), lambda g: g.get("good_tuples", [])),
            "matches": _canon_matches(m.get("matches"))}


def stable_under_atol(lean, op, rel=1e-6):
    """ambiguity test: every threshold of the search is monotone in atol, so a case is float-unambiguous when the
    model's answer is the same for atol·(1−rel), atol, atol·(1+rel). Returns (model result, unambiguous?)."""
    a = Fraction(op["atol"])
    lo = dict(op, atol=core.q(a * (1 - Fraction(rel).limit_denominator(10 ** 9))))
    hi = dict(op, atol=core.q(a * (1 + Fraction(rel).limit_denominator(10 ** 9))))
    r = lean.run([op, lo, hi])
    v = [model_view(x) for x in r]
    same = core.same(v[0], v[1]) is None and core.same(v[0], v[2]) is None
    return r[0], same


# ------------------------------------------------------------------ replacement: real code + recording

def run_replace(sj, pj, rj, atol=0.05, fraction=1.0, replace_all=False, ignore=False, hints=(None, None, None), seed=0):
    """real replace_pattern_in_structure on canonical-JSON structures, recording the matches it used.

    Returns dict(ok=canonical result | err=..., n=reported count, found=all matches, used=matches replaced (in order),
                 inputs_unchanged=bool)"""
    import mofun.mofun as mm
    s, p, r = core.atoms_from_json(sj), core.atoms_from_json(pj), core.atoms_from_json(rj)
    rec = {}
    real_find = mm.find_pattern_in_structure
    real_sample = random.sample

    def find_wrap(*a, **k):
        out = real_find(*a, **k)
        rec["found"] = ([[int(i) for i in t] for t in out[0]], np.array(out[1], dtype=float).tolist(),
                        [[float(x) for x in qq.as_quat()] for qq in out[2]])
        return out

    def sample_wrap(pop, k):
        out = real_sample(pop, k)
        rec["sample"] = list(out)
        return out

    mm.find_pattern_in_structure = find_wrap
    random.sample = sample_wrap
    random.seed(seed)
    np.random.seed(seed % (2 ** 32))
    try:
        def call():
            return mm.replace_pattern_in_structure(s, p, r, replace_fraction=fraction, atol=atol,
                                                   axisp1_idx=hints[0], axisp2_idx=hints[1], opoint_idx=hints[2],
                                                   return_num_matches=True, replace_all=replace_all,
                                                   ignore_atoms_should_not_be_deleted_twice=ignore)
        res = core.result_of(call)
    finally:
        mm.find_pattern_in_structure = real_find
        random.sample = real_sample
    out = {"found": rec.get("found"), "sample": rec.get("sample")}
    if "ok" in res:
        new, n = res["ok"]
        out["ok"] = core.canon_atoms(new)
        out["n"] = int(n)
    else:
        out["err"] = res["err"]
    out["inputs_unchanged"] = (core.same(core.canon_atoms(s), sj) is None and core.same(core.canon_atoms(p), pj) is None
                               and core.same(core.canon_atoms(r), rj) is None)
    if out["found"] is not None:
        idx, pos, quats = out["found"]
        order = out["sample"] if out["sample"] is not None else list(range(len(idx)))
        out["used"] = [{"idx": idx[i], "pos": [[core.q(x) for x in pp] for pp in pos[i]], "quat": [core.q(x) for x in quats[i]]}
                       for i in order]
    return out


def replace_op(sj, pj, rj, used, replace_all=False, ignore=False):
    return {"op": "replace", "s": sj, "p": pj, "r": rj, "matches": used, "replace_all": replace_all, "ignore": ignore}


def struct_json(elems, pos, cell, charges=None, groups=None):
    """canonical Atoms JSON of a plain structure given by per-atom elements (types by first occurrence)"""
    from mofun.atomic_masses import ATOMIC_MASSES
    types = list(dict.fromkeys(elems))
    n = len(elems)
    return {"cell": None if cell is None else [[core.q(v) for v in row] for row in cell],
            "atoms": [{"ty": types.index(e), "pos": [core.q(v) for v in pos[i]],
                       "q": core.q(charges[i]) if charges else "0", "g": groups[i] if groups else 0, "x": []} for i, e in enumerate(elems)],
            "terms": {k: [] for k in ("bond", "angle", "dihedral", "improper")},
            "types": {"elem": types, "label": list(types), "mass": [core.q(ATOMIC_MASSES[e]) for e in types], "pair": [],
                      "bond": [], "angle": [], "dihedral": [], "improper": []},
            "xlabels": {k: [] for k in ("atom", "bond", "angle", "dihedral", "improper")}}
