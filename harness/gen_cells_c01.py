"""C01 — cells whose components span many orders of magnitude (used by harness/props/c01.py only).

The other generators draw every tilt of a triclinic cell from 0.25 … 2.5 A and every orthorhombic cell with exact zeros.
Real cells are rarely that clean: a cell built from lengths and angles (cif, cellpar conversions) with gamma = 89.995 deg
has a tilt of 9e-4 A; a relaxed MOF cell is "almost" orthorhombic; a slightly turned orthorhombic cell has small
components everywhere. Such a cell is a DIFFERENT lattice from the orthorhombic one with the same diagonal: the image
of an atom across a face is stored position + the true lattice vector (small components included), and a fragment that
closes only under the cleaned-up lattice is not a match once the requested tolerance is finer than the tilt.

Family (all randomness from the rng handed in):
  form      "lammps"  lower-triangular, each tilt 0 or +/- m          (at least one non-zero)
            "cellpar" lengths + angles 90 +/- delta deg (delta 1e-4 … 2), standard orientation, plain floats
            "upper"   the same numbers in the upper triangle (b, c along the axes; a tilted)
            "turned"  an orthorhombic (or LAMMPS) cell turned by a SMALL angle (1e-6 … 0.02 rad) about a random axis
            "mixed"   one ordinary tilt (0.25 … 2.5 A) next to small ones
  magnitude m log-spread over 3e-6 … 0.2 A (the whole range between "round-off" and "ordinary tilt")
Planted copies hug faces / edges / corners (so that image atoms are used); decoys: wrong element, one bond too long,
and — when the small components exceed 6 atol — CLEANED-CELL GHOSTS: atoms that form a copy of the pattern across a face
only under the lattice with the small components dropped (or the cell rounded to 2-3 decimals), verified not to be one
under the true lattice (some pattern distance is off by > 4 atol for every choice of periodic images)."""
import math
from fractions import Fraction

import numpy as np

from . import findlib as fl, gen_find_c01 as g

MAGS = [3e-6, 1e-5, 3e-5, 1e-4, 2e-4, 3e-4, 5e-4, 7e-4, 9e-4, 1.5e-3, 3e-3, 0.01, 0.03, 0.1, 0.2]
FORMS = ["lammps", "lammps", "cellpar", "upper", "turned", "mixed"]
DELTAS = [1e-4, 5e-4, 2e-3, 5e-3, 0.01, 0.05, 0.3, 2.0]           # degrees off 90


def _small(rng, mags=MAGS):
    m = rng.choice(mags) * rng.choice([1.0, 1.0, rng.uniform(0.5, 1.5)])
    return rng.choice([1, -1]) * m


def _cellpar(a, b, c, al, be, ga):
    """lengths and angles (degrees) -> rows, a along x, b in the xy plane (the textbook formula, in floats)"""
    ca, cb, cg, sg = [math.cos(math.radians(x)) for x in (al, be, ga)] + [math.sin(math.radians(ga))]
    cx = c * cb
    cy = c * (ca - cb * cg) / sg
    cz = math.sqrt(max(c * c - cx * cx - cy * cy, 0.0))
    return [[a, 0.0, 0.0], [b * cg, b * sg, 0.0], [cx, cy, cz]]


def _turn(rows, axis, angle):
    """rows turned by `angle` (rad) about `axis` (Rodrigues)"""
    k = np.array(axis, dtype=float)
    k = k / np.linalg.norm(k)
    K = np.array([[0, -k[2], k[1]], [k[2], 0, -k[0]], [-k[1], k[0], 0]])
    R = np.identity(3) + math.sin(angle) * K + (1 - math.cos(angle)) * K.dot(K)
    return np.array(rows, dtype=float).dot(R.T).tolist()


def small_component_cell(rng, size):
    """(rows as floats, form, largest small component)"""
    a, b, c = [float(Fraction(rng.randint(int(size * 8), int(size * 8) + 24), 8)) for _ in range(3)]
    form = rng.choice(FORMS)
    if form in ("lammps", "upper", "mixed"):
        t = [0.0, 0.0, 0.0]
        for i in rng.sample(range(3), rng.randint(1, 3)):
            t[i] = _small(rng)
        if form == "mixed":
            t[rng.randrange(3)] = rng.choice([1, -1]) * float(Fraction(rng.randint(2, 20), 8))
        if form == "upper":
            rows = [[a, t[0], t[1]], [0.0, b, t[2]], [0.0, 0.0, c]]
        else:
            rows = [[a, 0.0, 0.0], [t[0], b, 0.0], [t[1], t[2], c]]
    elif form == "cellpar":
        ang = [90.0, 90.0, 90.0]
        for i in rng.sample(range(3), rng.randint(1, 3)):
            ang[i] += rng.choice([1, -1]) * rng.choice(DELTAS)
        rows = _cellpar(a, b, c, *ang)
    else:
        base = [[a, 0.0, 0.0], [0.0, b, 0.0], [0.0, 0.0, c]]
        if rng.random() < 0.3:
            base[1][0] = float(Fraction(rng.randint(2, 20), 8))
        axis = [rng.uniform(-1, 1) for _ in range(3)]
        if not any(abs(x) > 0.1 for x in axis):
            axis = [0.0, 0.0, 1.0]
        rows = _turn(base, axis, rng.choice([1e-6, 1e-5, 3e-5, 5e-5, 8e-5, 2e-4, 1e-3, 0.02]) * rng.choice([1, -1]))
    L = np.array(rows, dtype=float)
    off = np.abs(L - np.diag(np.diag(L)))
    small = off[(off > 0) & (off < 0.24)]
    return [[float(v) for v in r] for r in L], form, (float(small.max()) if small.size else 0.0)


def cleaned_lattices(cell):
    """what a tidy-minded conversion could take the cell for: small components dropped (several thresholds), or every
    component rounded to 2 / 3 decimals. Only readings that differ from the cell are returned."""
    L = np.array(cell, dtype=float)
    out = {}
    for thr in (1e-4, 1e-3, 1e-2, 0.25):
        out["drop<%g" % thr] = np.where(np.abs(L) < thr, 0.0, L)
    for nd in (2, 3):
        out["round%d" % nd] = np.round(L, nd)
    return {k: v for k, v in out.items() if np.abs(v - L).max() > 0 and abs(np.linalg.det(v)) > 1e-6}


def add_cleaned_ghost(rng, case, atol):
    """atoms that would be a copy of the pattern ACROSS A FACE under a cleaned-up reading of the cell, and are clearly not
    one under the true lattice: some pattern distance is off by more than 4·atol (> 2·sqrt(3)·atol, the most two atoms
    within atol of their places can be off) for every choice of periodic images. All atoms lie inside the true cell."""
    pat = case["pattern"]
    k = len(pat["elems"])
    if k < 2:
        return False
    L = np.array(case["cell"], dtype=float)
    alts = cleaned_lattices(L)
    alts = {n: A for n, A in alts.items() if np.abs(A - L).max() > 6 * atol}
    if not alts:
        return False
    which = rng.choice(sorted(alts))
    La = alts[which]
    Li, Lai = np.linalg.inv(L), np.linalg.inv(La)
    P = np.array(pat["pos"], dtype=float)
    pd = np.linalg.norm(P[:, None, :] - P[None, :, :], axis=2)
    offs = np.array([[i, j, l] for i in range(-2, 3) for j in range(-2, 3) for l in range(-2, 3)], dtype=float).dot(L)
    # the faces whose lattice vector is misread
    moved = [r for r in range(3) if np.abs(La[r] - L[r]).max() > 6 * atol]
    for _ in range(60):
        R = np.array([[float(v) for v in row] for row in fl.rotmat(fl.rat_quat(rng, rng.choice(g.POSES)))])
        f = [rng.uniform(0.05, 0.95) for _ in range(3)]
        f[rng.choice(moved)] = rng.choice([0.0, 0.01, 0.02, 0.98, 0.99, 0.999])
        X = P.dot(R.T) + np.array(f).dot(La)
        fa = X.dot(Lai)
        if len({tuple(r) for r in np.floor(fa).astype(int).tolist()}) < 2:
            continue
        W = (fa - np.floor(fa)).dot(La)
        ft = W.dot(Li)
        if not ((ft >= 1e-6).all() and (ft < 1 - 1e-6).all()):
            continue
        if not g._far_enough(list(W), case["pos"], L, Li, 1.6):
            continue
        worst = 0.0
        for a in range(k):
            for b in range(a):
                d = np.linalg.norm(W[a] - W[b] + offs, axis=1)
                worst = max(worst, np.abs(d - pd[a, b]).min())
        if worst < 4 * atol + 1e-7:
            continue
        base = len(case["pos"])
        case["elems"].extend(pat["elems"])
        case["pos"].extend([[float(x) for x in v] for v in W])
        case["decoys"].append(("ghost", list(range(base, base + k))))
        case["info"].setdefault("extra", []).append("ghost:" + which)
        return True
    return False


def small_component_case(rng):
    """(case, atol, hints): copies across the faces of a cell with small components; see the module text"""
    pname = rng.choice([n for n in fl.PATTERNS if len(fl.PATTERNS[n][0]) >= 2 and n != "int3"])
    atol = rng.choice(g.TINY_ATOLS + [2e-5, 5e-5, 1e-4] + [0.02, 0.05, 0.05, 0.1, 0.2])
    d = fl.diam(fl.pattern_json(pname)["pos"])
    while True:
        cell, form, small = small_component_cell(rng, max(7.0, 2.2 * d + 3))
        if g.wide_enough(cell, [pname], atol):
            break
    case = g.empty_case(pname, cell, "small:" + form)
    g.plant(rng, case, atol, ncopies=rng.randint(1, 2), boundary=True)
    for _ in range(rng.randint(0, 2)):
        add_cleaned_ghost(rng, case, atol)
    for kind, p in (("stretch", 0.4), ("wrongelem", 0.4), ("mirror", 0.2)):
        if rng.random() < p:
            g.add_decoy(rng, case, kind, atol)
    if not case["elems"]:
        g.plant(rng, case, atol, ncopies=1)
    case["info"]["boundary"] = "face"
    case["info"]["small_component"] = small
    return case, atol, g.valid_hints(rng, case["pattern"])
