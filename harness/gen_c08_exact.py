"""C08, EXACT stream: structures that hold UNPERTURBED rigid copies of a site pattern (exact up to float rounding), so that
the ground truth is known by construction — every planted copy is an occurrence for any tolerance, and A→B→A (or a
self-replacement that re-creates the atoms) has to give back the (element, position mod lattice) multiset up to rounding
noise, not merely up to a multiple of the search tolerance.

Input classes (all random choices from the rng passed in):
  * cells: orthorhombic, NEARLY orthorhombic (diagonal cell + off-diagonal entries of 1e-7 … 3e-2 Å in a random subset of the
    six off-diagonal places — cells computed from cell parameters such as gamma = 89.98°, or read from rounded data files),
    LAMMPS-triclinic with either sign of the tilts, arbitrarily oriented;
  * poses: random rotations, identity, quarter/half turns about coordinate axes, and the NEAR-(ANTI)PARALLEL family: the
    copy's long axis (farthest atom pair) makes an angle eps or pi ± eps (eps = 1e-8 … 3e-2 rad, log-uniform; also exactly 0 /
    pi) with the pattern's long axis as written, after a random spin of the copy about its own long axis;
  * placements: anywhere, or hugging faces / edges / corners of the cell, so that atoms of a copy (and the atoms inserted for
    it) lie across a face; every atom wrapped into the cell on its own; optionally atoms given outside the cell;
  * replacement B: one (or two) atoms of A substituted in place by (distinct) elements the structure does not contain, the last atom
    substituted, or one substituted + another atom re-positioned; 1–3 copies, 0–3 spectator atoms of a foreign element.
"""
import math

import numpy as np

from . import core, findlib
from . import gen_replace_c05 as G

SPECTATORS = ["Ar", "Kr", "Xe", "Ne"]
SUBST_ELEMS = ["S", "P", "Zr", "Cu", "Zn", "Se"]


def all_patterns():
    d = dict(findlib.PATTERNS)
    d.update(G.LONG_PATTERNS)
    # ch3 is left out: its three H are only APPROXIMATELY equivalent (0.875 instead of sqrt(3)/2: the numberings differ by
    # 0.011 Å, inside every tolerance), so a copy may legitimately be re-created in another numbering 0.011 Å off
    return {k: v for k, v in d.items() if len(v[0]) >= 2 and k.split("@")[0] != "ch3"}


def near_ortho_cell(rng, size):
    """a diagonal cell plus small off-diagonal entries; returns (cell as float rows, largest |off-diagonal|)"""
    a, b, c = [rng.randint(int(size * 8), int(size * 8) + 24) / 8 for _ in range(3)]
    cell = np.diag([a, b, c]).astype(float)
    s = 10 ** rng.uniform(-7.0, -1.5)
    lower_only = rng.random() < 0.5          # LAMMPS-style (xy, xz, yz) or any of the six places
    places = [(1, 0), (2, 0), (2, 1)] if lower_only else [(i, j) for i in range(3) for j in range(3) if i != j]
    chosen = [p for p in places if rng.random() < 0.6] or [rng.choice(places)]
    for (i, j) in chosen:
        cell[i, j] = rng.choice([1, -1]) * s * rng.uniform(0.3, 1.0)
    return cell, float(np.abs(cell - np.diag(np.diag(cell))).max())


def long_axis(pp):
    dd = [(float(np.linalg.norm(pp[i] - pp[j])), i, j) for i in range(len(pp)) for j in range(len(pp))]
    _, ia, ib = max(dd)
    return (pp[ib] - pp[ia]) / np.linalg.norm(pp[ib] - pp[ia])


def pose_matrix(rng, pp, kind):
    """rotation matrix of a copy and a description of it"""
    if kind == "nearaxis":
        u = long_axis(pp)
        w = np.cross(u, [rng.uniform(-1, 1) for _ in range(3)] if rng.random() < 0.6 else rng.choice([(1, 0, 0), (0, 1, 0), (0, 0, 1)]))
        if np.linalg.norm(w) < 1e-3:
            w = np.cross(u, (0.3, 0.5, 0.8))
        eps = 10 ** rng.uniform(-8.0, -1.5)
        which = rng.choice(["pi-eps", "pi-eps", "pi+eps", "pi+eps", "eps", "pi", "zero"])
        ang = {"pi-eps": math.pi - eps, "pi+eps": math.pi + eps, "eps": eps, "pi": math.pi, "zero": 0.0}[which]
        spin = rng.choice([0.0, rng.uniform(-math.pi, math.pi), rng.uniform(-math.pi, math.pi)])
        R = G.rodrigues(w, ang).dot(G.rodrigues(u, spin))
        return R, "%s(eps=%.1e,spin=%.2f)" % (which, eps, spin)
    R = np.array([[float(v) for v in row] for row in findlib.rotmat(findlib.rat_quat(rng, kind))])
    return R, kind


def make_replacement(rng, pel, ppos, symmetric):
    """B in A's frame: (elems, pos, kind)"""
    n = len(pel)
    new = [e for e in SUBST_ELEMS if e not in pel]
    kind = rng.choice(["subst", "subst", "subst", "subst_last", "subst2", "subst+move"])
    if n < 3 and kind in ("subst2", "subst+move"):
        kind = "subst"
    if symmetric and kind == "subst+move":
        kind = "subst"        # a re-positioned atom in a symmetric pattern can make the way back ambiguous
    els, pos = list(pel), [list(map(float, p)) for p in ppos]
    if kind == "subst":
        els[rng.randrange(n)] = rng.choice(new)
    elif kind == "subst_last":
        els[n - 1] = rng.choice(new)
    elif kind == "subst2":
        # two DIFFERENT new elements: B must not be more symmetric than A (N–C–O → X–C–X could be put back either way round)
        for k, x in zip(rng.sample(range(n), 2), rng.sample(new, 2)):
            els[k] = x
    else:
        k, j = rng.sample(range(n), 2)
        els[k] = rng.choice(new)
        v = np.array([rng.uniform(-1, 1) for _ in range(3)])
        v = v / max(np.linalg.norm(v), 1e-9) * rng.uniform(0.05, 0.4)
        pos[j] = [pos[j][i] + float(v[i]) for i in range(3)]
    return els, pos, kind


def make_exact_case(rng, tier="quick", cell_kind=None, pose_kind=None, mode=None):
    pats = all_patterns()
    pname = rng.choice(sorted(pats))
    pel, ppos0 = pats[pname]
    pel = list(pel)
    pp = np.array(ppos0, dtype=float)
    symmetric = pname.split("@")[0] in G.SYMMETRIC
    mode = mode or rng.choice(["aba", "aba", "aba", "self-all"])
    atol = rng.choice([0.05, 0.05, 0.02, 0.1, 0.01, 0.2])
    if pname.split("@")[0] == "pair_same":
        atol = rng.choice([0.05, 0.02])
    if mode == "aba":
        bel, bpos0, rp_kind = make_replacement(rng, pel, pp, symmetric)
    else:
        bel, bpos0, rp_kind = list(pel), [list(p) for p in pp], "self"
    bp = np.array(bpos0, dtype=float)
    both = np.vstack([pp, bp])
    d = max(float(np.linalg.norm(x - y)) for x in both for y in both)
    cell_kind = cell_kind or rng.choice(["ortho", "near-ortho", "near-ortho", "tri+", "tri-", "rot"])
    offdiag = None
    while True:
        size = max(7.0, 2.2 * d + 3)
        if cell_kind == "near-ortho":
            cell, offdiag = near_ortho_cell(rng, size)
        else:
            cell = np.array([[float(v) for v in row] for row in findlib.make_cell(rng, cell_kind, size)])
        if min(findlib.perp_widths(cell)) > d + 2 * atol + 1.0:
            break
    cinv = np.linalg.inv(cell)

    def wrap(v):
        f = np.asarray(v).dot(cinv) % 1.0
        f[f >= 1.0] = 0.0
        return f.dot(cell)

    sep = max(2.0, d + 4 * atol + 0.5)
    placed = []

    def far_enough(pts):
        for p in pts:
            for q in placed:
                dv = (np.asarray(p) - q).dot(cinv)
                dv -= np.round(dv)
                if np.linalg.norm(dv.dot(cell)) < sep:
                    return False
        return True

    boundary = rng.choice([None, True, True, "corner"])
    elems, pos, planted, poses = [], [], [], []
    for c in range(rng.randint(1, 3)):
        for attempt in range(60):
            kind = pose_kind or rng.choice(["random", "random", "nearaxis", "nearaxis", "nearaxis", "identity", "axis90", "axis180"])
            if kind == "nearaxis" and len(pel) < 2:
                kind = "random"
            R, desc = pose_matrix(rng, pp, kind)
            if boundary:
                fr = [rng.choice([0.0, 0.01, 0.5, 0.97, 0.99, 0.999]) if (boundary == "corner" or rng.random() < 0.67) else rng.random()
                      for _ in range(3)]
            else:
                fr = [rng.random() for _ in range(3)]
            origin = np.array(fr).dot(cell)
            pts = [origin + R.dot(p - pp[0]) for p in pp]
            guard = pts + [origin + R.dot(p - pp[0]) for p in bp]       # where B's atoms will come to lie
            if far_enough(guard):
                base = len(pos)
                for e, v in zip(pel, pts):
                    elems.append(e)
                    pos.append(wrap(v))
                placed.extend(guard)
                planted.append(list(range(base, base + len(pel))))
                poses.append(desc)
                break
    for _ in range(rng.randint(0, 3)):
        for attempt in range(30):
            v = np.array([rng.random() for _ in range(3)]).dot(cell)
            if far_enough([v]):
                elems.append(rng.choice(SPECTATORS))
                pos.append(wrap(v))
                placed.append(v)
                break
    unwrapped = rng.random() < 0.15
    if unwrapped:
        newpos = []
        for x in pos:
            f = x.dot(cinv)
            mult = np.array([rng.choice([-1, 0, 0, 1]) for _ in range(3)])
            if np.abs(f - np.round(f)).min() < 1e-6:
                mult = np.zeros(3)
            newpos.append(x + mult.dot(cell))
        pos = newpos
    shift = [G.dyad(rng, -3, 3) for _ in range(3)] if rng.random() < 0.6 else [0.0, 0.0, 0.0]
    n = len(elems)
    sj = findlib.struct_json(elems, [[float(v) for v in x] for x in pos], [[float(v) for v in row] for row in cell],
                             charges=[(i + 1) / 16.0 for i in range(n)], groups=[rng.randint(0, 3) for _ in range(n)])
    aj = G.pattern_atoms_json(pel, [[float(p[i]) + shift[i] for i in range(3)] for p in pp])
    bj = G.pattern_atoms_json(bel, [[float(p[i]) + shift[i] for i in range(3)] for p in bp])
    case = {"op": "c08-exact", "mode": mode, "s": sj, "a": aj, "b": bj, "atol": atol, "seed": rng.randrange(10 ** 6),
            "planted": planted,
            "info": {"cell": cell_kind, "offdiag": offdiag, "pattern": pname, "boundary": str(boundary), "rp": rp_kind,
                     "copies": len(planted), "poses": poses, "atol": atol, "unwrapped": unwrapped}}
    if rng.random() < 0.2 and len(planted) >= 2:
        case["fraction"] = rng.choice([0.5, 0.34, 0.75])
    return case
