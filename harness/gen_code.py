"""Translator for code (extends DESIGN.md §3a from DATA to CODE).

A few small pure functions of /repo are re-read from their SOURCE TEXT on every run (parsed with `ast`, never
imported) and translated, statement by statement, into Lean definitions in

    lean/MofunModel/Generated/Code.lean          (namespace Mofun.Generated.Code; helpers in Mofun.Generated.Py)

For every translated function an EQUIVALENCE theorem (lean/MofunModel/Props/C??Code.lean) states that the generated
definition equals the hand-written model function the property theorems are about.  An edit of the python function
that changes its meaning therefore breaks `lake build` of that theorem; an edit that leaves the supported subset makes
`regenerate` raise `Unsupported` (the proof side counts as broken, exactly as for a table that no longer parses).

----------------------------------------------------------------------------------------------------------------
SUPPORTED PYTHON SUBSET (anything else raises `Unsupported` with file:line)

statements
  docstring, `print(...)`                 skipped (no value; stderr/stdout text is not modelled)
  `x = e`                                 `let x := e` (re-assignment = shadowing; int/float literals are propagated as
                                          constants; a list literal / comprehension of KNOWN length is kept as a
                                          "static list": one `let x_i := …` per element, `x[i]` with constant i picks it)
  `x.reverse()`                           `let x := x.reverse`           (x a list)
  `if c: … elif c2: … else: …`            `if c then … else if c2 then … else …`; statements after an `if` whose
                                          branches fall through are continued in BOTH branches (no join points)
  `if x is None / is not None:`           `match x with | none => … | some x => …`   (x declared `opt`)
  `for pat in xs: <body>`                 first iteration in which the body returns:
                                          `match Py.forFirst xs (fun pat => some r | none) with | some r => r | none => rest`
                                          (body: `if`s and `return`s only, no assignment that survives the iteration)
  `return e`                              the value (in a function that may raise: `pure e`)
  `raise …`                               `none`
  use of a variable that is not assigned on the current path (UnboundLocalError)   `none`

expressions
  names, str / int / float literals       float literals stay EXACT decimals: `Dec.toRat ⟨mantissa, exponent⟩`, read
                                          from the source text, as in gen_tables
  `and` `or` `not`                        `&&` `||` `!` (short circuit kept when the right operand may raise)
  `a if c else b`                         `if c then a else b`; branches of type str and int give a `Py.Val`
  `== != < <= > >=` (also chained)        on str, numbers, lists/tuples (lexicographic `List.le`/`List.lt`);
                                          on sets `==` is `Py.setEq`, `<=` `>=` are `Py.setSubset`
  `in` / `not in`                         on list / set literals and variables (`List.contains`), on the module tables
  `+ - * /` on numbers                    `/` only by a non-zero literal; `-` not on naturals
  `& | -` on sets                         `Py.setInter`, `Py.setUnion`, `Py.setDiff`
  `{a, b}` `[a, b]` `(a, b)`              sets and lists are Lean lists (set semantics live in the `Py.set*` operations)
  `len(x)`                                `List.length` / `String.length` / `Py.setLen` (number of DISTINCT members)
  `max(a, b)` `min(a, b)`                 `max a b` / `min a b`
  `max(xs)` `min(xs)`                     `Py.listMax? xs` / `Py.listMin? xs` (`none` = ValueError on an empty list)
  `list(x)` `tuple(x)` `set(x)`           the same Lean list
  `s[i]` `s[i:j]` (constant i, j ≥ 0)     `Py.strIndex? s i` (`none` = IndexError) / `Py.strSlice s i j`
  `s.strip(cs)` `s.replace(c, t)`         `Py.strStrip s cs` / `Py.strReplace s c t` (c one character)
  `[f(v) for v in xs]`                    over a static list: element by element; otherwise `List.map`
  `T[k]`, `T[k][i]`, `k in T`             for the module-level tables of gen_tables (`Py.tableGet`, `Py.tableCol`,
                                          `Py.tableHas`; `none` = KeyError / IndexError); the name must be bound at
                                          module level to the table gen_tables translates and must not be a local
  `self.attr`                             a parameter `attr` of the generated function (methods / properties)

second batch (find_element / guess_elements_from_masses, Atoms.pop, group_duplicates, delete_if_all_in_set)
  `a, b = e`, `t[i]` on a tuple value     projections
  `min(xs, key=lambda x: e)` / `max`      `Py.minBy? xs (fun x => e)`: the FIRST extremal item (python's rule); `none` = ValueError
  `abs(x)`, `T.items()`, `enumerate(xs)`  `Py.abs`, `Py.tableItems`, `Py.enumerate`
  `a % b` on ints                         `Py.intMod? a b` (sign of the divisor; `none` = ZeroDivisionError)
  `[f(x) for x in xs]`, f may raise       `Py.listMapM?` (the first exception ends the comprehension)
  nested `def g(…)` + calls `g(a)`        `g` is translated as its own definition; the variables it reads from the enclosing
                                          function (declared `closure`, must be unmodified parameters) become leading parameters
  numeric / bool parameter defaults       a constant `<name>_default_<param>`; a default key FUNCTION is not translated
  `for x in xs: <body without return>`    a fold over ONE variable defined before the loop: `Py.forFold` / `Py.forFoldM?`
  `{}`, `k in d`, `d[k] = v`,             insertion-ordered dict = association list with distinct keys: `Py.dictHas`,
  `d[k].append(x)`, `xs.append(x)`        `Py.dictSet`, `Py.dictAppend?` (`none` = KeyError), `xs ++ [x]`
  `np.delete(arr, idx, axis=0)`           `Py.npDelete` (= `deleteIdx`, for indices inside the array)
  `key(m)` for a parameter `key`          application of a function-typed parameter (generic element / key types)
  `len(self)`, `del(self[[e]])`           a parameter `self_len`; the function is translated as the index list it deletes

third batch (extend_types, cell_is_orthorhombic, the near-window guard and box test, replicate's cell,
             _delete_and_reindex_atom_index_array, the dispatch of Atoms.load / Atoms.save)
  mutating methods (`mutates=True`)       `self.attr = e` is `let attr' := e`; the result is (returned value, final value of every
                                          assigned attribute, in the declared order of `attrs`); an undeclared assigned attribute
                                          is Unsupported
  `other.attr` (`objattrs`)               attributes read from a parameter that is an object become parameters `other_attr`
  `self.prop` for a translated property   a call of its generated definition on the current values of the attributes it reads
  `obj.m()` (`method_calls`)              a call of the generated definition of method `m`, its `self.attr` taken from `obj.attr`
  `np.append(a, b)` on 1-D lists          `a ++ b`
  arrays of STATICALLY KNOWN SHAPE        parameters / attributes declared `Mat3`, `Vec3` or a tuple are numpy arrays whose elements
                                          are the fields of the Lean value; the translator EXPANDS numpy expressions over them
                                          element by element: `np.diag`, `np.identity(n)`, `np.array(x)`, `.reshape(…)`, arithmetic
                                          and comparisons with numpy broadcasting (trailing axes aligned), `.all()` / `.any()` /
                                          `np.all` / `np.any` (conjunction / disjunction), `np.prod` / `np.sum` of a vector,
                                          `list(a)`, `a[i]` with constant i; `x is None` on such a value is `False`
  `np.any(xs)` on a list of bools         `List.any xs id`;  `xs.copy()` is `xs`
  `np.subtract(X, k, out=X, where=X > i)` `let X := Py.npSubWhereGt X k i` (2-D index array); also as the body of a fold loop
  `return a, b` with a declared tuple type, unary minus, `s[i:]` (`Py.strDrop`), numeric / tuple parameter defaults
  fragments (`fragment=[…]`)              the translation of ONE expression of a larger function: the path selects it
                                          (`("if", text)` + `"test"|"body"|"orelse"`, `("for", text)` whose targets become parameters
                                          (`loopvars`) or opaque, `("assign", target)`); the statements on the path before it are
                                          translated as a slice, and a statement outside the subset is SKIPPED after making every
                                          local it mentions opaque (so a fragment that depends on it becomes Unsupported)
  dispatch slices (`sites_only=True`)     `with cm as x:` is its body (x opaque); the result is the source text of the function
                                          whose value is returned (`return g(…)` or `x = g(…); return x`), `none` = raise

fourth batch (the lines the repairs of 2026-09-29 introduced; uc_neighbor_offsets)
  `{f(x) for x in xs}`                    the list of the values, typed as a set (a raising element: `Py.listMapM?`)
  `{k: v for a, b in d.items()}`          `Py.dictComp` / `Py.dictCompM?`: a fold of `d[k] = v` (`Py.dictInsert`: an existing key keeps
                                          its position and takes the new value)
  `sorted(xs)`, `sorted(xs, reverse=True)` on ints: `Py.sortedAsc` / `Py.sortedDesc` (insertion sort; a set is reduced by `dedup` first)
  `xs.sort(key=lambda m: e)`              `let xs := Py.sortByKey xs (fun m => e)`: stable, ascending integer key
  `a, b = s.split(c, 1)`                  `Py.strSplit1? s c` (text before / after the FIRST c; `none` = ValueError); `s.strip()`
  `"c" in s` (one character)              `List.contains s.toList 'c'`
  naturals: `a - b` is an `Int`; lists: `xs + ys` is `xs ++ ys`, `xs * n` is `Py.listRepeat xs n` (none for n ≤ 0); `tuple(x)`
  `len(other)` (`objattrs … "__len__"`)   a parameter `other_len`; a function nested in a METHOD (`cls` + `inner`)
  static arrays also: `np.ceil` (`Py.ceil`, an Int), `np.maximum` / `np.minimum` with broadcasting, element-wise `/` (numpy does
                                          not raise on 0), `np.meshgrid` (numpy's default `xy` indexing), `.T` (all axes reversed),
                                          `.reshape` with one `-1`, `np.matmul(matrix, vector)`, `np.array(x, dtype=int|float)`
  fragments also: `("assign", "x containing text")`, then `("callarg", f)` = the first argument of the unique call of `f` inside the
                                          assigned value, `("eltcallee", None)` = the NAME of the function a comprehension applies;
                                          `("stmt", "text then x")` = the value of x right after the unique statement containing
                                          text; entering the branch of `if x is (not) None` gives an optional parameter its value;
                                          `inputs={…}`: the fragment is translated for GIVEN values of these locals (the statements
                                          before it are not read)

  item 8 / wrap lines of the search: `xs[k]` with a natural k (`xs[k]?`, `none` = IndexError); `np.allclose(a, b, rtol=…, atol=…)` on
                                          lists of 3-vectors (`Py.allclose?`; a missing keyword takes numpy's default 1e-5 / 1e-8);
                                          `np.linalg.inv` of a 3x3 array (adjugate / determinant; singular matrices not modelled);
                                          `a.dot(b)` (row vector · matrix, matrix · vector); `np.floor` (`Py.floor`, an Int);
                                          Int → Rat coercion; `keep_last=N` keeps N more statements before a fragment with `inputs`;
                                          when a SKIPPED statement assigns `obj.attr`, everything known about `obj` (its
                                          attributes, `len(obj)`) becomes opaque

fifth batch (replace_pattern_in_structure: sample size, index map, deletion sets, pre-translations, wrap; the search helpers)
  `round(x)` (one argument, a float)      `Py.round x`: an Int, the nearest integer, a tie goes to the EVEN neighbour (python rounds the
                                          double; the model rounds the exact rational — they agree whenever the float product is exact)
  `d.values()`, `a.isdisjoint(b)`         `Py.dictValues d` (insertion order), `Py.setDisjoint a b`
  `x op= e` on a local name               `x = x op e` (sets / lists are values in the model; aliasing of a mutated object is not modelled)
  `[e for a in xs for x in a]`            `List.flatten (List.map (fun a => [e for x in a]) xs)`
  `call_mutates={"obj.m": [names]}`       in a fragment slice, a skipped expression statement `obj.m(…)` makes only the listed locals opaque
                                          (DECLARED per entry, trusted: `Atoms.extend` builds its own normalised dict and does not mutate
                                          the `structure_index_map` it is given — that line is translated in the fourth batch)
  `self.attr op= e` in a mutating method  `self.attr = self.attr op e`; a mutating method WITHOUT a return value (`ret=None`) is the tuple of the
                                          final values of the attributes it assigns; unary minus on a static array is element-wise
  `ROWS(n)` attributes (`objattrs`)       an (n, 3) array given by n Vec3 parameters `obj_attr_0 …` (row i stands for itself; with n = 2 for
                                          `search_pattern.positions`: row 0 is the first atom, row 1 is ANY other atom)
  `obj.m(args)` as a statement            (`method_stmts={"m": lean}`) for a translated mutating method m of one row: every row of the attribute
                                          m assigns becomes `lean row … args` (`let obj_attr_i' := …`); DECLARED: obj is an Atoms
  `obj = obj.copy()` on an object parameter keeps what is declared about obj; any other re-binding of obj makes its attributes opaque
  `for … : … break` updating one variable `Py.forBreak` / `Py.forBreakM?`: the body yields (state, did it break); loops may be nested inside a fold
                                          body when they update the same variable
  `norm(v) < d` (numpy.linalg.norm, 3-vector) `Py.normLt v d` = `0 < d ∧ ‖v‖² < d²` (exact: no square root); any other use of a norm is Unsupported
  `[e for pat in xs if c]`                `List.filterMap (fun pat => if c then some e else none) xs` (pat a name or a tuple of names; c, e cannot raise)
  `x % 1.0` on a float (also element-wise) `Py.fmod1 x` = `x - floor x` (exact on the rational; the divisor must be the literal 1.0 / 1)
  fragments also: `("stmt", "text then e")` with an EXPRESSION e (not only a name);
                  `("ifstmt", "text then e")` the value of expression e right after the unique `if` STATEMENT whose test contains text
                                          (both outcomes of the `if` are part of the translation; a `raise` is `none`)
  fragments also: `("callkw", (f, k))`    after `("assign", x)`: the keyword argument `k` of the unique call of `f` inside the assigned value

sequencing slices (`trace=True`, used for mofun_cli)
  The body must consist of simple statements (expression statements, assignments, assert, del) and `if`s over them; no
  loops, no return.  The translation is `List String`: the simple statements that are executed, in program order, as
  python source text (`ast.unparse`) in which every local is renamed l1, l2, … in the order of its first assignment in the
  source (names in `keep` and parameters stay), each under the translated guards of the enclosing `if`s
  (`if c: A else: B` ↦ `(if c then A else B)`, sequence ↦ `++`).  Guards may read the declared parameters
  (`x is None`, `x is not None`, booleans, `in` on literals) and the declared `abstractions` (expressions such as
  `inputpath.suffix` or `atoms.cell_is_orthorhombic()` that become parameters of the translation).  A name assigned inside
  an `if` and used after it, a re-assigned parameter, or a guard outside the subset is `Unsupported`.  What a recorded
  statement means is stated on the Lean side (Proofs/Code2Cli.lean, `evTable`).

decision slices (`slice=True`, used for angle_params / dihedral_params)
  The floating-point formulas are NOT translated.  An expression is OPAQUE when it mentions a parameter that is not
  declared for the translation, a function that is not in the subset (sqrt, log, cos, bond_params, …), a name that is
  not bound (pi), or an opaque variable.  Assignments of opaque values are dropped, bindings nobody uses are dropped
  (including the KeyError they could raise: a slice describes WHICH branch is taken and the non-float components of
  the returned tuple, not whether the float part evaluates), an `if` on an opaque test may only contain assignments
  (which become opaque).  A decision (`if` test with a `return`/`raise` inside) on an opaque value is `Unsupported`.
  `return (tag, c1, …)` becomes `(site, some (tag, [non-opaque int components]))`, `return None` becomes
  `(site, none)`, where `site` is the ordinal of the `return` statement in the function text.
----------------------------------------------------------------------------------------------------------------
"""
import ast
import os
import re

from . import core
from .gen_tables import _dec, _lean_str

OUT = os.path.join(core.LEAN, "MofunModel", "Generated")


class Unsupported(Exception):
    """the python function no longer has a shape the translator supports"""


# ------------------------------------------------------------------ types
STR, NAT, INT, NUM, BOOL, VAL, ELEM, KEY = "str", "nat", "int", "num", "bool", "val", "elem", "key"
MAT3, VEC3 = "mat3", "vec3"       # a 3x3 / 3 numpy array of floats with a statically known shape (Lean `Mat3` / `Vec3`)
INTLIT, DECLIT, OPAQUE, NONE = "intlit", "declit", "opaque", "none"


def LIST(t):
    return ("list", t)


def SET(t):
    return ("set", t)


def OPT(t):
    return ("opt", t)


def TUP(*ts):
    return ("tuple", tuple(ts))


def ROWS(n):
    """a numpy array of shape (n, 3) given by its rows: n parameters of type Vec3 (`name_0` … `name_<n-1>`)"""
    return ("rows", n)


def DICT(k, v):
    """insertion-ordered dict: an association list with distinct keys"""
    return ("dict", k, v)


def FUN(a, b):
    return ("fun", a, b)


def lean_ty(t):
    if isinstance(t, tuple):
        if t[0] in ("list", "set"):
            return "List %s" % _paren_ty(t[1])
        if t[0] == "opt":
            return "Option %s" % _paren_ty(t[1])
        if t[0] == "tuple":
            return " × ".join(_paren_ty(x) for x in t[1])
        if t[0] == "dict":
            return "List (%s × %s)" % (_paren_ty(t[1]), _paren_ty(t[2]))
        if t[0] == "fun":
            return "%s → %s" % (_paren_ty(t[1]), _paren_ty(t[2]))
    return {STR: "String", NAT: "Nat", INT: "Int", NUM: "Rat", BOOL: "Bool", VAL: "Py.Val", ELEM: "α", KEY: "κ",
            MAT3: "Mat3", VEC3: "Vec3"}[t]


def _paren_ty(t):
    s = lean_ty(t)
    return "(%s)" % s if " " in s else s


# module-level tables: python name -> (module that must define it, Lean constant, kind)
TABLES = {
    "NON_METALS": ("mofun.detect_bonds", "Mofun.Generated.nonMetals", "strlist"),
    "COVALENT_RADII": ("mofun.detect_bonds", "Mofun.Generated.covalentRadii", "decdict"),
    "ATOMIC_MASSES": ("mofun.atomic_masses", "Mofun.Generated.atomicMasses", "decdict"),
    "UFF4MOF": ("mofun.uff4mof", "Mofun.Generated.uff4mof", "rowdict"),
    "MAIN_GROUP_ELEMENTS": ("mofun.uff4mof", "Mofun.Generated.mainGroupElements", "strlist"),
}

LEAN_KEYWORDS = {"at", "from", "fun", "end", "then", "else", "if", "do", "let", "have", "show", "match", "with", "in",
                 "open", "by", "for", "def", "theorem", "where", "instance", "structure", "class", "namespace",
                 "section", "variable", "universe", "import", "deriving", "mutual", "return", "Type", "Prop", "Sort",
                 "some", "none", "pure", "max", "min", "id", "matches"}


class V:
    """a translated expression: Lean term (always atomic or parenthesised), python-level type, the bindings that
    have to be made before it (`let name ← term`; sub-expressions that may raise), the local Lean names it mentions"""

    def __init__(self, term, ty, binds=(), refs=(), items=None, lit=None, prop=None, np=False):
        self.term, self.ty, self.binds, self.refs = term, ty, list(binds), set(refs)
        self.items, self.lit, self.prop = items, lit, prop
        self.np = np          # a numpy array of statically known shape (`items`, nested): operators act element-wise

    @staticmethod
    def opaque():
        return V("?", OPAQUE)


def static_param(name, ty):
    """a parameter of type Mat3 / Vec3 as a numpy array whose elements are the fields of the Lean structure"""
    if ty == VEC3:
        return V(name, VEC3, (), {name}, items=[V("%s.%s" % (name, c), NUM, (), {name}) for c in "xyz"], np=True)
    if ty == MAT3:
        return V(name, MAT3, (), {name}, np=True,
                 items=[V("%s.%s" % (name, r), VEC3, (), {name}, np=True,
                          items=[V("%s.%s.%s" % (name, r, c), NUM, (), {name}) for c in "xyz"]) for r in "abc"])
    if isinstance(ty, tuple) and ty[0] == "tuple":
        n = len(ty[1])
        return V(name, ty, (), {name}, items=[V(Fn.proj(name, i, n), t, (), {name}) for i, t in enumerate(ty[1])])
    return V(name, ty, (), {name})


def shape_of(v):
    return () if v.items is None else (len(v.items),) + (shape_of(v.items[0]) if v.items else ())


def _atomic(term):
    """a name (not one of the translator's temporaries) or a string literal"""
    if re.fullmatch(r"t\d+", term):
        return False
    return re.fullmatch(r'[A-Za-z_][A-Za-z0-9_.]*|"(?:[^"\\]|\\.)*"', term) is not None


def _join(*vs):
    binds, refs = [], set()
    for v in vs:
        binds += v.binds
        refs |= v.refs
    return binds, refs


# ------------------------------------------------------------------ the translator of one function

class Fn:
    def __init__(self, cfg, src, path, tree):
        self.cfg, self.src, self.path, self.tree = cfg, src, path, tree
        self.slice = cfg.get("slice", False)
        self.partial = cfg.get("partial", False)
        self.ret = cfg["ret"]
        self.ntmp = 0
        self.fold_state = []
        self.default_defs = []
        self.node = self._find()
        self.pynames = {n.id for n in ast.walk(self.node) if isinstance(n, ast.Name)} | \
                       {a.arg for a in self.node.args.args} | set(cfg.get("attrs", {}))
        self.sites = [n for n in ast.walk(self.node) if isinstance(n, ast.Return)]
        self.sites.sort(key=lambda n: (n.lineno, n.col_offset))
        self.locals_assigned = {t.id for n in ast.walk(self.node) if isinstance(n, (ast.Assign, ast.For))
                                for t in ast.walk(n.targets[0] if isinstance(n, ast.Assign) else n.target)
                                if isinstance(t, ast.Name) and isinstance(t.ctx, ast.Store)}

    # -------------------------------------------------------------- helpers
    def fail(self, node, msg):
        name = (self.cfg["cls"] + "." if self.cfg.get("cls") else "") + self.cfg["py"]
        raise Unsupported("%s:%d: %s: %s" % (self.path, getattr(node, "lineno", 0), name, msg))

    def _find(self):
        body = self.tree.body
        if self.cfg.get("cls"):
            cls = [n for n in body if isinstance(n, ast.ClassDef) and n.name == self.cfg["cls"]]
            if not cls:
                raise Unsupported("%s: class %s not found" % (self.path, self.cfg["cls"]))
            body = cls[-1].body
        fns = [n for n in body if isinstance(n, ast.FunctionDef) and n.name == self.cfg["py"]]
        if not fns:
            raise Unsupported("%s: function %s not found" % (self.path, self.cfg["py"]))
        fn = fns[-1]
        decos = [ast.unparse(d) for d in fn.decorator_list]
        if self.cfg.get("decorators") != "any" and decos != self.cfg.get("decorators", []):
            raise Unsupported("%s:%d: decorators of %s are %r" % (self.path, fn.lineno, fn.name, decos))
        self.outer = None
        if self.cfg.get("inner"):
            inner = [n for n in fn.body if isinstance(n, ast.FunctionDef) and n.name == self.cfg["inner"]]
            if len(inner) != 1 or inner[0].decorator_list:
                raise Unsupported("%s:%d: nested function %s of %s not found" % (self.path, fn.lineno, self.cfg["inner"], fn.name))
            self.outer, fn = fn, inner[0]
            outer_params = {a.arg for a in self.outer.args.args}
            assigned = {t.id for n in ast.walk(self.outer) if isinstance(n, (ast.Assign, ast.AugAssign, ast.For))
                        for t in ast.walk(n.targets[0] if isinstance(n, ast.Assign) else n.target) if isinstance(t, ast.Name)}
            for c, _ in self.cfg.get("closure", []):
                if c not in outer_params or c in assigned:
                    raise Unsupported("%s:%d: %s is not an unmodified parameter of %s" % (self.path, fn.lineno, c, self.outer.name))
        a = fn.args
        if a.vararg or (a.kwarg and not self.cfg.get("allow_kwargs")) or a.kwonlyargs or a.posonlyargs:
            raise Unsupported("%s:%d: %s: only plain positional parameters are supported" % (self.path, fn.lineno, fn.name))
        return fn

    def tmp(self):
        self.ntmp += 1
        name = "t%d" % self.ntmp
        if name in self.pynames:
            raise Unsupported("%s: local name %s clashes with the translator's temporaries" % (self.cfg["py"], name))
        return name

    def lname(self, py):
        return py + "_" if py in LEAN_KEYWORDS else py

    def table(self, node, name):
        """the Lean constant of a module-level table, after checking that the module binds the name to it"""
        module, const, kind = TABLES[name]
        if name in self.locals_assigned or name in {a.arg for a in self.node.args.args}:
            self.fail(node, "%s is shadowed by a local" % name)
        own = self.cfg["file"][:-3].replace("/", ".")
        ok = False
        for n in self.tree.body:
            if isinstance(n, ast.ImportFrom) and n.module == module and n.level == 0:
                ok = ok or any(al.name == name and al.asname in (None, name) for al in n.names)
            if isinstance(n, ast.Assign) and any(isinstance(t, ast.Name) and t.id == name for t in n.targets):
                if own != module:
                    self.fail(node, "%s is re-bound at module level" % name)
                ok = True
        if not ok:
            self.fail(node, "%s is not bound at module level to %s.%s" % (name, module, name))
        return const, kind

    # -------------------------------------------------------------- coercions
    def coerce(self, node, v, ty):
        if v.ty == ty:
            return v
        n = v.lit
        if v.ty == INTLIT:
            if ty == NAT and n >= 0:
                return V(str(n), NAT, lit=n)
            if ty == INT:
                return V("(%d : Int)" % n, INT, lit=n)
            if ty == NUM:
                return V("(%d : Rat)" % n, NUM, lit=n)
            if ty == VAL:
                return V("(Py.Val.int %s)" % (str(n) if n >= 0 else "(%d)" % n), VAL)
        if v.ty == DECLIT and ty == NUM:
            return V("(Dec.toRat ⟨%d, %d⟩)" % n, NUM, lit=n)
        if v.ty == NAT and ty == NUM:
            return V("((%s : Nat) : Rat)" % v.term, NUM, v.binds, v.refs)
        if v.ty == NAT and ty == INT:
            return V("((%s : Nat) : Int)" % v.term, INT, v.binds, v.refs)
        if v.ty == INT and ty == NUM:
            return V("((%s : Int) : Rat)" % v.term, NUM, v.binds, v.refs)
        if v.ty == STR and ty == VAL:
            return V("(Py.Val.str %s)" % v.term, VAL, v.binds, v.refs)
        if v.ty == "emptydict" and isinstance(ty, tuple) and ty[0] == "dict":
            return V("[]", ty)
        if isinstance(ty, tuple) and ty[0] == "opt" and v.ty == NONE:
            return V("none", ty)
        if isinstance(ty, tuple) and ty[0] == "opt" and v.ty in (ty[1], INTLIT):      # seventh batch: a value where `None or a value` is expected
            w = self.coerce(node, v, ty[1])
            return V("(some %s)" % w.term, ty, w.binds, w.refs)
        if v.items is not None and isinstance(ty, tuple) and ty[0] == "tuple" and len(ty[1]) == len(v.items):
            items = [self.coerce(node, x, t) for x, t in zip(v.items, ty[1])]
            binds, refs = _join(*items)
            return V("(%s)" % ", ".join(x.term for x in items), ty, v.binds + binds, refs)
        if v.items is not None and ty == VEC3 and shape_of(v) == (3,):
            items = [self.coerce(node, x, NUM) for x in v.items]
            binds, refs = _join(*items)
            return V("(⟨%s⟩ : Vec3)" % ", ".join(x.term for x in items), VEC3, v.binds + binds, refs)
        if v.items is not None and ty == LIST(VEC3) and len(shape_of(v)) == 2 and shape_of(v)[1] == 3:
            rows = [self.coerce(node, x, VEC3) for x in v.items]
            binds, refs = _join(*rows)
            return V("[%s]" % ",\n   ".join(x.term for x in rows), ty, v.binds + binds, refs)
        if v.items is not None and ty == MAT3 and shape_of(v) == (3, 3):
            rows = [self.coerce(node, x, VEC3) for x in v.items]
            binds, refs = _join(*rows)
            return V("(⟨%s⟩ : Mat3)" % ", ".join(x.term for x in rows), MAT3, v.binds + binds, refs)
        if isinstance(v.ty, tuple) and isinstance(ty, tuple) and v.ty[0] in ("list", "set") and ty[0] in ("list", "set") \
                and v.items is not None:
            items = [self.coerce(node, x, ty[1]) for x in v.items]
            return self.mklist(items, ty)
        if isinstance(v.ty, tuple) and isinstance(ty, tuple) and v.ty[0] in ("list", "set") and ty[0] in ("list", "set") \
                and v.ty[1] == ty[1]:
            return V(v.term, ty, v.binds, v.refs, v.items)
        self.fail(node, "cannot use a value of type %s as %s" % (v.ty, ty))

    def unify(self, node, tys):
        """the common type of operands (literals adapt to the others)"""
        conc = [t for t in tys if t not in (INTLIT, DECLIT)]
        if not conc:
            return NUM if DECLIT in tys else NAT
        t = conc[0]
        for u in conc[1:]:
            if u == t:
                continue
            if {u, t} <= {NAT, NUM}:
                t = NUM
            elif {u, t} <= {NAT, INT}:
                t = INT
            elif {u, t} <= {NAT, INT, NUM}:
                t = NUM
            elif {u, t} == {STR, VAL}:
                t = VAL
            elif isinstance(u, tuple) and isinstance(t, tuple) and u[0] in ("list", "set") and t[0] in ("list", "set"):
                t = (t[0] if t[0] == u[0] else "set", self.unify(node, [t[1], u[1]]))
            else:
                self.fail(node, "operands of types %s and %s" % (t, u))
        if DECLIT in tys:
            if t == NAT:
                t = NUM
            if t != NUM:
                self.fail(node, "float literal used with %s" % (t,))
        if INTLIT in tys and t == STR:
            t = VAL
        return t

    def mklist(self, items, ty):
        binds, refs = _join(*items)
        return V("[%s]" % ", ".join(x.term for x in items), ty, binds, refs, items=[V(x.term, x.ty, (), x.refs, x.items, x.lit) for x in items])

    # -------------------------------------------------------------- numpy arrays of statically known shape
    def mkstatic(self, items, np=True):
        """a static array from its (already translated) elements"""
        binds, refs = _join(*items)
        tys = [x.ty for x in items]
        if all(t in (INTLIT, DECLIT) for t in tys):
            ty, term = LIST(DECLIT if DECLIT in tys else INTLIT), "?"
        else:
            ety = tys[0] if all(t == tys[0] for t in tys) else None
            if ety is None and all(x.items is None for x in items):
                ety = self.unify(None, tys)
                items = [self.coerce(None, x, ety) for x in items]
            ty = LIST(ety if ety is not None else tys[0])
            term = "?" if any(x.term == "?" for x in items) else "[%s]" % ", ".join(x.term for x in items)
        return V(term, ty, binds, refs, items=[V(x.term, x.ty, (), x.refs, x.items, x.lit, np=x.np) for x in items], np=np)

    def elementwise(self, node, a, b, f):
        """numpy broadcasting of a binary scalar operation `f` over static arrays (trailing axes are aligned)"""
        sa, sb = shape_of(a), shape_of(b)
        if not sa and not sb:
            return f(a, b)
        if len(sa) > len(sb):
            return self.mkstatic([self.elementwise(node, x, b, f) for x in a.items])
        if len(sb) > len(sa):
            return self.mkstatic([self.elementwise(node, a, y, f) for y in b.items])
        if sa[0] == sb[0]:
            return self.mkstatic([self.elementwise(node, x, y, f) for x, y in zip(a.items, b.items)])
        if sa[0] == 1:
            return self.mkstatic([self.elementwise(node, a.items[0], y, f) for y in b.items])
        if sb[0] == 1:
            return self.mkstatic([self.elementwise(node, x, b.items[0], f) for x in a.items])
        self.fail(node, "shapes %s and %s cannot be broadcast" % (sa, sb))

    def flat(self, v):
        return [v] if v.items is None else [y for x in v.items for y in self.flat(x)]

    def reduce_bool(self, node, v, op, unit):
        xs = self.flat(v)
        if any(x.ty != BOOL for x in xs):
            self.fail(node, "any/all of a non-boolean array")
        binds, refs = _join(*xs)
        if not xs:
            return V(unit, BOOL)
        term = xs[0].term
        for x in xs[1:]:
            term = "(%s %s %s)" % (term, op, x.term)
        return V(term, BOOL, v.binds + binds, refs | v.refs)

    def close(self, v):
        """the Option-valued term `do binds; pure v`"""
        if not v.binds:
            return "(some %s)" % v.term
        return "(do %s; pure %s)" % ("; ".join("let %s ← %s" % (n, t) for n, t, _ in v.binds), v.term)

    def rebind(self, term, ty, refs):
        t = self.tmp()
        return V(t, ty, [(t, term, set(refs))], {t})

    # -------------------------------------------------------------- expressions
    def ex(self, node, env, want=None):
        ab = self.cfg.get("abstractions")
        if ab and isinstance(node, (ast.Attribute, ast.Call)):
            key = ast.unparse(node)
            if key in ab:                       # an expression the translation takes as a parameter
                nm, ty = ab[key]
                return static_param(nm, ty)
        ac = self.cfg.get("abstract_calls")
        if ac and isinstance(node, ast.Call):
            # seventh batch: `f(… $ …)` with ONE hole: a function-typed parameter of the translation applied to the translated hole
            for pat, (nm, fty) in ac.items():
                hole = _match_hole(ast.parse(pat.replace("$", "__hole__"), mode="eval").body, node)
                if hole:
                    a = self.ex(hole[0], env)
                    if a.ty == OPAQUE:
                        return V.opaque()
                    a = self.coerce(node, a, fty[1])
                    return V("(%s %s)" % (nm, a.term), fty[2], a.binds, a.refs | {nm})
        mc = self.cfg.get("method_calls")
        if mc and isinstance(node, ast.Call) and ast.unparse(node) in mc:
            # `obj.m()` where `m` is a translated method: its `self.attr` parameters are read from `obj.attr`
            lean, argsrc = mc[ast.unparse(node)]
            other = [c for c in FUNCTIONS if c["lean"] == lean][0]
            args = [self.ex(ast.parse(a, mode="eval").body, env) for a in argsrc]
            if any(a.ty == OPAQUE for a in args):
                return V.opaque()
            args = [self.coerce(node, a, t) for a, t in zip(args, list(other.get("attrs", {}).values()) + [t for _, t in other["params"]])]
            binds, refs = _join(*args)
            term = "(%s %s)" % (lean, " ".join(a.term for a in args))
            if other.get("partial"):
                r = self.rebind(term, other["ret"], refs)
                return V(r.term, other["ret"], binds + r.binds, r.refs)
            return V(term, other["ret"], binds, refs)
        m = getattr(self, "ex_" + type(node).__name__, None)
        if m is None:
            if self.slice:
                return V.opaque()
            self.fail(node, "expression %s is outside the supported subset" % type(node).__name__)
        v = m(node, env, want)
        if v.ty == OPAQUE and not self.slice:
            self.fail(node, "expression outside the supported subset: %s" % ast.unparse(node))
        return v

    def ex_Constant(self, node, env, want):
        c = node.value
        if isinstance(c, bool):
            return V("true" if c else "false", BOOL)
        if isinstance(c, str):
            return V(_lean_str(c), STR)
        if isinstance(c, int):
            return V(str(c), INTLIT, lit=c)
        if isinstance(c, float):
            return V("?", DECLIT, lit=_dec(self.src, node))
        if c is None:
            return V("none", NONE)
        self.fail(node, "constant %r" % (c,))

    def ex_Name(self, node, env, want):
        if node.id in env:
            return env[node.id]
        if node.id in TABLES:
            const, kind = self.table(node, node.id)
            if kind == "strlist":
                return V(const, LIST(STR))
            return V(const, ("table", kind))
        if node.id in self.locals_assigned:
            raise UnboundLocal(node.id)
        if self.slice:
            return V.opaque()
        self.fail(node, "name %s is not a parameter, a local or a translated table" % node.id)

    def at(self, v, idx):
        for i in idx:
            v = v.items[i]
        return v

    def build(self, shape, f, idx=()):
        """the static array of the given shape whose element at index tuple t is f(t)"""
        if len(idx) == len(shape):
            return f(idx)
        return self.mkstatic([self.build(shape, f, idx + (i,)) for i in range(shape[len(idx)])])

    def ex_Attribute(self, node, env, want):
        if node.attr == "T":
            v = self.ex(node.value, env)
            if v.ty == OPAQUE:
                return v
            if v.np and v.items is not None:
                sh = shape_of(v)
                r = self.build(tuple(reversed(sh)), lambda t: self.at(v, tuple(reversed(t))))
                r.binds = v.binds + r.binds
                return r
        if isinstance(node.value, ast.Name) and node.value.id == "self" and "self" in env and node.attr in self.cfg.get("attrs", {}):
            return env["self." + node.attr]
        if isinstance(node.value, ast.Name) and node.value.id in self.cfg.get("objattrs", {}) and \
                node.attr in self.cfg["objattrs"][node.value.id] and (node.value.id + "." + node.attr) in env:
            return env[node.value.id + "." + node.attr]
        if isinstance(node.value, ast.Name) and node.value.id == "self" and "self" in env:
            # a property of the same class that is translated separately
            for other in FUNCTIONS:
                if other.get("cls") == self.cfg.get("cls") and other["py"] == node.attr and other.get("decorators") == ["property"] \
                        and not other.get("slice"):
                    missing = [a for a in other["attrs"] if "self." + a not in env]
                    if missing:
                        self.fail(node, "property %s reads self.%s, which is not declared for %s" % (node.attr, missing[0], self.cfg["py"]))
                    args = [env["self." + a] for a in other["attrs"]]
                    binds, refs = _join(*args)
                    term = "(%s %s)" % (other["lean"], " ".join(a.term for a in args))
                    if other.get("partial"):
                        r = self.rebind(term, other["ret"], refs)
                        return V(r.term, other["ret"], binds + r.binds, r.refs)
                    return V(term, other["ret"], binds, refs)
        if self.slice:
            return V.opaque()
        self.fail(node, "attribute %s" % ast.unparse(node))

    def ex_UnaryOp(self, node, env, want):
        if isinstance(node.op, ast.Not):
            v = self.cond(node.operand, env)
            if v.ty == OPAQUE:
                return v
            return V("(!%s)" % v.term, BOOL, v.binds, v.refs)
        if isinstance(node.op, ast.USub) and isinstance(node.operand, ast.Constant):
            v = self.ex(node.operand, env)
            if v.ty == INTLIT:
                return V(str(-v.lit), INTLIT, lit=-v.lit)
            if v.ty == DECLIT:
                return V("?", DECLIT, lit=(-v.lit[0], v.lit[1]))
        if isinstance(node.op, ast.USub):
            v = self.ex(node.operand, env)
            if v.ty == OPAQUE:
                return v
            if v.np and v.items is not None:               # element-wise on a static array
                def neg(x):
                    if x.items is not None:
                        return self.mkstatic([neg(y) for y in x.items])
                    x = self.coerce(node, x, NUM if x.ty in (NUM, DECLIT) else INT)
                    return V("(-%s)" % x.term, x.ty, x.binds, x.refs)
                r = neg(v)
                r.binds = v.binds + r.binds
                return r
            if v.ty == NAT:
                v = self.coerce(node, v, INT)
            if v.ty in (NUM, INT):
                return V("(-%s)" % v.term, v.ty, v.binds, v.refs)
        if self.slice:
            return V.opaque()
        self.fail(node, "unary operator")

    def ex_BoolOp(self, node, env, want):
        vs = [self.cond(x, env) for x in node.values]
        if any(v.ty == OPAQUE for v in vs):
            return V.opaque()
        op, unit = ("&&", "false") if isinstance(node.op, ast.And) else ("||", "true")
        acc = vs[0]
        for v in vs[1:]:
            if not v.binds:
                acc = V("(%s %s %s)" % (acc.term, op, v.term), BOOL, acc.binds, acc.refs | v.refs)
            else:  # short circuit: the right operand is evaluated (and may raise) only when needed
                a, b = (self.close(v), "(some %s)" % unit) if op == "&&" else ("(some %s)" % unit, self.close(v))
                inner = set(v.refs)
                for _, _, r_ in v.binds:
                    inner |= r_
                inner -= {b_[0] for b_ in v.binds}
                r = self.rebind("(if %s then %s else %s)" % (acc.term, a, b), BOOL, acc.refs | inner)
                acc = V(r.term, BOOL, acc.binds + r.binds, r.refs)
        return acc

    def ex_IfExp(self, node, env, want):
        c = self.cond(node.test, env)
        a, b = self.ex(node.body, env, want), self.ex(node.orelse, env, want)
        if OPAQUE in (c.ty, a.ty, b.ty):
            return V.opaque()
        ty = self.unify(node, [a.ty, b.ty])
        if a.ty == b.ty == BOOL:
            ty = BOOL
        a, b = self.coerce(node, a, ty), self.coerce(node, b, ty)
        test = c.prop or c.term
        if not a.binds and not b.binds:
            return V("(if %s then %s else %s)" % (test, a.term, b.term), ty, c.binds, c.refs | a.refs | b.refs)
        inner = set(a.refs) | set(b.refs)
        for _, _, r_ in a.binds + b.binds:
            inner |= r_
        inner -= {b_[0] for b_ in a.binds + b.binds}
        r = self.rebind("(if %s then %s else %s)" % (test, self.close(a), self.close(b)), ty, c.refs | inner)
        return V(r.term, ty, c.binds + r.binds, r.refs)

    def ex_Compare(self, node, env, want):
        operands = [node.left] + list(node.comparators)
        out = None
        left = self.ex(operands[0], env)
        for op, rn in zip(node.ops, operands[1:]):
            right = self.ex(rn, env)
            if OPAQUE in (left.ty, right.ty):
                return V.opaque()
            if isinstance(op, (ast.Is, ast.IsNot)) and right.ty == NONE and left.ty in (MAT3, VEC3) and len(node.ops) == 1:
                return V("false" if isinstance(op, ast.Is) else "true", BOOL)     # a declared array is not None
            if (left.np and left.items is not None) or (right.np and right.items is not None):
                if len(node.ops) != 1 or isinstance(op, (ast.In, ast.NotIn, ast.Is, ast.IsNot)):
                    self.fail(node, "comparison of arrays")
                r = self.elementwise(node, left, right, lambda x, y: self.compare1(node, op, x, y))
                r.binds = left.binds + right.binds + r.binds
                return r
            one = self.compare1(node, op, left, right)
            if out is None:
                out = one
            else:
                if one.binds:
                    self.fail(node, "chained comparison whose later operand may raise")
                out = V("(%s && %s)" % (out.term, one.term), BOOL, out.binds, out.refs | one.refs)
            left = V(right.term, right.ty, (), right.refs, right.items, right.lit)
        return out

    def compare1(self, node, op, a, b):
        if isinstance(op, (ast.In, ast.NotIn)):
            if isinstance(b.ty, tuple) and b.ty[0] == "table":
                if a.ty != STR:
                    self.fail(node, "table key of type %s" % (a.ty,))
                term = "(Py.tableHas %s %s)" % (b.term, a.term)
            elif isinstance(b.ty, tuple) and b.ty[0] == "dict":
                a = self.coerce(node, a, b.ty[1])
                term = "(Py.dictHas %s %s)" % (b.term, a.term)
            elif b.ty == STR and a.ty == STR and re.fullmatch(r'"(?:[^"\\]|\\.)"', a.term) and len(a.term) == 3:
                term = "(List.contains (String.toList %s) '%s')" % (b.term, a.term[1])     # one-character substring
            elif isinstance(b.ty, tuple) and b.ty[0] in ("list", "set"):
                ety = self.unify(node, [a.ty, b.ty[1]])
                a, b = self.coerce(node, a, ety), self.coerce(node, b, (b.ty[0], ety))
                term = "(List.contains %s %s)" % (b.term, a.term)
            else:
                self.fail(node, "`in` on a value of type %s" % (b.ty,))
            binds, refs = _join(a, b)
            if isinstance(op, ast.NotIn):
                term = "(!%s)" % term
            return V(term, BOOL, binds, refs)
        if isinstance(op, (ast.Is, ast.IsNot)):
            if isinstance(a.ty, tuple) and a.ty[0] == "opt" and b.ty == NONE:
                fn = "Option.isNone" if isinstance(op, ast.Is) else "Option.isSome"
                return V("(%s %s)" % (fn, a.term), BOOL, a.binds, a.refs)
            self.fail(node, "`is` is supported only between an optional parameter and None")
        if a.ty == "norm" or b.ty == "norm":
            if a.ty == "norm" and isinstance(op, ast.Lt) and b.ty in (NUM, DECLIT, INTLIT, NAT, INT):
                b = self.coerce(node, b, NUM)
                binds, refs = _join(a, b)
                return V("(Py.normLt %s %s)" % (a.term, b.term), BOOL, binds, refs)
            self.fail(node, "a norm may only be compared as `norm(v) < d`")
        ty = self.unify(node, [a.ty, b.ty])
        a, b = self.coerce(node, a, ty), self.coerce(node, b, ty)
        binds, refs = _join(a, b)
        isset = isinstance(ty, tuple) and ty[0] == "set"
        if isinstance(ty, tuple) and ty[0] == "table":
            self.fail(node, "comparison of tables")
        if isinstance(op, (ast.Eq, ast.NotEq)):
            if isset:
                term, prop = "(Py.setEq %s %s)" % (a.term, b.term), None
            else:
                term, prop = "(%s == %s)" % (a.term, b.term), "%s = %s" % (a.term, b.term)
            if isinstance(op, ast.NotEq):
                term, prop = "(!%s)" % term, (None if prop is None else "%s ≠ %s" % (a.term, b.term))
            return V(term, BOOL, binds, refs, prop=prop)
        sym = {ast.Lt: "<", ast.LtE: "≤", ast.Gt: ">", ast.GtE: "≥"}[type(op)]
        if isset:
            if isinstance(op, ast.LtE):
                return V("(Py.setSubset %s %s)" % (a.term, b.term), BOOL, binds, refs)
            if isinstance(op, ast.GtE):
                return V("(Py.setSubset %s %s)" % (b.term, a.term), BOOL, binds, refs)
            self.fail(node, "proper-subset comparison of sets")
        if ty in (BOOL, VAL, ELEM) or (isinstance(ty, tuple) and ty[0] == "opt"):
            self.fail(node, "order comparison on %s" % (ty,))
        return V("(decide (%s %s %s))" % (a.term, sym, b.term), BOOL, binds, refs, prop="%s %s %s" % (a.term, sym, b.term))

    def ex_BinOp(self, node, env, want):
        a, b = self.ex(node.left, env), self.ex(node.right, env)
        if OPAQUE in (a.ty, b.ty):
            return V.opaque()
        if (a.np and a.items is not None) or (b.np and b.items is not None):
            self.np_div = True
            try:
                r = self.elementwise(node, a, b, lambda x, y: self.binop_scalar(node, x, y))
            finally:
                self.np_div = False
            r.binds = a.binds + b.binds + r.binds
            return r
        return self.binop_scalar(node, a, b)

    def binop_scalar(self, node, a, b):
        def islist(v):
            return isinstance(v.ty, tuple) and v.ty[0] == "list" and not v.np
        if isinstance(node.op, ast.Mult) and islist(a) and b.ty in (NAT, INT, INTLIT):
            # python `xs * n`: n copies (none for n <= 0)
            if a.items is not None and a.term == "?":
                a = self.coerce(node, a, LIST(self.unify(node, [x.ty for x in a.items])))
            n = self.coerce(node, b, INT)
            binds, refs = _join(a, n)
            return V("(Py.listRepeat %s %s)" % (a.term, n.term), a.ty, binds, refs)
        if isinstance(node.op, ast.Add) and islist(a) and islist(b):
            ety = self.unify(node, [a.ty[1], b.ty[1]])
            a, b = self.coerce(node, a, LIST(ety)), self.coerce(node, b, LIST(ety))
            binds, refs = _join(a, b)
            return V("(%s ++ %s)" % (a.term, b.term), LIST(ety), binds, refs)
        ty = self.unify(node, [a.ty, b.ty])
        if isinstance(ty, tuple) and ty[0] == "set":
            fn = {ast.BitAnd: "Py.setInter", ast.BitOr: "Py.setUnion", ast.Sub: "Py.setDiff"}.get(type(node.op))
            if fn is None:
                self.fail(node, "operator on sets")
            a, b = self.coerce(node, a, ty), self.coerce(node, b, ty)
            binds, refs = _join(a, b)
            return V("(%s %s %s)" % (fn, a.term, b.term), ty, binds, refs)
        if ty not in (NAT, INT, NUM):
            self.fail(node, "arithmetic on %s" % (ty,))
        if isinstance(node.op, ast.Mod):
            if ty == NUM and ((b.ty == DECLIT and b.lit[0] == 10 ** b.lit[1]) or (b.ty == INTLIT and b.lit == 1)):
                a = self.coerce(node, a, NUM)              # `x % 1.0` on a float: the fractional part, in [0, 1)
                return V("(Py.fmod1 %s)" % a.term, NUM, a.binds, a.refs)
            if ty == NUM:
                self.fail(node, "% on floats")
            a, b = self.coerce(node, a, INT), self.coerce(node, b, INT)
            binds, refs = _join(a, b)
            r = self.rebind("(Py.intMod? %s %s)" % (a.term, b.term), INT, refs)
            return V(r.term, INT, binds + r.binds, r.refs)
        if isinstance(node.op, ast.Div):
            ty = NUM
            if getattr(self, "np_div", False):
                pass                      # numpy float division does not raise (x / 0 is inf or nan: outside the rational model)
            elif b.ty not in (INTLIT, DECLIT) or (b.lit if b.ty == INTLIT else b.lit[0]) == 0:
                self.fail(node, "division by something that is not a non-zero literal (ZeroDivisionError is not modelled)")
        if isinstance(node.op, ast.Sub) and ty == NAT:
            ty = INT                      # python ints: the difference of two naturals may be negative
        sym = {ast.Add: "+", ast.Sub: "-", ast.Mult: "*", ast.Div: "/"}.get(type(node.op))
        if sym is None:
            self.fail(node, "operator %s" % type(node.op).__name__)
        a, b = self.coerce(node, a, ty), self.coerce(node, b, ty)
        binds, refs = _join(a, b)
        return V("(%s %s %s)" % (a.term, sym, b.term), ty, binds, refs)

    def ex_Set(self, node, env, want):
        return self.seq(node, env, "set")

    def ex_List(self, node, env, want):
        return self.seq(node, env, "list")

    def ex_Tuple(self, node, env, want):
        return self.seq(node, env, "list")

    def seq(self, node, env, kind):
        items = [self.ex(e, env) for e in node.elts]
        if any(x.ty == OPAQUE for x in items):
            return V.opaque()
        if any(isinstance(e, ast.Starred) for e in node.elts):
            self.fail(node, "starred element")
        ety = self.unify(node, [x.ty for x in items]) if items else STR
        if all(x.ty in (INTLIT, DECLIT) for x in items):
            # keep the literals: the context decides their type
            binds, refs = _join(*items)
            return V("?", (kind, DECLIT if any(x.ty == DECLIT for x in items) else INTLIT), binds, refs, items=items)
        return self.mklist([self.coerce(node, x, ety) for x in items], (kind, ety))

    def ex_Subscript(self, node, env, want):
        sl = node.slice
        # T[k][i]
        if isinstance(node.value, ast.Subscript) and isinstance(node.value.value, ast.Name) and \
                node.value.value.id in TABLES and node.value.value.id not in env:
            const, kind = self.table(node, node.value.value.id)
            k = self.ex(node.value.slice, env)
            if k.ty == OPAQUE:
                return V.opaque()
            if kind != "rowdict" or not (isinstance(sl, ast.Constant) and isinstance(sl.value, int) and sl.value >= 0) or k.ty != STR:
                self.fail(node, "table access %s" % ast.unparse(node))
            r = self.rebind("(Py.tableCol %s %s %d)" % (const, k.term, sl.value), NUM, k.refs)
            return V(r.term, NUM, k.binds + r.binds, r.refs)
        base = self.ex(node.value, env)
        if base.ty == OPAQUE:
            return V.opaque()
        if isinstance(base.ty, tuple) and base.ty[0] == "table":
            k = self.ex(sl, env)
            if k.ty == OPAQUE:
                return V.opaque()
            if base.ty[1] != "decdict" or k.ty != STR:
                self.fail(node, "table access %s" % ast.unparse(node))
            r = self.rebind("(Py.tableGet %s %s)" % (base.term, k.term), NUM, k.refs)
            return V(r.term, NUM, k.binds + r.binds, r.refs)
        if isinstance(sl, ast.Slice):
            lo = 0 if sl.lower is None else self.const_index(sl.lower)
            if base.ty == STR and sl.step is None and sl.upper is None:
                return V("(Py.strDrop %s %d)" % (base.term, lo), STR, base.binds, base.refs)
            if base.ty != STR or sl.step is not None or sl.upper is None:
                self.fail(node, "slice %s" % ast.unparse(node))
            hi = self.const_index(sl.upper)
            return V("(Py.strSlice %s %d %d)" % (base.term, lo, hi), STR, base.binds, base.refs)
        if not isinstance(sl, ast.Constant) and isinstance(base.ty, tuple) and base.ty[0] == "list" and base.items is None:
            k = self.ex(sl, env)
            if k.ty == OPAQUE:
                return V.opaque()
            if k.ty != NAT:
                self.fail(node, "list index of type %s (only naturals: a negative index counts from the end)" % (k.ty,))
            r = self.rebind("(%s[%s]?)" % (base.term, k.term), base.ty[1], base.refs | k.refs)
            return V(r.term, base.ty[1], base.binds + k.binds + r.binds, r.refs)
        i = self.const_index(sl)
        if isinstance(base.ty, tuple) and base.ty[0] == "tuple" and base.items is None:
            n = len(base.ty[1])
            if i >= n:
                self.fail(node, "index %d outside a tuple of %d components" % (i, n))
            return V(self.proj(base.term, i, n), base.ty[1][i], base.binds, base.refs)
        if base.items is not None:
            if i >= len(base.items):
                self.fail(node, "index %d outside a list of %d elements" % (i, len(base.items)))
            x = base.items[i]
            return V(x.term, x.ty, base.binds, x.refs, x.items, x.lit, np=x.np)
        if base.ty == STR:
            r = self.rebind("(Py.strIndex? %s %d)" % (base.term, i), STR, base.refs)
            return V(r.term, STR, base.binds + r.binds, r.refs)
        if isinstance(base.ty, tuple) and base.ty[0] == "list":
            r = self.rebind("(%s[%d]?)" % (base.term, i), base.ty[1], base.refs)
            return V(r.term, base.ty[1], base.binds + r.binds, r.refs)
        self.fail(node, "subscript of a value of type %s" % (base.ty,))

    @staticmethod
    def proj(term, i, n):
        """component i of an n-tuple (right-nested pairs)"""
        t = term + ".2" * i
        return "%s.1" % t if i < n - 1 else t

    def const_index(self, node):
        if isinstance(node, ast.Constant) and isinstance(node.value, int) and not isinstance(node.value, bool) and node.value >= 0:
            return node.value
        self.fail(node, "only constant non-negative indices are supported")

    def ex_ListComp(self, node, env, want):
        if len(node.generators) == 2 and not any(g.ifs or g.is_async or not isinstance(g.target, ast.Name) for g in node.generators):
            # `[e for a in xs for x in ys(a)]`: the inner lists one after the other, in the order of xs
            g = node.generators[0]
            src = self.ex(g.iter, env)
            if src.ty == OPAQUE:
                return V.opaque()
            if not (isinstance(src.ty, tuple) and src.ty[0] == "list") or src.items is not None:
                self.fail(node, "nested comprehension over %s" % (src.ty,))
            e2 = dict(env)
            nm = self.lname(g.target.id)
            e2[g.target.id] = V(nm, src.ty[1], (), {nm})
            inner = self.ex_ListComp(ast.copy_location(ast.ListComp(elt=node.elt, generators=node.generators[1:]), node), e2, want)
            if inner.ty == OPAQUE:
                return V.opaque()
            if inner.binds or inner.items is not None:
                self.fail(node, "nested comprehension whose inner part may raise or is a static list")
            return V("(List.flatten (List.map (fun %s => %s) %s))" % (nm, inner.term, src.term), inner.ty, src.binds, (inner.refs - {nm}) | src.refs)
        g0 = node.generators[0]
        if len(node.generators) == 1 and not g0.is_async and (g0.ifs or isinstance(g0.target, ast.Tuple)) and \
                (isinstance(g0.target, ast.Name) or all(isinstance(e, ast.Name) for e in g0.target.elts)):
            # `[e for pat in xs if c]` (pat a name or a tuple of names): `List.filterMap (fun pat => if c then some e else none) xs`
            src = self.ex(g0.iter, env)
            if src.ty == OPAQUE:
                return V.opaque()
            if not (isinstance(src.ty, tuple) and src.ty[0] == "list") or src.items is not None:
                self.fail(node, "filtered comprehension over %s" % (src.ty,))
            e2 = dict(env)
            if isinstance(g0.target, ast.Name):
                names = [self.lname(g0.target.id)]
                e2[g0.target.id] = V(names[0], src.ty[1], (), {names[0]})
                pat = names[0]
            else:
                ety = src.ty[1]
                if not (isinstance(ety, tuple) and ety[0] == "tuple" and len(ety[1]) == len(g0.target.elts)):
                    self.fail(node, "comprehension target for elements of type %s" % (ety,))
                names = [self.lname(e.id) for e in g0.target.elts]
                for e, nm, ty in zip(g0.target.elts, names, ety[1]):
                    e2[e.id] = V(nm, ty, (), {nm})
                pat = "(%s)" % ", ".join(names)
            conds = [self.cond(c, e2) for c in g0.ifs]
            body = self.ex(node.elt, e2)
            if body.ty == OPAQUE or any(c.ty == OPAQUE for c in conds):
                return V.opaque()
            if body.binds and not conds and body.ty not in (INTLIT, DECLIT):
                # seventh batch: `[e for a, b in xs]`, e may raise: the first exception ends the comprehension
                inner = set(body.refs)
                for _, _, r_ in body.binds:
                    inner |= r_
                inner -= set(names) | {b_[0] for b_ in body.binds}
                r = self.rebind("(Py.listMapM? %s (fun %s => %s))" % (src.term, pat, self.close(body)), LIST(body.ty), inner | src.refs)
                return V(r.term, LIST(body.ty), src.binds + r.binds, r.refs)
            if body.binds or any(c.binds for c in conds):
                self.fail(node, "filtered comprehension whose test or element may raise")
            if body.ty in (INTLIT, DECLIT):
                body = self.coerce(node, body, NAT if body.ty == INTLIT else NUM)
            refs = (set(body.refs) | {r for c in conds for r in c.refs}) - set(names) | src.refs
            test = " && ".join(c.term for c in conds) if conds else "true"
            return V("(List.filterMap (fun %s => if (%s) then some %s else none) %s)" % (pat, test, body.term, src.term), LIST(body.ty), src.binds, refs)
        if len(node.generators) != 1 or node.generators[0].ifs or node.generators[0].is_async or \
                not isinstance(node.generators[0].target, ast.Name):
            self.fail(node, "comprehension shape")
        g = node.generators[0]
        src = self.ex(g.iter, env)
        if src.ty == OPAQUE:
            return V.opaque()
        if src.items is not None:
            items = []
            for x in src.items:
                e2 = dict(env)
                e2[g.target.id] = x
                items.append(self.ex(node.elt, e2))
            if any(x.ty == OPAQUE for x in items):
                return V.opaque()
            ety = self.unify(node, [x.ty for x in items])
            v = self.mklist([self.coerce(node, x, ety) for x in items], LIST(ety))
            v.binds = src.binds + v.binds
            return v
        if not (isinstance(src.ty, tuple) and src.ty[0] == "list"):
            self.fail(node, "comprehension over %s" % (src.ty,))
        e2 = dict(env)
        nm = self.lname(g.target.id)
        e2[g.target.id] = V(nm, src.ty[1], (), {nm})
        body = self.ex(node.elt, e2)
        if body.ty == OPAQUE:
            return V.opaque()
        if body.binds:
            inner = set(body.refs)
            for _, _, r_ in body.binds:
                inner |= r_
            inner -= {nm} | {b[0] for b in body.binds}
            r = self.rebind("(Py.listMapM? %s (fun %s => %s))" % (src.term, nm, self.close(body)), LIST(body.ty), inner | src.refs)
            return V(r.term, LIST(body.ty), src.binds + r.binds, r.refs)
        return V("(List.map (fun %s => %s) %s)" % (nm, body.term, src.term), LIST(body.ty), src.binds, (body.refs - {nm}) | src.refs)

    def ex_SetComp(self, node, env, want):
        """`{f(x) for x in xs}`: the list of the values (set semantics live in the operations applied to it)"""
        v = self.ex_ListComp(ast.copy_location(ast.ListComp(elt=node.elt, generators=node.generators), node), env, want)
        if v.ty == OPAQUE:
            return v
        return V(v.term, SET(v.ty[1]), v.binds, v.refs)

    def ex_DictComp(self, node, env, want):
        """`{k(a, b): v(a, b) for a, b in d.items()}` over an insertion-ordered dict: a fold of `d[k] = v`"""
        if len(node.generators) != 1 or node.generators[0].ifs or node.generators[0].is_async:
            self.fail(node, "comprehension shape")
        g = node.generators[0]
        if isinstance(g.target, ast.Name) and isinstance(want, tuple) and want[0] == "dict":
            # seventh batch: `{k(x): v(x) for x in xs}` over a list / set: a fold of `d[k] = v` in the order of the Lean list
            # (for a python SET the iteration order is not modelled: only order-independent statements about the result are meaningful)
            src = self.ex(g.iter, env)
            if src.ty == OPAQUE:
                return V.opaque()
            if not (isinstance(src.ty, tuple) and src.ty[0] in ("list", "set")) or src.items is not None:
                self.fail(node, "dict comprehension over %s" % (src.ty,))
            nm = self.lname(g.target.id)
            e2 = dict(env)
            e2[g.target.id] = V(nm, src.ty[1], (), {nm})
            k = self.coerce(node, self.ex(node.key, e2), want[1])
            if isinstance(node.value, ast.List) and not node.value.elts and isinstance(want[2], tuple) and want[2][0] == "list":
                v = V("([] : %s)" % lean_ty(want[2]), want[2])
            else:
                v = self.coerce(node, self.ex(node.value, e2), want[2])
            if k.binds or v.binds:
                self.fail(node, "dict comprehension over a list whose key or value may raise")
            return V("(Py.dictCompList %s (fun %s => (%s, %s)))" % (src.term, nm, k.term, v.term), want, src.binds,
                     ((set(k.refs) | set(v.refs)) - {nm}) | src.refs)
        g = node.generators[0]
        if not (isinstance(g.iter, ast.Call) and isinstance(g.iter.func, ast.Attribute) and g.iter.func.attr == "items" and not g.iter.args):
            self.fail(node, "dict comprehension over something that is not d.items()")
        d = self.ex(g.iter.func.value, env)
        if d.ty == OPAQUE:
            return V.opaque()
        if not (isinstance(d.ty, tuple) and d.ty[0] == "dict" and isinstance(g.target, ast.Tuple) and len(g.target.elts) == 2 and
                all(isinstance(e, ast.Name) for e in g.target.elts)):
            self.fail(node, "dict comprehension over %s" % (d.ty,))
        e2 = dict(env)
        names = [self.lname(e.id) for e in g.target.elts]
        for e, nm, ty in zip(g.target.elts, names, d.ty[1:]):
            e2[e.id] = V(nm, ty, (), {nm})
        k, v = self.ex(node.key, e2), self.ex(node.value, e2)
        if OPAQUE in (k.ty, v.ty):
            return V.opaque()
        binds = k.binds + v.binds
        refs = set(k.refs) | set(v.refs)
        for _, _, r_ in binds:
            refs |= r_
        refs -= set(names) | {b[0] for b in binds}
        pair = V("(%s, %s)" % (k.term, v.term), None, binds)
        ty = DICT(k.ty, v.ty)
        if binds:
            r = self.rebind("(Py.dictCompM? %s (fun (%s, %s) => %s))" % (d.term, names[0], names[1], self.close(pair)), ty, refs | d.refs)
            return V(r.term, ty, d.binds + r.binds, r.refs)
        return V("(Py.dictComp %s (fun (%s, %s) => %s))" % (d.term, names[0], names[1], pair.term), ty, d.binds, refs | d.refs)

    def ex_Lambda(self, node, env, want):
        self.fail(node, "lambda is supported only as `key=` of min / max")

    def ex_Dict(self, node, env, want):
        if node.keys:
            self.fail(node, "only the empty dict literal is supported")
        return V("[]", "emptydict")

    def key_lambda(self, node, env, ety):
        """`key=lambda x: e` -> (Lean function term, refs); the key must be a number"""
        if not isinstance(node, ast.Lambda) or len(node.args.args) != 1 or node.args.defaults or node.args.vararg or node.args.kwarg:
            self.fail(node, "key= must be a one-argument lambda")
        x = node.args.args[0].arg
        nm = self.lname(x)
        e2 = dict(env)
        e2[x] = V(nm, ety, (), {nm})
        body = self.ex(node.body, e2)
        if body.binds:
            self.fail(node, "key function that may raise")
        body = self.coerce(node, body, NUM)
        return "(fun %s => %s)" % (nm, body.term), body.refs - {nm}

    def ex_Call(self, node, env, want):
        f = node.func
        kw = {k.arg: k.value for k in node.keywords}
        # min / max with a key function: the FIRST extremal element
        if isinstance(f, ast.Name) and f.id in ("min", "max") and f.id not in env and set(kw) == {"key"} and len(node.args) == 1:
            xs = self.ex(node.args[0], env)
            if xs.ty == OPAQUE:
                return V.opaque()
            if not (isinstance(xs.ty, tuple) and xs.ty[0] == "list"):
                self.fail(node, "%s(…, key=…) over %s" % (f.id, xs.ty))
            fn, refs = self.key_lambda(kw["key"], env, xs.ty[1])
            r = self.rebind("(Py.%sBy? %s %s)" % (f.id, xs.term, fn), xs.ty[1], refs | xs.refs)
            return V(r.term, xs.ty[1], xs.binds + r.binds, r.refs)
        # sorted(xs, reverse=True) on integers (a set is first reduced to its distinct members)
        if isinstance(f, ast.Name) and f.id == "sorted" and "sorted" not in env and len(node.args) == 1 and \
                (not kw or (set(kw) == {"reverse"} and isinstance(kw["reverse"], ast.Constant) and isinstance(kw["reverse"].value, bool))):
            xs = self.ex(node.args[0], env)
            if xs.ty == OPAQUE:
                return V.opaque()
            if xs.ty not in (LIST(INT), SET(INT)):
                self.fail(node, "sorted of %s" % (xs.ty,))
            src = "(dedup %s)" % xs.term if xs.ty[0] == "set" else xs.term
            fn = "Py.sortedDesc" if kw and kw["reverse"].value else "Py.sortedAsc"
            return V("(%s %s)" % (fn, src), LIST(INT), xs.binds, xs.refs)
        # len(other) for a parameter that is an object
        if isinstance(f, ast.Name) and f.id == "len" and "len" not in env and len(node.args) == 1 and not kw and \
                isinstance(node.args[0], ast.Name) and (node.args[0].id + ".__len__") in env:
            return env[node.args[0].id + ".__len__"]
        # np.delete(arr, idx, axis=0)
        if isinstance(f, ast.Attribute) and isinstance(f.value, ast.Name) and f.value.id == "np" and "np" not in env and \
                f.attr == "delete" and len(node.args) == 2 and set(kw) == {"axis"} and \
                isinstance(kw["axis"], ast.Constant) and kw["axis"].value == 0:
            a, idx = self.ex(node.args[0], env), self.ex(node.args[1], env)
            if OPAQUE in (a.ty, idx.ty):
                return V.opaque()
            if not (isinstance(a.ty, tuple) and a.ty[0] == "list") or idx.ty != LIST(NAT):
                self.fail(node, "np.delete(%s, %s, axis=0)" % (a.ty, idx.ty))
            binds, refs = _join(a, idx)
            return V("(Py.npDelete %s %s)" % (a.term, idx.term), a.ty, binds, refs)
        # np.allclose(a, b, rtol=…, atol=…) on lists of 3-vectors: |a − b| ≤ atol + rtol·|b| for every coordinate
        if ast.unparse(f) == "np.allclose" and "np" not in env and len(node.args) == 2 and set(kw) <= {"rtol", "atol"}:
            a, b = self.ex(node.args[0], env), self.ex(node.args[1], env)
            rt = self.ex(kw["rtol"], env) if "rtol" in kw else V("?", DECLIT, lit=(1, 5))        # numpy's defaults
            at = self.ex(kw["atol"], env) if "atol" in kw else V("?", DECLIT, lit=(1, 8))
            if OPAQUE in (a.ty, b.ty, rt.ty, at.ty):
                return V.opaque()
            if a.ty != LIST(VEC3) or b.ty != LIST(VEC3):
                self.fail(node, "np.allclose(%s, %s)" % (a.ty, b.ty))
            rt, at = self.coerce(node, rt, NUM), self.coerce(node, at, NUM)
            binds, refs = _join(a, b, rt, at)
            r = self.rebind("(Py.allclose? %s %s %s %s)" % (a.term, b.term, rt.term, at.term), BOOL, refs)
            return V(r.term, BOOL, binds + r.binds, r.refs)
        # np.linalg.inv of a 3x3 array: adjugate / determinant (numpy raises for a singular matrix: not modelled)
        if ast.unparse(f) == "np.linalg.inv" and "np" not in env and len(node.args) == 1 and not kw:
            m = self.ex(node.args[0], env)
            if m.ty == OPAQUE:
                return m
            if shape_of(m) != (3, 3):
                self.fail(node, "np.linalg.inv of shape %s" % (shape_of(m),))
            e = [[self.coerce(node, m.items[i].items[j], NUM).term for j in range(3)] for i in range(3)]
            refs = set(m.refs)

            def minor(i, j):
                r = [x for x in range(3) if x != i]
                c = [x for x in range(3) if x != j]
                return "((%s * %s) - (%s * %s))" % (e[r[0]][c[0]], e[r[1]][c[1]], e[r[0]][c[1]], e[r[1]][c[0]])
            det = "(((%s * %s) - (%s * %s)) + (%s * %s))" % (e[0][0], minor(0, 0), e[0][1], minor(0, 1), e[0][2], minor(0, 2))

            def entry(i, j):          # inverse[i][j] = cofactor(j, i) / det
                cof = minor(j, i) if (i + j) % 2 == 0 else "(-%s)" % minor(j, i)
                return V("(%s / %s)" % (cof, det), NUM, (), refs)
            r = self.mkstatic([self.mkstatic([entry(i, j) for j in range(3)]) for i in range(3)])
            r.binds = m.binds + r.binds
            return r
        # a.dot(b) on static arrays
        if isinstance(f, ast.Attribute) and f.attr == "dot" and len(node.args) == 1 and not kw:
            a = self.ex(f.value, env)
            b = self.ex(node.args[0], env) if a.ty != OPAQUE else a
            if OPAQUE in (a.ty, b.ty):
                return V.opaque()
            if a.np and a.items is not None and b.items is not None:
                sa, sb = shape_of(a), shape_of(b)

                def op(o, x, y):
                    return self.binop_scalar(ast.BinOp(left=node, op=o, right=node, lineno=node.lineno, col_offset=node.col_offset), x, y)

                def sump(pairs):
                    acc = None
                    for x, y in pairs:
                        q = op(ast.Mult(), x, y)
                        acc = q if acc is None else op(ast.Add(), acc, q)
                    return acc
                if len(sa) == 1 and len(sb) == 2 and sa[0] == sb[0]:        # row vector times matrix
                    r = self.mkstatic([sump([(a.items[i], b.items[i].items[j]) for i in range(sa[0])]) for j in range(sb[1])])
                elif len(sa) == 2 and len(sb) == 1 and sa[1] == sb[0]:      # matrix times vector
                    r = self.mkstatic([sump(list(zip(row.items, b.items))) for row in a.items])
                else:
                    self.fail(node, "dot of shapes %s and %s" % (sa, sb))
                r.binds = a.binds + b.binds + r.binds
                return r
        # other numpy functions
        if isinstance(f, ast.Attribute) and isinstance(f.value, ast.Name) and f.value.id == "np" and "np" not in env:
            r = self.np_call(node, f.attr, env, kw)
            if r is not None:
                return r
        if node.keywords:
            if self.slice:
                return V.opaque()
            self.fail(node, "keyword arguments")
        # methods of arrays / lists
        if isinstance(f, ast.Attribute) and f.attr in ("all", "any", "copy", "reshape"):
            obj = self.ex(f.value, env)
            if obj.ty != OPAQUE:
                if f.attr == "copy" and not node.args and (obj.items is not None or (isinstance(obj.ty, tuple) and obj.ty[0] == "list")):
                    return obj
                if f.attr in ("all", "any") and not node.args and obj.np and obj.items is not None:
                    return self.reduce_bool(node, obj, "&&" if f.attr == "all" else "||", "true" if f.attr == "all" else "false")
                if f.attr == "reshape" and obj.np and obj.items is not None:
                    dims = node.args[0].elts if len(node.args) == 1 and isinstance(node.args[0], ast.Tuple) else node.args
                    total = len(self.flat(obj))
                    raw = [(-1 if isinstance(d, ast.UnaryOp) and isinstance(d.op, ast.USub) and isinstance(d.operand, ast.Constant)
                            and d.operand.value == 1 else self.const_index(d)) for d in dims]
                    known = 1
                    for d in raw:
                        known *= d if d != -1 else 1
                    if raw.count(-1) > 1 or (raw.count(-1) == 1 and (known == 0 or total % known)):
                        self.fail(node, "reshape%s of %d elements" % (tuple(raw), total))
                    dims = [d if d != -1 else total // known for d in raw]
                    return self.reshape(node, obj, dims)
        # len(self)
        if isinstance(f, ast.Name) and f.id == "len" and "len" not in env and len(node.args) == 1 and \
                isinstance(node.args[0], ast.Name) and node.args[0].id == "self" and "self.__len__" in env:
            return env["self.__len__"]
        # a parameter that is a function
        if isinstance(f, ast.Name) and f.id in env and isinstance(env[f.id].ty, tuple) and env[f.id].ty[0] == "fun" and len(node.args) == 1:
            a = self.coerce(node, self.ex(node.args[0], env), env[f.id].ty[1])
            return V("(%s %s)" % (env[f.id].term, a.term), env[f.id].ty[2], a.binds, a.refs | env[f.id].refs)
        # a nested function that is translated separately
        if isinstance(f, ast.Name) and f.id in self.cfg.get("calls", {}) and f.id not in env:
            other = [c for c in FUNCTIONS if c["lean"] == self.cfg["calls"][f.id]][0]
            args = [self.ex(a, env) for a in node.args]
            if len(args) != len(other["params"]):
                self.fail(node, "call of %s with %d arguments" % (f.id, len(args)))
            cl = [self.ex(ast.Name(id=c, ctx=ast.Load(), lineno=node.lineno, col_offset=0), env) for c, _ in other.get("closure", [])]
            cl = [self.coerce(node, v, t) for v, (_, t) in zip(cl, other.get("closure", []))]
            args = [self.coerce(node, v, t) for v, (_, t) in zip(args, other["params"])]
            binds, refs = _join(*(cl + args))
            term = "(%s %s)" % (other["lean"], " ".join(v.term for v in cl + args))
            if other.get("partial"):
                r = self.rebind(term, other["ret"], refs)
                return V(r.term, other["ret"], binds + r.binds, r.refs)
            return V(term, other["ret"], binds, refs)
        if isinstance(f, ast.Name) and f.id not in env:
            args = [self.ex(a, env) for a in node.args]
            if any(a.ty == OPAQUE for a in args):
                return V.opaque()
            if f.id == "abs" and len(args) == 1:
                a = args[0]
                if a.ty in (INTLIT, DECLIT):
                    a = self.coerce(node, a, NUM)
                if a.ty == NUM:
                    return V("(Py.abs %s)" % a.term, NUM, a.binds, a.refs)
                self.fail(node, "abs of %s" % (a.ty,))
            if f.id == "norm" and len(args) == 1 and not node.keywords:
                # numpy.linalg.norm of a 3-vector: only as the left operand of `<` (the square root is not a rational)
                own = [n for n in self.tree.body if isinstance(n, ast.ImportFrom) and n.module == "numpy.linalg" and
                       any(al.name == "norm" and al.asname is None for al in n.names)]
                if not own or "norm" in self.locals_assigned:
                    self.fail(node, "norm is not numpy.linalg.norm")
                a = self.coerce(node, args[0], VEC3)
                return V(a.term, "norm", a.binds, a.refs)
            if f.id == "round" and len(args) == 1:
                # python `round(x)` of a float with ONE argument: an int, the nearest one, a tie to the even neighbour
                a = args[0]
                if a.ty in (DECLIT, NUM):
                    a = self.coerce(node, a, NUM)
                    return V("(Py.round %s)" % a.term, INT, a.binds, a.refs)
                self.fail(node, "round of %s" % (a.ty,))
            if f.id == "enumerate" and len(args) == 1 and isinstance(args[0].ty, tuple) and args[0].ty[0] == "list":
                a = args[0]
                return V("(Py.enumerate %s)" % a.term, LIST(TUP(NAT, a.ty[1])), a.binds, a.refs)
            if f.id == "len" and len(args) == 1:
                a = args[0]
                if a.ty == STR:
                    return V("(String.length %s)" % a.term, NAT, a.binds, a.refs)
                if isinstance(a.ty, tuple) and a.ty[0] == "list":
                    if a.items is not None and a.term == "?":
                        a = self.coerce(node, a, LIST(self.unify(node, [a.ty[1]])))
                    return V("(List.length %s)" % a.term, NAT, a.binds, a.refs)
                if isinstance(a.ty, tuple) and a.ty[0] == "set":
                    if a.items is not None and a.term == "?":
                        a = self.coerce(node, a, SET(self.unify(node, [a.ty[1]])))
                    return V("(Py.setLen %s)" % a.term, NAT, a.binds, a.refs)
                self.fail(node, "len of %s" % (a.ty,))
            if f.id in ("max", "min") and len(args) == 2:
                ty = self.unify(node, [args[0].ty, args[1].ty])
                if ty not in (NAT, INT, NUM):
                    self.fail(node, "%s of %s" % (f.id, ty))
                a, b = self.coerce(node, args[0], ty), self.coerce(node, args[1], ty)
                binds, refs = _join(a, b)
                return V("(%s %s %s)" % (f.id, a.term, b.term), ty, binds, refs)
            if f.id in ("max", "min") and len(args) == 1:
                a = args[0]
                if a.ty not in (LIST(NAT), SET(NAT)):
                    self.fail(node, "%s of %s" % (f.id, a.ty))
                r = self.rebind("(Py.list%s? %s)" % (f.id.capitalize(), a.term), NAT, a.refs)
                return V(r.term, NAT, a.binds + r.binds, r.refs)
            if f.id in ("list", "tuple") and len(args) == 1 and args[0].items is not None and not args[0].np:
                return args[0]
            if f.id in ("list", "tuple") and len(args) == 1 and isinstance(args[0].ty, tuple) and args[0].ty[0] in ("list", "set"):
                a = args[0]
                if a.ty[0] == "set":
                    self.fail(node, "list(set): the iteration order of a set is not modelled")
                return a
            if f.id == "set" and len(args) == 1 and isinstance(args[0].ty, tuple) and args[0].ty[0] in ("list", "set"):
                a = args[0]
                return V(a.term, SET(a.ty[1]), a.binds, a.refs, a.items)
            if self.slice:
                return V.opaque()
            self.fail(node, "call of %s" % f.id)
        if isinstance(f, ast.Attribute):
            obj = self.ex(f.value, env)
            args = [self.ex(a, env) for a in node.args]
            if obj.ty == OPAQUE or any(a.ty == OPAQUE for a in args):
                return V.opaque()
            if obj.ty == ("table", "decdict") and f.attr == "items" and not args:
                return V("(Py.tableItems %s)" % obj.term, LIST(TUP(STR, NUM)))
            if isinstance(obj.ty, tuple) and obj.ty[0] == "dict" and f.attr == "items" and not args:
                return V(obj.term, LIST(TUP(obj.ty[1], obj.ty[2])), obj.binds, obj.refs)       # seventh batch: the association list itself
            if isinstance(obj.ty, tuple) and obj.ty[0] == "dict" and f.attr == "values" and not args:
                return V("(Py.dictValues %s)" % obj.term, LIST(obj.ty[2]), obj.binds, obj.refs)
            if isinstance(obj.ty, tuple) and obj.ty[0] == "set" and f.attr == "isdisjoint" and len(args) == 1 and \
                    isinstance(args[0].ty, tuple) and args[0].ty[0] in ("set", "list") and args[0].ty[1] == obj.ty[1]:
                binds, refs = _join(obj, args[0])
                return V("(Py.setDisjoint %s %s)" % (obj.term, args[0].term), BOOL, binds, refs)
            if obj.ty == STR and f.attr == "strip" and not args:
                return V("(Py.strStripWs %s)" % obj.term, STR, obj.binds, obj.refs)
            if obj.ty == STR and f.attr == "strip" and len(args) == 1 and args[0].ty == STR:
                binds, refs = _join(obj, args[0])
                return V("(Py.strStrip %s %s)" % (obj.term, args[0].term), STR, binds, refs)
            if obj.ty == STR and f.attr == "replace" and len(args) == 2 and all(a.ty == STR for a in args) and \
                    isinstance(node.args[0], ast.Constant) and len(node.args[0].value) == 1:
                binds, refs = _join(obj, *args)
                ch = node.args[0].value
                chl = "'\\''" if ch == "'" else ("'\\\\'" if ch == "\\" else "'%s'" % ch)
                return V("(Py.strReplace %s %s %s)" % (obj.term, chl, args[1].term), STR, binds, refs)
            if self.slice:
                return V.opaque()
            self.fail(node, "method %s on %s" % (f.attr, obj.ty))
        if self.slice:
            return V.opaque()
        self.fail(node, "call %s" % ast.unparse(node))

    def reshape(self, node, v, dims):
        xs = self.flat(v)
        n = 1
        for d in dims:
            n *= d
        if n != len(xs) or not dims:
            self.fail(node, "reshape of %d elements to %s" % (len(xs), dims))

        def build(xs, dims):
            if len(dims) == 1:
                return self.mkstatic(xs)
            k = len(xs) // dims[0]
            return self.mkstatic([build(xs[i * k:(i + 1) * k], dims[1:]) for i in range(dims[0])])
        r = build(xs, dims)
        r.binds = v.binds + r.binds
        return r

    def np_call(self, node, name, env, kw):
        """numpy functions with a meaning in the subset; None = not one of them"""
        args = [self.ex(a, env) for a in node.args]
        if any(a.ty == OPAQUE for a in args):
            return V.opaque()
        if name == "append" and len(args) == 2 and not kw:
            a, b = args
            if isinstance(a.ty, tuple) and a.ty[0] == "list" and a.ty == b.ty and not isinstance(a.ty[1], tuple) and \
                    a.items is None and b.items is None:
                binds, refs = _join(a, b)
                return V("(%s ++ %s)" % (a.term, b.term), a.ty, binds, refs)      # 1-D arrays: concatenation
            self.fail(node, "np.append(%s, %s)" % (a.ty, b.ty))
        if name in ("any", "all") and len(args) == 1 and not kw:
            a = args[0]
            if a.items is not None:
                return self.reduce_bool(node, a, "&&" if name == "all" else "||", "true" if name == "all" else "false")
            if a.ty == LIST(BOOL):
                return V("(List.%s %s id)" % (name, a.term), BOOL, a.binds, a.refs)
            self.fail(node, "np.%s of %s" % (name, a.ty))
        if name == "diag" and len(args) == 1 and not kw and len(shape_of(args[0])) == 2 and \
                shape_of(args[0])[0] == shape_of(args[0])[1]:
            a = args[0]
            r = self.mkstatic([row.items[i] for i, row in enumerate(a.items)])
            r.binds = a.binds + r.binds
            return r
        if name == "identity" and len(node.args) == 1 and not kw:
            n = self.const_index(node.args[0])
            return self.mkstatic([self.mkstatic([V(str(int(i == j)), INTLIT, lit=int(i == j)) for j in range(n)]) for i in range(n)])
        if name == "array" and len(args) == 1 and (not kw or set(kw) == {"dtype"}) and args[0].items is not None:
            a = args[0]

            def mark(v):
                return V(v.term, v.ty, v.binds, v.refs, None if v.items is None else [mark(x) for x in v.items], v.lit, np=v.items is not None)
            if kw and not (isinstance(kw["dtype"], ast.Name) and kw["dtype"].id in ("int", "float")):
                self.fail(node, "np.array(…, dtype=%s)" % ast.unparse(kw["dtype"]))
            if kw and kw["dtype"].id == "int" and any(x.ty in (NUM, DECLIT) for x in self.flat(a)):
                self.fail(node, "np.array(…, dtype=int) of non-integers (truncation is not modelled)")
            return mark(a)
        if name == "meshgrid" and len(args) in (2, 3) and not kw and all(len(shape_of(a)) == 1 for a in args):
            # default indexing='xy': the FIRST TWO axes are exchanged: out_k[j][i][l] = x_k[(i, j, l)[k]]
            n = [len(a.items) for a in args]
            sh = (n[1], n[0]) + tuple(n[2:])
            outs = [self.build(sh, (lambda k: lambda t: args[k].items[(t[1], t[0]) + tuple(t[2:])][k] if False else
                                    args[k].items[((t[1], t[0]) + tuple(t[2:]))[k]])(k)) for k in range(len(args))]
            binds, refs = _join(*args)
            return V("?", LIST(outs[0].ty), binds, refs, items=outs)          # a python list of arrays
        if name == "matmul" and len(args) == 2 and not kw and len(shape_of(args[0])) == 2 and len(shape_of(args[1])) == 1 and \
                shape_of(args[0])[1] == shape_of(args[1])[0]:
            a, b = args

            def op(o, x, y):
                return self.binop_scalar(ast.BinOp(left=node, op=o, right=node, lineno=node.lineno, col_offset=node.col_offset), x, y)

            def dot(row):
                acc = None
                for x, y in zip(row.items, b.items):
                    p = op(ast.Mult(), x, y)
                    acc = p if acc is None else op(ast.Add(), acc, p)
                return acc
            r = self.mkstatic([dot(row) for row in a.items])
            r.binds = a.binds + b.binds + r.binds
            return r
        if name in ("ceil", "floor") and len(args) == 1 and not kw:
            a = args[0]

            def ceil1(x):
                x = self.coerce(node, x, NUM)
                return V("(Py.%s %s)" % (name, x.term), INT, x.binds, x.refs)
            if a.items is not None:
                r = self.mkstatic([ceil1(x) if x.items is None else self.mkstatic([ceil1(y) for y in x.items]) for x in a.items])
                r.binds = a.binds + r.binds
                return r
            return ceil1(a)
        if name in ("maximum", "minimum") and len(args) == 2 and not kw:
            fn = "max" if name == "maximum" else "min"

            def mm(x, y):
                ty = self.unify(node, [x.ty, y.ty])
                x, y = self.coerce(node, x, ty), self.coerce(node, y, ty)
                binds, refs = _join(x, y)
                return V("(%s %s %s)" % (fn, x.term, y.term), ty, binds, refs)
            r = self.elementwise(node, args[0], args[1], mm)
            r.binds = args[0].binds + args[1].binds + r.binds
            return r
        if name in ("prod", "sum") and len(args) == 1 and not kw and len(shape_of(args[0])) == 1 and args[0].items:
            a = args[0]
            acc = a.items[0]
            for x in a.items[1:]:
                acc = self.binop_scalar(ast.BinOp(left=node, op=ast.Mult() if name == "prod" else ast.Add(), right=node,
                                                  lineno=node.lineno, col_offset=node.col_offset), acc, x)
            acc.binds = a.binds + acc.binds
            return acc
        return None

    def cond(self, node, env):
        """an expression used as a truth value"""
        v = self.ex(node, env)
        if v.ty in (BOOL, OPAQUE):
            return v
        self.fail(node, "truth value of a %s (only booleans are supported as conditions)" % (v.ty,))

    # -------------------------------------------------------------- statements -> IR
    def block(self, stmts, env, conts, mode):
        """IR of `stmts` followed by the continuation stack `conts`"""
        if not stmts:
            if conts:
                return self.block(conts[0], env, conts[1:], mode)
            if mode == "loop":
                return ("end",)
            if mode in ("fold", "foldB"):
                st = self.fold_state[-1]
                return ("ret", env[st])
            if self.cfg.get("mutates") and self.ret is None:
                outs = [env["self." + a] for a in self.mutated_attrs()]     # a procedure: the final values of the attributes it assigns
                outs = [self.coerce(None, o, self.cfg["attrs"][a]) for o, a in zip(outs, self.mutated_attrs())]
                binds, refs = _join(*outs)
                return self.with_binds(binds, ("ret", V("(%s)" % ", ".join(o.term for o in outs), None, (), refs)))
            if isinstance(self.ret, tuple) and self.ret[0] == "opt" and not self.cfg.get("tagged"):
                return ("ret", V("none", self.ret))
            raise Unsupported("%s: %s can fall off its end (returns None)" % (self.path, self.cfg["py"]))
        s, rest = stmts[0], stmts[1:]
        if self.cfg.get("fragment") and not isinstance(s, (ast.Return, ast.If)):
            # fragment slices: a statement outside the subset is skipped; every local it mentions becomes opaque
            saved = self.ntmp
            try:
                self.stmt(s, [], env, [[_Stop()]], mode)          # can this statement be translated on its own?
                ok = True
            except Unsupported:
                ok = False
            self.ntmp = saved
            if not ok:
                e2 = dict(env)
                cm = self.cfg.get("call_mutates", {})
                only = cm.get(ast.unparse(s.value.func)) if isinstance(s, ast.Expr) and isinstance(s.value, ast.Call) else None
                for n in ast.walk(s):
                    if isinstance(n, ast.Name) and n.id in e2 and n.id in self.locals_assigned and (only is None or n.id in only):
                        e2[n.id] = V.opaque()
                    if isinstance(n, ast.Attribute) and isinstance(n.ctx, (ast.Store, ast.Del)) and isinstance(n.value, ast.Name):
                        # an attribute of an object is assigned: what the translation knows about that object
                        # (its attributes, its length) is no longer valid
                        for key in list(e2):
                            if key.startswith(n.value.id + "."):
                                e2[key] = V.opaque()
                return self.block(rest, e2, conts, mode)
        try:
            return self.stmt(s, rest, env, conts, mode)
        except UnboundLocal as e:
            if self.partial:
                return ("raise", "UnboundLocalError: %s" % e.args[0])
            self.fail(s, "%s may be used before assignment but the function is declared total" % e.args[0])

    def with_binds(self, binds, ir):
        for n, t, r in reversed(binds):
            ir = ("bind", n, t, r, ir)
        if binds and not self.partial:
            raise Unsupported("%s: %s may raise (%s) but is declared total" % (self.path, self.cfg["py"], binds[0][1]))
        return ir

    def stmt(self, s, rest, env, conts, mode):
        if isinstance(s, _Stop):
            return ("end",)
        if isinstance(s, ast.Expr):
            c = s.value
            if isinstance(c, ast.Constant) and isinstance(c.value, str):
                return self.block(rest, env, conts, mode)
            if isinstance(c, ast.Call) and isinstance(c.func, ast.Name) and c.func.id == "print" and "print" not in env:
                return self.block(rest, env, conts, mode)
            if isinstance(c, ast.Call) and isinstance(c.func, ast.Attribute) and c.func.attr == "reverse" and \
                    isinstance(c.func.value, ast.Name) and not c.args and not c.keywords:
                x = c.func.value.id
                v = self.ex(c.func.value, env)
                if not (isinstance(v.ty, tuple) and v.ty[0] == "list") or v.items is not None:
                    self.fail(s, "reverse() of %s" % (v.ty,))
                nm = self.lname(x)
                e2 = dict(env)
                e2[x] = V(nm, v.ty, (), {nm})
                return ("let", nm, V("(List.reverse %s)" % v.term, v.ty, (), v.refs), self.block(rest, e2, conts, mode))
            # np.subtract(X, k, out=X, where=X > i): every entry of X above i drops by k
            if isinstance(c, ast.Call) and ast.unparse(c.func) == "np.subtract" and "np" not in env and len(c.args) == 2 and \
                    isinstance(c.args[0], ast.Name) and {k.arg for k in c.keywords} == {"out", "where"}:
                kw = {k.arg: k.value for k in c.keywords}
                x = c.args[0].id
                w = kw["where"]
                if not (isinstance(kw["out"], ast.Name) and kw["out"].id == x and isinstance(w, ast.Compare) and len(w.ops) == 1 and
                        isinstance(w.ops[0], ast.Gt) and isinstance(w.left, ast.Name) and w.left.id == x):
                    self.fail(s, "np.subtract form %s" % ast.unparse(c))
                arr = self.ex(c.args[0], env)
                if arr.ty != LIST(LIST(NAT)):
                    self.fail(s, "np.subtract on %s" % (arr.ty,))
                k = self.coerce(s, self.ex(c.args[1], env), NAT)
                i = self.coerce(s, self.ex(w.comparators[0], env), NAT)
                nm = self.lname(x)
                e2 = dict(env)
                e2[x] = V(nm, arr.ty, (), {nm})
                return self.with_binds(k.binds + i.binds, ("let", nm, V("(Py.npSubWhereGt %s %s %s)" % (arr.term, k.term, i.term), arr.ty, (),
                                                                        arr.refs | k.refs | i.refs), self.block(rest, e2, conts, mode)))
            # xs.sort(key=lambda m: e): a stable sort by an integer key
            if isinstance(c, ast.Call) and isinstance(c.func, ast.Attribute) and c.func.attr == "sort" and not c.args and \
                    isinstance(c.func.value, ast.Name) and {k.arg for k in c.keywords} == {"key"}:
                x = c.func.value.id
                xs = self.ex(c.func.value, env)
                if not (isinstance(xs.ty, tuple) and xs.ty[0] == "list") or xs.items is not None:
                    self.fail(s, "sort of %s" % (xs.ty,))
                lam = c.keywords[0].value
                if not isinstance(lam, ast.Lambda) or len(lam.args.args) != 1:
                    self.fail(s, "key= must be a one-argument lambda")
                a = lam.args.args[0].arg
                e3 = dict(env)
                e3[a] = static_param(self.lname(a), xs.ty[1])
                kv = self.ex(lam.body, e3)
                if kv.binds or kv.ty not in (INT, NAT):
                    self.fail(s, "sort key of type %s" % (kv.ty,))
                kv = self.coerce(s, kv, INT)
                nm = self.lname(x)
                e2 = dict(env)
                e2[x] = V(nm, xs.ty, (), {nm})
                return ("let", nm, V("(Py.sortByKey %s (fun %s => %s))" % (xs.term, self.lname(a), kv.term), xs.ty, (),
                                     xs.refs | (kv.refs - {self.lname(a)})), self.block(rest, e2, conts, mode))
            # xs.append(v)  /  d[k].append(v)
            if isinstance(c, ast.Call) and isinstance(c.func, ast.Attribute) and c.func.attr == "append" and \
                    len(c.args) == 1 and not c.keywords:
                tgt = c.func.value
                if isinstance(tgt, ast.Name) and tgt.id in env and isinstance(env[tgt.id].ty, tuple) and env[tgt.id].ty[0] == "list" \
                        and env[tgt.id].items is None:
                    xs = env[tgt.id]
                    v = self.coerce(s, self.ex(c.args[0], env), xs.ty[1])
                    nm = self.lname(tgt.id)
                    e2 = dict(env)
                    e2[tgt.id] = V(nm, xs.ty, (), {nm})
                    return self.with_binds(v.binds, ("let", nm, V("(%s ++ [%s])" % (xs.term, v.term), xs.ty, (), xs.refs | v.refs),
                                                     self.block(rest, e2, conts, mode)))
                if isinstance(tgt, ast.Subscript) and isinstance(tgt.value, ast.Name) and tgt.value.id in env and \
                        isinstance(env[tgt.value.id].ty, tuple) and env[tgt.value.id].ty[0] == "dict":
                    d = env[tgt.value.id]
                    if not (isinstance(d.ty[2], tuple) and d.ty[2][0] == "list"):
                        self.fail(s, "append to a dict value of type %s" % (d.ty[2],))
                    k = self.coerce(s, self.ex(tgt.slice, env), d.ty[1])
                    v = self.coerce(s, self.ex(c.args[0], env), d.ty[2][1])
                    nm = self.lname(tgt.value.id)
                    e2 = dict(env)
                    e2[tgt.value.id] = V(nm, d.ty, (), {nm})
                    binds = k.binds + v.binds + [(nm, "(Py.dictAppend? %s %s %s)" % (d.term, k.term, v.term), d.refs | k.refs | v.refs)]
                    return self.with_binds(binds, self.block(rest, e2, conts, mode))
            # obj.m(args) for a translated MUTATING method m (`method_stmts`): every row of the attribute it assigns is replaced by
            # the generated definition applied to that row
            ms = self.cfg.get("method_stmts", {})
            if isinstance(c, ast.Call) and isinstance(c.func, ast.Attribute) and isinstance(c.func.value, ast.Name) and \
                    c.func.attr in ms and c.func.value.id in self.cfg.get("objattrs", {}) and not c.keywords:
                obj = c.func.value.id
                other = [f for f in FUNCTIONS if f["lean"] == ms[c.func.attr]][0]
                if not other.get("mutates") or other.get("partial") or other["ret"] is not None:
                    self.fail(s, "%s is not a total mutating method without a result" % c.func.attr)
                attrs = list(other["attrs"])
                target = [a for a in attrs if a != "__len__"]
                if len(target) != 1 or any(obj + "." + a not in env for a in attrs):
                    self.fail(s, "%s.%s: the attributes %r are not declared for %s" % (obj, c.func.attr, attrs, obj))
                target = target[0]
                cur = env[obj + "." + target]
                args = [self.coerce(s, self.ex(a, env), t) for a, (_, t) in zip(c.args, other["params"])]
                if len(c.args) != len(other["params"]) or cur.ty == OPAQUE or cur.items is None or \
                        any(obj + "." + a in env and env[obj + "." + a].ty == OPAQUE for a in attrs):
                    self.fail(s, "call %s" % ast.unparse(c))
                binds, refs = _join(*args)
                base = "%s_%s" % (obj, target)
                gen = sum(1 for k in env if k.startswith("#" + base))
                e2 = dict(env)
                e2["#%s%d" % (base, gen)] = True
                lets, rows = [], []
                for i, row in enumerate(cur.items):
                    nm = "%s_%d%s" % (base, i, "'" * (gen + 1))
                    call = "(%s %s)" % (other["lean"], " ".join([(row.term if a == target else env[obj + "." + a].term) for a in attrs] +
                                                                 [a.term for a in args]))
                    lets.append((nm, V(call, VEC3, (), set(row.refs) | refs | {r for a in attrs if a != target for r in env[obj + "." + a].refs})))
                    rows.append(static_param(nm, VEC3))
                e2[obj + "." + target] = self.mkstatic(rows)
                ir = self.block(rest, e2, conts, mode)
                for nm, val in reversed(lets):
                    ir = ("let", nm, val, ir)
                return self.with_binds(binds, ir)
            self.fail(s, "expression statement %s" % ast.unparse(s)[:60])
        if isinstance(s, ast.FunctionDef):
            if s.name in self.cfg.get("calls", {}):
                return self.block(rest, env, conts, mode)      # translated separately, see `calls`
            self.fail(s, "nested function %s" % s.name)
        if isinstance(s, ast.Delete) and self.cfg.get("del_self_index"):
            # `del(self[[e]])`: the function is translated as the index list it deletes
            t = s.targets
            if rest or len(t) != 1 or not (isinstance(t[0], ast.Subscript) and isinstance(t[0].value, ast.Name) and
                                           t[0].value.id == "self" and isinstance(t[0].slice, ast.List)):
                self.fail(s, "del statement %s" % ast.unparse(s))
            items = [self.coerce(s, self.ex(e, env), INT) for e in t[0].slice.elts]
            v = self.mklist(items, LIST(INT))
            return self.with_binds(v.binds, ("ret", V(v.term, v.ty, (), v.refs)))
        if isinstance(s, ast.Assign) and len(s.targets) == 1 and isinstance(s.targets[0], ast.Subscript) and \
                isinstance(s.targets[0].value, ast.Name) and s.targets[0].value.id in env and \
                isinstance(env[s.targets[0].value.id].ty, tuple) and env[s.targets[0].value.id].ty[0] == "dict":
            # d[k] = v
            x = s.targets[0].value.id
            d = env[x]
            k = self.coerce(s, self.ex(s.targets[0].slice, env), d.ty[1])
            v = self.coerce(s, self.ex(s.value, env), d.ty[2])
            nm = self.lname(x)
            e2 = dict(env)
            e2[x] = V(nm, d.ty, (), {nm})
            return self.with_binds(k.binds + v.binds, ("let", nm, V("(Py.dictSet %s %s %s)" % (d.term, k.term, v.term), d.ty, (),
                                                                    d.refs | k.refs | v.refs), self.block(rest, e2, conts, mode)))
        if isinstance(s, ast.Assign) and len(s.targets) == 1 and isinstance(s.targets[0], ast.Tuple) and \
                all(isinstance(e, ast.Name) for e in s.targets[0].elts):
            # a, b = e    (e a tuple value)
            sv = s.value
            if isinstance(sv, ast.Call) and isinstance(sv.func, ast.Attribute) and sv.func.attr == "split" and len(sv.args) == 2 and \
                    not sv.keywords and len(s.targets[0].elts) == 2 and isinstance(sv.args[0], ast.Constant) and \
                    isinstance(sv.args[0].value, str) and len(sv.args[0].value) == 1 and isinstance(sv.args[1], ast.Constant) and sv.args[1].value == 1:
                # a, b = s.split(c, 1): the text before and after the FIRST c; ValueError (none) when there is no c
                base = self.ex(sv.func.value, env)
                if base.ty == STR:
                    r = self.rebind("(Py.strSplit1? %s '%s')" % (base.term, sv.args[0].value), TUP(STR, STR), base.refs)
                    v = V(r.term, TUP(STR, STR), base.binds + r.binds, r.refs)
                else:
                    v = self.ex(s.value, env)
            else:
                v = self.ex(s.value, env)
            if v.ty == OPAQUE:
                e2 = dict(env)
                for e in s.targets[0].elts:
                    e2[e.id] = V.opaque()
                return self.block(rest, e2, conts, mode)
            n = len(s.targets[0].elts)
            if not (isinstance(v.ty, tuple) and v.ty[0] == "tuple" and len(v.ty[1]) == n):
                self.fail(s, "unpacking a value of type %s into %d names" % (v.ty, n))
            e2 = dict(env)
            lets = []
            for i, e in enumerate(s.targets[0].elts):
                nm = self.lname(e.id)
                lets.append((nm, V(self.proj(v.term, i, n), v.ty[1][i], (), v.refs)))
                e2[e.id] = V(nm, v.ty[1][i], (), {nm})
            ir = self.block(rest, e2, conts, mode)
            for nm, val in reversed(lets):
                ir = ("let", nm, val, ir)
            return self.with_binds(v.binds, ir)
        if isinstance(s, ast.Assign) and len(s.targets) == 1 and isinstance(s.targets[0], ast.Attribute) and \
                isinstance(s.targets[0].value, ast.Name) and s.targets[0].value.id == "self" and self.cfg.get("mutates") and \
                s.targets[0].attr in self.cfg.get("attrs", {}):
            # self.attr = e   (the final values of the assigned attributes are part of the result)
            attr = s.targets[0].attr
            ty = self.cfg["attrs"][attr]
            v = self.coerce(s, self.ex(s.value, env), ty)
            nm = self.lname(attr) + "'"
            e2 = dict(env)
            e2["self." + attr] = V(nm, ty, (), {nm})
            return self.with_binds(v.binds, ("let", nm, V(v.term, ty, (), v.refs), self.block(rest, e2, conts, mode)))
        if isinstance(s, ast.AugAssign) and isinstance(s.target, ast.Attribute) and isinstance(s.target.value, ast.Name) and \
                s.target.value.id == "self" and self.cfg.get("mutates") and s.target.attr in self.cfg.get("attrs", {}):
            # `self.attr op= e`: `self.attr = self.attr op e`
            load = ast.copy_location(ast.Attribute(value=s.target.value, attr=s.target.attr, ctx=ast.Load()), s)
            return self.stmt(ast.copy_location(ast.Assign(targets=[s.target], value=ast.copy_location(
                ast.BinOp(left=load, op=s.op, right=s.value), s)), s), rest, env, conts, mode)
        if isinstance(s, ast.AugAssign) and isinstance(s.target, ast.Name) and s.target.id in env and mode not in ("loop", "fold"):
            # `x op= e` on a local: `x = x op e` (values are immutable in the model: no aliasing of a mutated set / list)
            load = ast.copy_location(ast.Name(id=s.target.id, ctx=ast.Load()), s)
            return self.stmt(ast.copy_location(ast.Assign(targets=[s.target], value=ast.copy_location(
                ast.BinOp(left=load, op=s.op, right=s.value), s)), s), rest, env, conts, mode)
        if isinstance(s, ast.Assign):
            if len(s.targets) != 1 or not isinstance(s.targets[0], ast.Name):
                self.fail(s, "assignment target")
            x = s.targets[0].id
            if x in TABLES or x == "self":
                self.fail(s, "assignment to %s" % x)
            v = self.ex(s.value, env, self.cfg.get("locals", {}).get(x))
            if x in self.cfg.get("locals", {}) and v.ty != OPAQUE:
                v = self.coerce(s, v, self.cfg["locals"][x])
            e2 = dict(env)
            if v.ty == OPAQUE or v.ty == NONE:
                if v.ty == NONE and not self.slice:
                    self.fail(s, "assignment of None")
                e2[x] = V.opaque()
                if x in self.cfg.get("objattrs", {}) and ast.unparse(s.value) != "%s.copy()" % x:
                    for key in list(e2):                     # an object parameter is re-bound to something else
                        if key.startswith(x + "."):
                            e2[key] = V.opaque()
                return self.block(rest, e2, conts, mode)
            nm = self.lname(x)
            if v.ty in (INTLIT, DECLIT) or (v.items is not None and v.term == "?"):
                e2[x] = V(v.term, v.ty, (), (), v.items, v.lit)      # constants propagate
                return self.with_binds(v.binds, self.block(rest, e2, conts, mode))
            if v.items is not None and all(_atomic(it.term) for it in v.items):
                # static list of names / literals: one `let` for the list; `x[i]` is the element itself
                e2[x] = V(nm, v.ty, (), {nm}, items=v.items, np=v.np)
                return self.with_binds(v.binds, ("let", nm, V(v.term, v.ty, (), v.refs), self.block(rest, e2, conts, mode)))
            if v.items is not None:                                     # static list: one let per element
                names = ["%s_%d" % (nm, i) for i in range(len(v.items))]
                for n in names:
                    if n in self.pynames:
                        self.fail(s, "local name %s clashes with the element names of %s" % (n, x))
                e2[x] = V("[%s]" % ", ".join(names), v.ty, (), set(names), np=v.np,
                          items=[V(n, it.ty, (), {n}, it.items, it.lit, np=it.np) for n, it in zip(names, v.items)])
                ir = self.block(rest, e2, conts, mode)
                for n, it in reversed(list(zip(names, v.items))):
                    ir = ("let", n, it, ir)
                return self.with_binds(v.binds, ir)
            e2[x] = V(nm, v.ty, (), {nm})
            return self.with_binds(v.binds, ("let", nm, V(v.term, v.ty, (), v.refs), self.block(rest, e2, conts, mode)))
        if isinstance(s, ast.With) and self.slice:
            # `with cm(...) as name: body` in a slice: the body, with `name` opaque (the context manager is not modelled)
            e2 = dict(env)
            for it in s.items:
                if it.optional_vars is not None:
                    for n in ast.walk(it.optional_vars):
                        if isinstance(n, ast.Name):
                            e2[n.id] = V.opaque()
            return self.block(s.body, e2, [rest] + list(conts), mode)
        if isinstance(s, ast.Return):
            if rest:
                self.fail(rest[0], "statement after return")
            if self.cfg.get("sites_only"):
                # the function that produces the returned value: `return g(...)`, or `x = g(...); return x`
                val = s.value
                if isinstance(val, ast.Name):
                    defs = [n for n in ast.walk(self.node) if isinstance(n, ast.Assign) and len(n.targets) == 1 and
                            isinstance(n.targets[0], ast.Name) and n.targets[0].id == val.id and n.lineno < s.lineno]
                    val = max(defs, key=lambda n: n.lineno).value if defs else val
                if not isinstance(val, ast.Call):
                    self.fail(s, "a dispatch slice must return the result of a call")
                return ("ret", V(_lean_str(ast.unparse(val.func)), STR))
            return self.ret_ir(s, env, mode)
        if isinstance(s, ast.Break) and mode == "foldB":
            return ("break", env[self.fold_state[-1]])          # the rest of the body and all later iterations are skipped
        if isinstance(s, ast.Raise):
            if not self.partial:
                self.fail(s, "raise in a function declared total")
            return ("raise", "raise")
        if isinstance(s, ast.If):
            return self.if_ir(s, rest, env, conts, mode)
        if isinstance(s, ast.For):
            return self.for_ir(s, rest, env, conts, mode)
        self.fail(s, "statement %s is outside the supported subset" % type(s).__name__)

    def ret_ir(self, s, env, mode):
        site = self.sites.index(s) if s in self.sites else 0
        if self.cfg.get("tagged"):
            if s.value is None or (isinstance(s.value, ast.Constant) and s.value.value is None):
                return ("ret", V("(%d, none)" % site, None))
            if not isinstance(s.value, ast.Tuple) or not s.value.elts:
                self.fail(s, "a tagged function must return a tuple literal or None")
            comps = [self.ex(e, env) for e in s.value.elts]
            tag = comps[0]
            if tag.ty != STR:
                self.fail(s, "first component of the returned tuple must be a string")
            kept = [self.coerce(s, c, INT) for c in comps[1:] if c.ty != OPAQUE]
            binds, refs = _join(tag, *kept)
            v = V("(%d, some (%s, [%s]))" % (site, tag.term, ", ".join(k.term for k in kept)), None, (), refs)
            return self.with_binds(binds, ("ret", v))
        if s.value is None:
            self.fail(s, "bare return")
        want = self.ret
        if isinstance(s.value, ast.Tuple) and isinstance(want, tuple) and want[0] == "tuple" and len(want[1]) == len(s.value.elts):
            comps = [self.coerce(s, self.ex(e, env), t) for e, t in zip(s.value.elts, want[1])]
            binds, refs = _join(*comps)
            v = V("(%s)" % ", ".join(c.term for c in comps), want, binds, refs)
        else:
            v = self.ex(s.value, env)
        if self.cfg.get("mutates"):
            v = self.coerce(s, v, want)
            outs = [env["self." + a] for a in self.mutated_attrs()]
            binds, refs = _join(v, *outs)
            return self.with_binds(binds, ("ret", V("(%s)" % ", ".join([v.term] + [o.term for o in outs]), None, (), refs)))
        if v.ty == NONE and isinstance(self.ret, tuple) and self.ret[0] == "opt":
            return ("ret", V("none", self.ret))
        if isinstance(want, tuple) and want[0] == "opt" and v.ty != want:
            v = self.coerce(s, v, want[1])
            v = V("(some %s)" % v.term, want, v.binds, v.refs)
        else:
            v = self.coerce(s, v, want)
        if v.items is not None and v.term == "?":
            self.fail(s, "untyped literal list returned")
        return self.with_binds(v.binds, ("ret", V(v.term, v.ty, (), v.refs)))

    def mutated_attrs(self):
        """the attributes of self the method assigns, in the order in which the translator declares them (`attrs`);
        unexpected ones last (they make the translation Unsupported)"""
        out = []
        for n in sorted((n for n in ast.walk(self.node) if isinstance(n, (ast.Assign, ast.AugAssign))), key=lambda n: (n.lineno, n.col_offset)):
            for t in (n.targets if isinstance(n, ast.Assign) else [n.target]):
                if isinstance(t, ast.Attribute) and isinstance(t.value, ast.Name) and t.value.id == "self" and t.attr not in out:
                    out.append(t.attr)
        order = list(self.cfg.get("attrs", {}))
        return sorted(out, key=lambda a: order.index(a) if a in order else len(order))

    def if_ir(self, s, rest, env, conts, mode):
        t = s.test
        # `x is None` / `x is not None` on an optional parameter
        if isinstance(t, ast.Compare) and len(t.ops) == 1 and isinstance(t.ops[0], (ast.Is, ast.IsNot)) and \
                isinstance(t.comparators[0], ast.Constant) and t.comparators[0].value is None and isinstance(t.left, ast.Name):
            x = t.left.id
            v = self.ex(t.left, env)
            if v.ty != OPAQUE:
                if not (isinstance(v.ty, tuple) and v.ty[0] == "opt"):
                    self.fail(s, "`is None` test of a value of type %s" % (v.ty,))
                nm = self.lname(x)
                e_some = dict(env)
                e_some[x] = V(nm, v.ty[1], (), {nm})
                some_body, none_body = (s.orelse, s.body) if isinstance(t.ops[0], ast.Is) else (s.body, s.orelse)
                k = [rest] + list(conts)
                return ("matchopt", v, nm, self.block(some_body, e_some, k, mode), self.block(none_body, env, k, mode))
        c = self.cond(t, env)
        if c.ty == OPAQUE:
            # allowed only around assignments: everything assigned inside becomes opaque
            for n in ast.walk(ast.Module(body=s.body + s.orelse, type_ignores=[])):
                if isinstance(n, (ast.Return, ast.Raise, ast.For, ast.While)):
                    self.fail(s, "a decision depends on an expression outside the supported subset: %s" % ast.unparse(t))
            e2 = dict(env)
            for n in ast.walk(ast.Module(body=s.body + s.orelse, type_ignores=[])):
                if isinstance(n, ast.Assign):
                    for tg in n.targets:
                        if isinstance(tg, ast.Name):
                            e2[tg.id] = V.opaque()
            return self.block(rest, e2, conts, mode)
        k = [rest] + list(conts)
        if c.term in ("true", "false") and not c.binds:          # a guard decided by the declared types
            return self.block(s.body if c.term == "true" else s.orelse, env, k, mode)
        a = self.block(s.body, env, k, mode)
        b = self.block(s.orelse, env, k, mode)
        return self.with_binds(c.binds, ("if", V(c.prop or c.term, BOOL, (), c.refs), a, b))

    def for_ir(self, s, rest, env, conts, mode):
        has_return = any(isinstance(n, ast.Return) for n in ast.walk(ast.Module(body=s.body, type_ignores=[])))
        if s.orelse or mode == "loop" or (mode in ("fold", "foldB") and has_return) or (self.partial and has_return):
            self.fail(s, "for loop in this position")
        it = self.ex(s.iter, env)
        if not (isinstance(it.ty, tuple) and it.ty[0] == "list") or it.binds:
            self.fail(s, "for loop over %s" % (it.ty,))
        e2 = dict(env)
        ety = it.ty[1]
        if isinstance(s.target, ast.Name):
            names = [self.lname(s.target.id)]
            e2[s.target.id] = V(names[0], ety, (), {names[0]})
            pat = names[0]
        elif isinstance(s.target, ast.Tuple) and all(isinstance(e, ast.Name) for e in s.target.elts) and \
                isinstance(ety, tuple) and ety[0] == "tuple" and len(ety[1]) == len(s.target.elts):
            names = [self.lname(e.id) for e in s.target.elts]
            for e, nm, ty in zip(s.target.elts, names, ety[1]):
                e2[e.id] = static_param(nm, ty) if ty == VEC3 else V(nm, ty, (), {nm})
            pat = "(%s)" % ", ".join(names)
        else:
            self.fail(s, "for target")
        if not has_return:
            return self.fold_ir(s, rest, env, conts, mode, it, e2, pat, set(names))
        for n in ast.walk(ast.Module(body=s.body, type_ignores=[])):
            if isinstance(n, (ast.Assign, ast.AugAssign, ast.Break, ast.Continue, ast.For, ast.While)):
                self.fail(n, "loop body may contain only `if` and `return`")
        body = self.block(s.body, e2, [], "loop")
        return ("for", it, pat, set(names), body, self.block(rest, env, conts, mode))

    def fold_ir(self, s, rest, env, conts, mode, it, e2, pat, patnames):
        """a loop that updates ONE variable defined before it: `x = Py.forFold xs x (fun x pat => body)`"""
        changed = []

        def own_breaks(stmts):            # `break` statements that end THIS loop (not one nested in it)
            out = []
            for n in stmts:
                if isinstance(n, ast.Break):
                    out.append(n)
                elif isinstance(n, ast.If):
                    out += own_breaks(n.body) + own_breaks(n.orelse)
            return out
        has_break = bool(own_breaks(s.body))
        for n in ast.walk(ast.Module(body=s.body, type_ignores=[])):
            if isinstance(n, (ast.AugAssign, ast.Continue, ast.While, ast.Raise)):
                self.fail(n, "statement %s in a loop body" % type(n).__name__)
            tgt = None
            if isinstance(n, ast.Assign) and len(n.targets) == 1:
                t = n.targets[0]
                tgt = t.id if isinstance(t, ast.Name) else (t.value.id if isinstance(t, ast.Subscript) and isinstance(t.value, ast.Name) else None)
            if isinstance(n, ast.Expr) and isinstance(n.value, ast.Call) and isinstance(n.value.func, ast.Attribute) and n.value.func.attr == "append":
                t = n.value.func.value
                tgt = t.id if isinstance(t, ast.Name) else (t.value.id if isinstance(t, ast.Subscript) and isinstance(t.value, ast.Name) else None)
            if isinstance(n, ast.Expr) and isinstance(n.value, ast.Call) and ast.unparse(n.value.func) == "np.subtract":
                for k in n.value.keywords:
                    if k.arg == "out" and isinstance(k.value, ast.Name):
                        tgt = k.value.id
            if tgt is not None and tgt in env and tgt not in changed:
                changed.append(tgt)
        if len(changed) != 1:
            self.fail(s, "a loop must update exactly one variable defined before it (updates: %r)" % changed)
        x = changed[0]
        init = env[x]
        nm = self.lname(x)
        e2[x] = V(nm, init.ty, (), {nm})
        self.fold_state.append(x)
        body = self.block(s.body, e2, [], "foldB" if has_break else "fold")
        self.fold_state.pop()
        e3 = dict(env)
        e3[x] = V(nm, init.ty, (), {nm})
        return ("foldB" if has_break else "fold", nm, it, pat, patnames, init, body, self.block(rest, e3, conts, mode))

    # -------------------------------------------------------------- IR -> Lean text
    def fv(self, ir):
        k = ir[0]
        if k in ("ret", "break"):
            return set(ir[1].refs)
        if k in ("raise", "end"):
            return set()
        if k == "let":
            return (self.fv(ir[3]) - {ir[1]}) | ir[2].refs
        if k == "bind":
            return (self.fv(ir[4]) - {ir[1]}) | ir[3]
        if k == "if":
            return ir[1].refs | self.fv(ir[2]) | self.fv(ir[3])
        if k == "matchopt":
            return ir[1].refs | (self.fv(ir[3]) - {ir[2]}) | self.fv(ir[4])
        if k == "for":
            return ir[1].refs | (self.fv(ir[4]) - ir[3]) | self.fv(ir[5])
        if k in ("fold", "foldB"):
            return ir[2].refs | ir[5].refs | (self.fv(ir[6]) - ir[4] - {ir[1]}) | (self.fv(ir[7]) - {ir[1]})
        raise AssertionError(k)

    def raises(self, ir):
        """does this IR contain a binding that may fail or a raise"""
        k = ir[0]
        if k in ("bind", "raise"):
            return True
        return any(self.raises(x) for x in ir[1:] if isinstance(x, tuple) and x and isinstance(x[0], str) and
                   x[0] in ("ret", "raise", "end", "let", "bind", "if", "matchopt", "for", "fold", "foldB", "break"))

    def dce(self, ir):
        """drop `let`s nobody uses; in a slice also bindings nobody uses"""
        k = ir[0]
        if k == "let":
            rest = self.dce(ir[3])
            return rest if ir[1] not in self.fv(rest) else ("let", ir[1], ir[2], rest)
        if k == "bind":
            rest = self.dce(ir[4])
            if ir[1] not in self.fv(rest):
                return rest if self.slice else ("bind", "_", ir[2], ir[3], rest)
            return ("bind", ir[1], ir[2], ir[3], rest)
        if k == "if":
            return ("if", ir[1], self.dce(ir[2]), self.dce(ir[3]))
        if k == "matchopt":
            return ("matchopt", ir[1], ir[2], self.dce(ir[3]), self.dce(ir[4]))
        if k == "for":
            return ("for", ir[1], ir[2], ir[3], self.dce(ir[4]), self.dce(ir[5]))
        if k in ("fold", "foldB"):
            return (k, ir[1], ir[2], ir[3], ir[4], ir[5], self.dce(ir[6]), self.dce(ir[7]))
        return ir

    def emit(self, ir, ind, mode):
        pad = "  " * ind
        k = ir[0]
        if k == "ret":
            t = ir[1].term
            return [pad + {"total": t, "partial": "pure %s" % t, "loop": "some %s" % t, "foldM": "pure %s" % t,
                           "foldB": "(%s, false)" % t, "foldBM": "pure (%s, false)" % t}[mode]]
        if k == "break":
            t = ir[1].term
            return [pad + {"foldB": "(%s, true)" % t, "foldBM": "pure (%s, true)" % t}[mode]]
        if k == "raise":
            return [pad + "none  -- %s" % ir[1]]
        if k == "end":
            return [pad + "none"]
        if k == "let":
            return [pad + "let %s : %s := %s" % (ir[1], lean_ty(ir[2].ty), ir[2].term)] + self.emit(ir[3], ind, mode)
        if k == "bind":
            return [pad + "let %s ← %s" % (ir[1], ir[2])] + self.emit(ir[4], ind, mode)
        if k == "if":
            out = [pad + "if %s then" % ir[1].term] + self.emit(ir[2], ind + 1, mode)
            b = ir[3]
            while b[0] == "if":
                out += [pad + "else if %s then" % b[1].term] + self.emit(b[2], ind + 1, mode)
                b = b[3]
            return out + [pad + "else"] + self.emit(b, ind + 1, mode)
        if k == "matchopt":
            return [pad + "match %s with" % ir[1].term, pad + "| some %s =>" % ir[2]] + self.emit(ir[3], ind + 1, mode) + \
                   [pad + "| none =>"] + self.emit(ir[4], ind + 1, mode)
        if k == "foldB":
            # a loop that may `break`: the body yields (state, did it break)
            m = self.raises(ir[6])
            if m and mode not in ("partial", "foldM", "foldBM"):
                raise Unsupported("%s: the loop body of %s may raise but the function is declared total" % (self.path, self.cfg["py"]))
            head = "let %s ← Py.forBreakM? %s %s (fun %s %s => do" if m else "let %s : " + lean_ty(ir[5].ty) + " := Py.forBreak %s %s (fun %s %s =>"
            return [pad + head % (ir[1], ir[2].term, ir[5].term, ir[1], ir[3])] + self.emit(ir[6], ind + 2, "foldBM" if m else "foldB") + \
                   [pad + "    )"] + self.emit(ir[7], ind, mode)
        if k == "fold":
            m = self.raises(ir[6])
            if m and mode not in ("partial", "foldM", "foldBM"):
                raise Unsupported("%s: the loop body of %s may raise but the function is declared total" % (self.path, self.cfg["py"]))
            head = "let %s ← Py.forFoldM? %s %s (fun %s %s => do" if m else "let %s : " + lean_ty(ir[5].ty) + " := Py.forFold %s %s (fun %s %s =>"
            return [pad + head % (ir[1], ir[2].term, ir[5].term, ir[1], ir[3])] + self.emit(ir[6], ind + 2, "foldM" if m else "total") + \
                   [pad + "    )"] + self.emit(ir[7], ind, mode)
        if k == "for":
            r = self.tmp()
            return [pad + "match Py.forFirst %s (fun %s =>" % (ir[1].term, ir[2])] + self.emit(ir[4], ind + 2, "loop") + \
                   [pad + "    ) with", pad + "| some %s => %s" % (r, r), pad + "| none =>"] + self.emit(ir[5], ind + 1, mode)
        raise AssertionError(k)

    # -------------------------------------------------------------- call traces (sequencing slices)
    def trace_names(self):
        """alpha-normalisation: every name the function stores (except parameters and the `keep` names) becomes l1, l2, …
        in the order of its first store in the source text"""
        keep = set(self.cfg.get("keep", [])) | {a.arg for a in self.node.args.args}
        stores = sorted((n for n in ast.walk(self.node) if isinstance(n, ast.Name) and isinstance(n.ctx, ast.Store)),
                        key=lambda n: (n.lineno, n.col_offset))
        ren = {}
        for n in stores:
            if n.id not in keep and n.id not in ren:
                ren[n.id] = "l%d" % (len(ren) + 1)
        for new in ren.values():
            if new in self.pynames and new not in ren:
                raise Unsupported("%s: name %s clashes with the canonical local names" % (self.cfg["py"], new))
        return ren

    def trace_text(self, s, ren):
        import copy

        class R(ast.NodeTransformer):
            def visit_Name(self, n):
                return ast.copy_location(ast.Name(id=ren.get(n.id, n.id), ctx=n.ctx), n)
        return ast.unparse(R().visit(copy.deepcopy(s)))

    def trace_block(self, stmts, env, ren):
        """parts: ('ev', [statement texts]) | ('if', cond V, parts, parts)"""
        parts = []
        for i, s in enumerate(stmts):
            if isinstance(s, ast.Expr) and isinstance(s.value, ast.Constant) and isinstance(s.value.value, str):
                continue
            if isinstance(s, ast.If):
                c = self.cond(s.test, env)
                if c.ty == OPAQUE or c.binds:
                    self.fail(s, "a guard outside the supported subset: %s" % ast.unparse(s.test))
                stored = {n.id for n in ast.walk(s) if isinstance(n, ast.Name) and isinstance(n.ctx, ast.Store)} - set(self.cfg.get("keep", []))
                later = {n.id for t in stmts[i + 1:] for n in ast.walk(t) if isinstance(n, ast.Name) and isinstance(n.ctx, ast.Load)}
                if stored & later:
                    self.fail(s, "names assigned inside this `if` are used after it: %s" % sorted(stored & later))
                parts.append(("if", c, self.trace_block(s.body, env, ren), self.trace_block(s.orelse, env, ren)))
            elif isinstance(s, (ast.Expr, ast.Assign, ast.AugAssign, ast.Assert, ast.Delete, ast.Pass)):
                for n in ast.walk(s):
                    if isinstance(n, ast.Name) and isinstance(n.ctx, ast.Store) and n.id in {a.arg for a in self.node.args.args}:
                        self.fail(s, "parameter %s is re-assigned" % n.id)
                if isinstance(s, ast.Pass):
                    continue
                if parts and parts[-1][0] == "ev":
                    parts[-1][1].append(self.trace_text(s, ren))
                else:
                    parts.append(("ev", [self.trace_text(s, ren)]))
            else:
                self.fail(s, "statement %s in a sequencing slice" % type(s).__name__)
        return parts

    def trace_refs(self, parts):
        r = set()
        for p in parts:
            if p[0] == "if":
                r |= p[1].refs | self.trace_refs(p[2]) | self.trace_refs(p[3])
        return r

    def trace_emit(self, parts, ind):
        pad = "  " * ind
        if not parts:
            return [pad + "[]"]
        out = []
        for j, p in enumerate(parts):
            if p[0] == "ev":
                lines = [pad + ("[" if k == 0 else " ") + _lean_str(t).replace("\n", "\\n") + ("," if k + 1 < len(p[1]) else "]")
                         for k, t in enumerate(p[1])]
            else:
                lines = [pad + "(if %s then" % (p[1].prop or p[1].term)] + self.trace_emit(p[2], ind + 1) + [pad + "else"] + \
                        self.trace_emit(p[3], ind + 1)
                lines[-1] += ")"
            if j + 1 < len(parts):
                lines[-1] += " ++"
            out += lines
        return out

    # -------------------------------------------------------------- fragments
    def fragment_body(self, stmts, steps, env):
        """the statements on the path to a selected expression, followed by `return <that expression>`.
        steps: ("if", text) then "test" | "body" | "orelse";  ("for", text) enters a loop body, its targets become
        parameters (`loopvars`) or opaque;  ("assign", target text) selects the assigned value."""
        out = []
        steps = list(steps)
        while steps:
            st = steps.pop(0)
            kind, text = st
            if kind == "if":
                hits = [(i, x) for i, x in enumerate(stmts) if isinstance(x, ast.If) and text in ast.unparse(x.test)]
                if len(hits) != 1:
                    raise Unsupported("%s: %s: %d `if` statements mention %r" % (self.path, self.cfg["py"], len(hits), text))
                i, x = hits[0]
                out += stmts[:i]
                what = steps.pop(0)
                if what == "test":
                    return out + [ast.copy_location(ast.Return(value=x.test), x)]
                t = x.test
                if isinstance(t, ast.Compare) and len(t.ops) == 1 and isinstance(t.ops[0], (ast.Is, ast.IsNot)) and \
                        isinstance(t.left, ast.Name) and isinstance(t.comparators[0], ast.Constant) and t.comparators[0].value is None:
                    # inside the branch where an optional parameter is not None it has its value
                    some_branch = "orelse" if isinstance(t.ops[0], ast.Is) else "body"
                    v = env.get(t.left.id)
                    if v is not None and isinstance(v.ty, tuple) and v.ty[0] == "opt" and what == some_branch:
                        self.narrow.append((t.left.id, v.ty[1]))
                stmts = x.body if what == "body" else x.orelse
            elif kind == "for":
                hits = [(i, x) for i, x in enumerate(stmts) if isinstance(x, ast.For) and text in ast.unparse(x.iter)]
                if len(hits) != 1:
                    raise Unsupported("%s: %s: %d `for` loops over %r" % (self.path, self.cfg["py"], len(hits), text))
                i, x = hits[0]
                out += stmts[:i]
                for n in ast.walk(x.target):
                    if isinstance(n, ast.Name):
                        lv = self.cfg.get("loopvars", {})
                        env[n.id] = static_param(self.lname(n.id), lv[n.id]) if n.id in lv else V.opaque()
                self.locals_assigned -= set(self.cfg.get("loopvars", {}))
                stmts = x.body
            elif kind == "assign":
                text, _, must = text.partition(" containing ")
                hits = [(i, x) for i, x in enumerate(stmts) if isinstance(x, ast.Assign) and len(x.targets) == 1 and
                        ast.unparse(x.targets[0]) == text and must in ast.unparse(x.value)]
                if len(hits) != 1:
                    raise Unsupported("%s: %s: %d assignments to %r" % (self.path, self.cfg["py"], len(hits), text))
                i, x = hits[0]
                val = x.value
                while steps:                     # a sub-expression of the assigned value
                    sel, arg = steps.pop(0)
                    if sel == "callarg":         # the first argument of the unique call of a function whose name ends with `arg`
                        calls = [n for n in ast.walk(val) if isinstance(n, ast.Call) and ast.unparse(n.func).endswith(arg)]
                        if len(calls) != 1 or not calls[0].args:
                            raise Unsupported("%s: %s: %d calls of %r in %s" % (self.path, self.cfg["py"], len(calls), arg, ast.unparse(val)))
                        val = calls[0].args[0]
                    elif sel == "callkw":        # the keyword argument `kw` of the unique call of a function whose name ends with `fn`
                        fn_, kwname = arg
                        calls = [n for n in ast.walk(val) if isinstance(n, ast.Call) and ast.unparse(n.func).endswith(fn_)]
                        vals = [k.value for c in calls for k in c.keywords if k.arg == kwname]
                        if len(calls) != 1 or len(vals) != 1:
                            raise Unsupported("%s: %s: %d calls of %r with %d keywords %r in %s" %
                                              (self.path, self.cfg["py"], len(calls), fn_, len(vals), kwname, ast.unparse(val)))
                        val = vals[0]
                    elif sel == "lambdabody":    # seventh batch: the body of a one-argument lambda; its argument must be declared in `inputs`
                        if not (isinstance(val, ast.Lambda) and len(val.args.args) == 1 and not val.args.defaults and
                                val.args.args[0].arg in (self.cfg.get("inputs") or {})):
                            raise Unsupported("%s: %s: %s is not a lambda of one declared argument" % (self.path, self.cfg["py"], ast.unparse(val)))
                        val = val.body
                    elif sel == "eltcallee":     # the name of the function a comprehension applies to its variable, as a string
                        if not (isinstance(val, ast.ListComp) and isinstance(val.elt, ast.Call) and len(val.elt.args) == 1 and
                                isinstance(val.elt.args[0], ast.Name) and val.elt.args[0].id == ast.unparse(val.generators[0].target)
                                and not val.elt.keywords):
                            raise Unsupported("%s: %s: %s is not [f(x) for x in …]" % (self.path, self.cfg["py"], ast.unparse(val)))
                        val = ast.copy_location(ast.Constant(value=ast.unparse(val.elt.func)), val)
                    else:
                        raise AssertionError(sel)
                return out + stmts[:i] + [ast.copy_location(ast.Return(value=val), x)]
            elif kind == "stmt":                 # the value of variable `var` right after the unique statement containing `text`
                text, _, var = text.partition(" then ")
                hits = [(i, x) for i, x in enumerate(stmts) if not isinstance(x, (ast.If, ast.For, ast.While, ast.With, ast.Try)) and
                        text in ast.unparse(x)]
                if len(hits) != 1:
                    raise Unsupported("%s: %s: %d statements contain %r" % (self.path, self.cfg["py"], len(hits), text))
                i, x = hits[0]
                return out + stmts[:i + 1] + [ast.copy_location(ast.Return(value=ast.parse(var, mode="eval").body), x)]
            elif kind == "return":               # seventh batch: the value the unique `return` statement of this block returns
                hits = [(i, x) for i, x in enumerate(stmts) if isinstance(x, ast.Return)]
                if len(hits) != 1 or hits[0][1].value is None:
                    raise Unsupported("%s: %s: %d `return` statements in the selected block" % (self.path, self.cfg["py"], len(hits)))
                i, x = hits[0]
                return out + stmts[:i + 1]
            elif kind == "ifstmt":               # the value of expression `e` right after the unique `if` STATEMENT whose test contains `text`
                text, _, var = text.partition(" then ")
                hits = [(i, x) for i, x in enumerate(stmts) if isinstance(x, ast.If) and text in ast.unparse(x.test)]
                if len(hits) != 1:
                    raise Unsupported("%s: %s: %d `if` statements mention %r" % (self.path, self.cfg["py"], len(hits), text))
                i, x = hits[0]
                return out + stmts[:i + 1] + [ast.copy_location(ast.Return(value=ast.parse(var, mode="eval").body), x)]
            else:
                raise AssertionError(kind)
        raise Unsupported("%s: %s: the fragment path selects no expression" % (self.path, self.cfg["py"]))

    # -------------------------------------------------------------- the definition
    def translate(self):
        cfg, fn = self.cfg, self.node
        env, params = {}, []
        declared = dict(cfg["params"])
        defaults = dict(zip([a.arg for a in fn.args.args][len(fn.args.args) - len(fn.args.defaults):], fn.args.defaults))
        names = [a.arg for a in fn.args.args]
        if cfg.get("cls") and cfg.get("inner"):
            pass                      # a function nested in a method: its own parameters only
        elif cfg.get("cls"):
            if names[:1] != (["cls"] if "classmethod" in cfg.get("decorators", []) else ["self"]):
                raise Unsupported("%s: %s is not a method" % (self.path, cfg["py"]))
            env["self"] = V("self", OPAQUE)
            names = names[1:]
            for attr, ty in cfg["attrs"].items():
                nm = "self_len" if attr == "__len__" else self.lname(attr)
                env["self." + attr] = static_param(nm, ty)
                params.append((nm, ty))
        for obj, attrs in cfg.get("objattrs", {}).items():   # attributes read from a parameter that is an object
            for attr, ty in attrs.items():
                nm = "%s_len" % obj if attr == "__len__" else "%s_%s" % (obj, attr)
                if isinstance(ty, tuple) and ty[0] == "rows":
                    rows = ["%s_%d" % (nm, i) for i in range(ty[1])]
                    env[obj + "." + attr] = self.mkstatic([static_param(r, VEC3) for r in rows])
                    params += [(r, VEC3) for r in rows]
                    continue
                env[obj + "." + attr] = static_param(nm, ty)
                params.append((nm, ty))
        for c, ty in cfg.get("closure", []):            # variables of the enclosing function a nested function reads
            nm = self.lname(c)
            env[c] = V(nm, ty, (), {nm})
            params.append((nm, ty))
        if not self.slice and [n for n in names if n not in cfg.get("objattrs", {})] != [p for p, _ in cfg["params"]]:
            raise Unsupported("%s:%d: parameters of %s are %r, the translator expects %r" %
                              (self.path, fn.lineno, cfg["py"], names, [p for p, _ in cfg["params"]]))
        for p in names:
            if p in declared:
                ty = declared[p]
                if p in defaults:
                    d = defaults[p]
                    if ty in (NUM, INT, NAT):
                        # a numeric default becomes a constant of its own: `<lean>_default_<param>`
                        try:
                            dv = self.coerce(d, self.ex(d, {}), ty)
                        except Unsupported:
                            dv = None
                        if dv is None or dv.lit is None:
                            raise Unsupported("%s:%d: default of %s.%s is %s" % (self.path, fn.lineno, cfg["py"], p, ast.unparse(d)))
                        self.default_defs.append("/-- the default `%s=%s` of `%s` -/\ndef %s_default_%s : %s := %s" %
                                                 (p, ast.unparse(d), cfg["py"], cfg["lean"], p, lean_ty(ty), dv.term))
                    elif ty == BOOL and isinstance(d, ast.Constant) and isinstance(d.value, bool):
                        self.default_defs.append("/-- the default `%s=%s` of `%s` -/\ndef %s_default_%s : Bool := %s" %
                                                 (p, d.value, cfg["py"], cfg["lean"], p, "true" if d.value else "false"))
                    elif isinstance(ty, tuple) and ty[0] == "tuple" and all(t == NAT for t in ty[1]) and isinstance(d, ast.Tuple) and \
                            len(d.elts) == len(ty[1]) and all(isinstance(e, ast.Constant) and isinstance(e.value, int) and e.value >= 0 for e in d.elts):
                        self.default_defs.append("/-- the default `%s=%s` of `%s` -/\ndef %s_default_%s : %s := (%s)" %
                                                 (p, ast.unparse(d), cfg["py"], cfg["lean"], p, lean_ty(ty), ", ".join(str(e.value) for e in d.elts)))
                    elif isinstance(ty, tuple) and ty[0] == "dict" and isinstance(d, ast.Dict) and not d.keys:
                        pass                                  # default {}: the empty map
                    elif isinstance(ty, tuple) and ty[0] == "fun":
                        pass                                  # a default key function is not translated: the caller passes one
                    elif not (isinstance(d, ast.Constant) and d.value is None and isinstance(ty, tuple) and ty[0] == "opt"):
                        raise Unsupported("%s:%d: default of %s.%s is %s" % (self.path, fn.lineno, cfg["py"], p, ast.unparse(d)))
                elif isinstance(ty, tuple) and ty[0] == "opt":
                    raise Unsupported("%s:%d: %s.%s no longer defaults to None" % (self.path, fn.lineno, cfg["py"], p))
                nm = self.lname(p)
                env[p] = static_param(nm, ty)
                params.append((nm, ty))
            else:
                env[p] = V.opaque()
        missing = [p for p in list(declared) + list(cfg.get("objattrs", {})) if p not in names]
        if missing:
            raise Unsupported("%s:%d: %s has no parameter %s" % (self.path, fn.lineno, cfg["py"], missing))
        if cfg.get("trace"):
            for nm, ty in cfg.get("abstractions", {}).values():
                params.append((nm, ty))
            parts = self.trace_block(fn.body, env, self.trace_names())
            used = self.trace_refs(parts)
            params = [(n, t) for n, t in params if n in used]
            sig = "def %s%s : List String :=" % (cfg["lean"], "".join(" (%s : %s)" % (n, lean_ty(t)) for n, t in params))
            doc = "/-- translated from `%s` in %s%s -/" % (cfg["py"], cfg["file"], cfg.get("doc", ""))
            return "\n\n".join(self.default_defs + ["\n".join([doc, sig] + self.trace_emit(parts, 1))])
        for nm, ty in cfg.get("abstractions", {}).values() if not cfg.get("trace") else []:
            params.append((nm, ty))
        for nm, ty in cfg.get("abstract_calls", {}).values():
            params.append((nm, ty))
        for nm, ty in cfg.get("loopvars", {}).items():
            params.append((self.lname(nm), ty))
        mode = "partial" if self.partial else "total"
        body_stmts = fn.body
        if cfg.get("fragment"):
            self.narrow = []
            body_stmts = self.fragment_body(fn.body, cfg["fragment"], env)
            for name, ty in self.narrow:
                env[name] = static_param(self.lname(name), ty)
                params = [(n, (ty if n == self.lname(name) else t)) for n, t in params]
            if cfg.get("inputs") is not None:
                # the fragment is translated for GIVEN values of these locals: the statements before it are not read
                body_stmts = body_stmts[-(cfg.get("keep_last", 0) + (2 if cfg["fragment"][-1][0] in ("stmt", "ifstmt") else 1)):]
                for name, ty in cfg["inputs"].items():
                    env[name] = static_param(self.lname(name), ty)
                    params.append((self.lname(name), ty))
                self.locals_assigned -= set(cfg["inputs"])
        ir = self.dce(self.block(body_stmts, env, [], mode))
        used = self.fv(ir)
        if self.slice:
            params = [(n, t) for n, t in params if n in used]
        body = self.emit(ir, 1, mode)
        if cfg.get("tagged"):
            rty = "Nat × Option (String × List Int)"
        elif cfg.get("mutates"):
            for a in self.mutated_attrs():
                if a not in cfg["attrs"]:
                    raise Unsupported("%s:%d: %s assigns self.%s, which the translator does not expect" % (self.path, fn.lineno, cfg["py"], a))
            outs = [cfg["attrs"][a] for a in self.mutated_attrs()]
            rty = lean_ty(TUP(*(([] if self.ret is None else [self.ret]) + outs))) if len(outs) != 1 or self.ret is not None else lean_ty(outs[0])
        else:
            rty = lean_ty(self.ret)
        if self.partial:
            rty = "Option (%s)" % rty if " " in rty else "Option %s" % rty
        generic = any("α" in lean_ty(t) for _, t in params)
        sig = "def %s%s%s : %s :=%s" % (cfg["lean"], (" " + cfg.get("generic", "{α} [LT α] [DecidableEq α] [DecidableLT α]")) if generic else "",
                                        "".join(" (%s : %s)" % (n, lean_ty(t)) for n, t in params), rty,
                                        " do" if self.partial else "")
        where = "%s%s" % (cfg["file"], (" class " + cfg["cls"]) if cfg.get("cls") else "")
        pyname = "%s.%s" % (cfg["py"], cfg["inner"]) if cfg.get("inner") else cfg["py"]
        doc = "/-- translated from `%s` in %s%s -/" % (pyname, where, cfg.get("doc", ""))
        return "\n\n".join(self.default_defs + ["\n".join([doc, sig] + body)])


class UnboundLocal(Exception):
    pass


def _match_hole(pat, node):
    """structural match of `node` against `pat`, in which the name `__hole__` stands for any ONE expression:
    [the sub-node standing at the hole] (exactly one hole must be met), or None"""
    if isinstance(pat, ast.Name) and pat.id == "__hole__":
        return [node]
    if type(pat) is not type(node):
        return None
    out = []
    for field in pat._fields:
        a, b = getattr(pat, field, None), getattr(node, field, None)
        if isinstance(a, ast.AST):
            r = _match_hole(a, b) if isinstance(b, ast.AST) else None
            if r is None:
                return None
            out += r
        elif isinstance(a, list):
            if not isinstance(b, list) or len(a) != len(b):
                return None
            for x, y in zip(a, b):
                if isinstance(x, ast.AST):
                    r = _match_hole(x, y) if isinstance(y, ast.AST) else None
                    if r is None:
                        return None
                    out += r
                elif x != y:
                    return None
        elif a != b:
            return None
    return out if len(out) <= 1 else None


class _Stop(ast.stmt):
    """sentinel: the end of a probe translation"""
    lineno = 0
    col_offset = 0


# ------------------------------------------------------------------ what is translated

_TERM_KINDS = ["bond", "angle", "dihedral", "improper"]

FUNCTIONS = [
    dict(file="mofun/detect_bonds.py", py="max_bond_length", lean="maxBondLength",
         params=[("el1", STR), ("el2", STR)], ret=NUM, partial=True, doc="; `none` = KeyError"),
    dict(file="mofun/helpers.py", py="typekey", lean="typekey", params=[("tup", LIST(ELEM))], ret=LIST(ELEM)),
    dict(file="mofun/rough_uff.py", py="guess_bond_order", lean="guessBondOrder",
         params=[("a1", STR), ("a2", STR), ("rules", OPT(LIST(TUP(SET(STR), NUM))))], ret=NUM,
         doc="; a rule is (the set of its atom types as a list, bond order)"),
    dict(file="mofun/atoms.py", cls="Atoms", py="num_atom_types", lean="numAtomTypes", decorators=["property"],
         params=[], attrs={"atom_type_elements": LIST(STR)}, ret=NAT),
] + [
    dict(file="mofun/atoms.py", cls="Atoms", py="num_%s_types" % k, lean="num%sTypes" % k.capitalize(),
         decorators=["property"], params=[], attrs={"%s_types" % k: LIST(NAT), "%s_type_coeffs" % k: LIST(STR)},
         ret=NAT, partial=True, doc="; `none` = ValueError (`max` of an empty list)")
    for k in _TERM_KINDS
] + [
    dict(file="mofun/rough_uff.py", py="angle_params", lean="angleParamsDecision", slice=True, tagged=True, partial=True,
         params=[("a2", STR)], ret=None,
         doc=" (decision slice: which style / b / n; the float formulas are not translated); `none` = KeyError, "
             "IndexError or UnboundLocalError"),
    dict(file="mofun/rough_uff.py", py="dihedral_params", lean="dihedralParamsBranch", slice=True, tagged=True, partial=True,
         params=[("a1", STR), ("a2", STR), ("a3", STR), ("a4", STR)], ret=None,
         doc=" (decision slice: which `return` is reached and its d, n; the float formulas are not translated); "
             "`none` = the explicit `raise`"),
]

FUNCTIONS += [
    # ---- second batch
    dict(file="mofun/helpers.py", py="guess_elements_from_masses", inner="find_element", lean="findElement",
         closure=[("max_delta", NUM)], params=[("elmass", NUM)], ret=STR, partial=True,
         doc="; `max_delta` is read from the enclosing function; `none` = the explicit `raise` (or ValueError on an empty table)"),
    dict(file="mofun/helpers.py", py="guess_elements_from_masses", lean="guessElementsFromMasses",
         params=[("masses", LIST(NUM)), ("max_delta", NUM)], ret=LIST(STR), partial=True, calls={"find_element": "findElement"},
         doc="; `none` = the first mass without an element raises"),
    dict(file="mofun/atoms.py", cls="Atoms", py="pop", lean="popIndex", params=[("pos", INT)], attrs={"__len__": NAT},
         ret=LIST(INT), partial=True, del_self_index=True,
         doc=": the index list handed to `__delitem__` by `del(self[[…]])`; `none` = ZeroDivisionError"),
    dict(file="mofun/helpers.py", py="group_duplicates", lean="groupDuplicates", generic="{α κ} [DecidableEq κ]",
         params=[("match_indices", LIST(ELEM)), ("key", FUN(ELEM, KEY))], locals={"keyed_tuples": DICT(KEY, LIST(ELEM))},
         ret=DICT(KEY, LIST(ELEM)), partial=True,
         doc="; the dict is an association list in insertion order; `none` = KeyError (never raised, see the theorem); "
             "the default `key` is not translated"),
    dict(file="mofun/cli/mofun_cli.py", py="mofun_cli", lean="mofunCliTrace", slice=True, trace=True, decorators="any", ret=None,
         keep=["atoms"],
         params=[("find_path", OPT(STR)), ("replace_path", OPT(STR)), ("atol", NUM), ("replace_fraction", NUM),
                 ("dumppath", OPT(STR)), ("extract_uc_path", OPT(STR)), ("chargefile", OPT(STR)),
                 ("replicate", OPT(TUP(NAT, NAT, NAT))), ("mic", OPT(NUM)), ("framework_element", OPT(STR)), ("pp", BOOL)],
         abstractions={"inputpath.suffix": ("inputpath_suffix", STR), "outputpath.suffix": ("outputpath_suffix", STR),
                       "atoms.cell_is_orthorhombic()": ("cell_is_orthorhombic", BOOL)},
         doc=" (SEQUENCING slice: the simple statements the function executes, in order, as source text with the locals "
             "renamed l1, l2, … in order of first assignment, under the guards of the `if`s; parameters: the options the "
             "guards read, the two path suffixes, and the answer of `atoms.cell_is_orthorhombic()`)"),
    dict(file="mofun/rough_uff.py", py="delete_if_all_in_set", lean="deleteIfAllInSet",
         params=[("arr", LIST(LIST(NAT))), ("s", SET(NAT))], locals={"deletion_list": LIST(NAT)}, ret=LIST(LIST(NAT)),
         doc="; `arr` is the list of rows of the 2-D index array"),
]

_COEFFS = {"%s_type_coeffs" % k: LIST(STR) for k in _TERM_KINDS}
_TYPE_TABLES = {"atom_type_elements": LIST(STR), "atom_type_masses": LIST(NUM), "atom_type_labels": LIST(STR),
                "pair_coeffs": LIST(STR)}

FUNCTIONS += [
    # ---- third batch
    dict(file="mofun/atoms.py", cls="Atoms", py="extend_types", lean="extendTypes", params=[], mutates=True, partial=True,
         attrs=dict(list(_TYPE_TABLES.items()) + [kv for k in _TERM_KINDS for kv in (("%s_types" % k, LIST(NAT)), ("%s_type_coeffs" % k, LIST(STR)))]),
         objattrs={"other": dict(list(_TYPE_TABLES.items()) + list(_COEFFS.items()))},
         ret=TUP(NAT, NAT, NAT, NAT, NAT),
         doc=": (the returned offsets, then the new value of every attribute of self it assigns, in the order elements, masses, labels, pair_coeffs, bond/angle/dihedral/improper coefficients); "
             "`np.append` of 1-D arrays is concatenation; `none` = an exception of a `num_*_types` property"),
    dict(file="mofun/atoms.py", cls="Atoms", py="cell_is_orthorhombic", lean="cellIsOrthorhombic", params=[], attrs={"cell": MAT3},
         ret=BOOL, doc="; the numpy expression is expanded element by element over the 3x3 cell"),
    dict(file="mofun/mofun.py", py="_get_positions_from_all_adjacent_unit_cells", lean="nearUsesPlaneTests", slice=True,
         fragment=[("if", "cell_is_orthorhombic"), "test"], params=[("distance", NUM)], ret=BOOL,
         abstractions={"structure.cell": ("structure_cell", MAT3)},
         method_calls={"structure.cell_is_orthorhombic()": ("cellIsOrthorhombic", ["structure.cell"])},
         doc=" (FRAGMENT: the guard that selects the general plane tests instead of the orthorhombic box test)"),
    dict(file="mofun/mofun.py", py="_get_positions_from_all_adjacent_unit_cells", lean="nearBoxTest", slice=True,
         fragment=[("if", "cell_is_orthorhombic"), "orelse", ("for", "all_positions"), ("if", "pos[0]"), "test"],
         params=[("distance", NUM)], loopvars={"pos": VEC3}, ret=BOOL,
         abstractions={"structure.cell": ("structure_cell", MAT3)},
         doc=" (FRAGMENT: the box test of the orthorhombic branch for one image position `pos`)"),
    dict(file="mofun/atoms.py", cls="Atoms", py="load", lean="atomsLoadSite", slice=True, sites_only=True, partial=True,
         decorators=["classmethod"], allow_kwargs=True, params=[("filetype", OPT(STR))], attrs={}, ret=STR,
         abstractions={"isinstance(f, io.TextIOBase)": ("f_is_file", BOOL), "os.path.splitext(path)": ("path_splitext", TUP(STR, STR))},
         doc=" (DISPATCH slice: the function whose result is returned — cls.load_lmpdat, cls.load_cml or cls.load_p1_cif; "
             "`none` = one of the two `raise`s; parameters: filetype, whether f is an open text file, os.path.splitext(path))"),
    dict(file="mofun/atoms.py", cls="Atoms", py="save", lean="atomsSaveSite", slice=True, sites_only=True, partial=True,
         allow_kwargs=True, params=[("filetype", OPT(STR))], attrs={}, ret=STR,
         abstractions={"isinstance(f, io.TextIOBase)": ("f_is_file", BOOL), "os.path.splitext(path)": ("path_splitext", TUP(STR, STR))},
         doc=" (DISPATCH slice: the function whose result is returned — self.save_lmpdat, self.save_raspa_mol or self.save_p1_cif; "
             "`none` = one of the two `raise`s)"),
    dict(file="mofun/atoms.py", cls="Atoms", py="replicate", lean="replicateCell", slice=True,
         fragment=[("assign", "repl_atoms.cell")], params=[("repldims", TUP(NAT, NAT, NAT))], attrs={"cell": MAT3}, ret=MAT3,
         doc=" (FRAGMENT: the cell of the replicated structure, `self.cell * np.array(repldims).reshape(3, 1)`)"),
    dict(file="mofun/atoms.py", cls="Atoms", py="_delete_and_reindex_atom_index_array", lean="deleteAndReindex",
         params=[("arr", LIST(LIST(NAT))), ("sorted_deleted_indices", LIST(NAT))], attrs={},
         locals={"arr_idx_to_delete": LIST(NAT)}, ret=TUP(LIST(LIST(NAT)), LIST(NAT)),
         doc="; `arr` is the list of rows of the 2-D index array; result = (re-indexed surviving rows, indices of the deleted rows)"),
]

_MASSLINE = TUP(INT, STR, OPT(STR))

FUNCTIONS += [
    # ---- fourth batch: the lines the repairs of 2026-09-29 introduced
    dict(file="mofun/atoms.py", cls="Atoms", py="__delitem__", lean="delitemSortedIndices", slice=True, partial=True,
         fragment=[("assign", "sorted_indices")], params=[("indices", LIST(INT))], attrs={"__len__": NAT}, ret=LIST(INT),
         doc=" (FRAGMENT: the index list handed to the term code, `sorted({i % num_atoms for i in indices}, reverse=True)`; "
             "`none` = ZeroDivisionError)"),
    dict(file="mofun/atoms.py", cls="Atoms", py="extend", inner="plain_index", lean="plainIndex", params=[("i", INT), ("n", NAT)],
         ret=INT, partial=True, doc="; `none` = the IndexError it raises"),
    dict(file="mofun/atoms.py", cls="Atoms", py="extend", lean="extendIndexMap", slice=True, partial=True,
         fragment=[("assign", "structure_index_map")], params=[("structure_index_map", DICT(INT, INT))],
         attrs={"__len__": NAT}, objattrs={"other": {"__len__": NAT}}, calls={"plain_index": "plainIndex"}, ret=DICT(INT, INT),
         doc=" (FRAGMENT: the normalised structure_index_map, a dict comprehension over the given one; `none` = IndexError)"),
    dict(file="mofun/atoms.py", cls="Atoms", py="extend", lean="extendPadOffsets", slice=True,
         fragment=[("if", "offsets is None"), "orelse", ("assign", "offsets")], params=[("offsets", OPT(LIST(NAT)))],
         attrs={}, inputs={}, ret=LIST(NAT),
         doc=" (FRAGMENT: explicit offsets padded to five entries, `tuple(offsets) + (0,) * (5 - len(offsets))`)"),
    dict(file="mofun/cli/mofun_cli.py", py="mofun_cli", lean="mofunCliMicRepls", slice=True, decorators="any",
         fragment=[("if", "mic is not None"), "body", ("if", "cell_is_orthorhombic"), "body", ("assign", "repls")],
         params=[("mic", OPT(NUM))], abstractions={"atoms.cell": ("atoms_cell", MAT3)}, inputs={}, ret=TUP(INT, INT, INT),
         doc=" (FRAGMENT: the minimum-image replication factors, numpy expression expanded over the diagonal of the cell)"),
    dict(file="mofun/atoms.py", cls="Atoms", py="load_lmpdat", lean="lmpSortMasses", slice=True, decorators=["classmethod"],
         fragment=[("stmt", "masses.sort then masses")], params=[], attrs={}, inputs={"masses": LIST(_MASSLINE)}, ret=LIST(_MASSLINE),
         doc=" (FRAGMENT: `masses.sort(key=lambda m: m[0])` for a given list of (type id, mass text, label) entries)"),
    dict(file="mofun/atoms.py", cls="Atoms", py="load_lmpdat", lean="lmpHasComment", slice=True, decorators=["classmethod"],
         fragment=[("for", "f"), ("if", "in unprocessed_line"), "test"], params=[], attrs={}, inputs={"unprocessed_line": STR}, ret=BOOL,
         doc=" (FRAGMENT: does a data line carry a comment)"),
    dict(file="mofun/atoms.py", cls="Atoms", py="load_lmpdat", lean="lmpLineBeforeComment", slice=True, partial=True,
         decorators=["classmethod"], fragment=[("for", "f"), ("if", "in unprocessed_line"), "body", ("stmt", ".split('#', 1) then line")],
         params=[], attrs={}, inputs={"unprocessed_line": STR}, ret=STR,
         doc=" (FRAGMENT: the data part of a line with a comment: the text before the FIRST `#`; `none` = no `#`)"),
    dict(file="mofun/atoms.py", cls="Atoms", py="load_lmpdat", lean="lmpCommentOf", slice=True, partial=True,
         decorators=["classmethod"], fragment=[("for", "f"), ("if", "in unprocessed_line"), "body", ("stmt", ".split('#', 1) then comment")],
         params=[], attrs={}, inputs={"unprocessed_line": STR}, ret=STR,
         doc=" (FRAGMENT: the text after the FIRST `#`, before it is stripped)"),
    dict(file="mofun/atoms.py", cls="Atoms", py="load_cml", lean="cmlAtomPattern", slice=True, decorators=["classmethod"],
         fragment=[("assign", "atom_dicts"), ("callarg", "findall")], params=[], attrs={}, inputs={}, ret=STR,
         doc=" (FRAGMENT: the ElementPath pattern of the atom lookup)"),
    dict(file="mofun/atoms.py", cls="Atoms", py="load_cml", lean="cmlBondPattern", slice=True, decorators=["classmethod"],
         fragment=[("assign", "bond_dicts"), ("callarg", "findall")], params=[], attrs={}, inputs={}, ret=STR,
         doc=" (FRAGMENT: the ElementPath pattern of the bond lookup)"),
    dict(file="mofun/mofun.py", py="uc_neighbor_offsets", lean="ucNeighborOffsets", params=[("uc_vectors", MAT3)], ret=LIST(VEC3),
         doc="; `np.meshgrid(…).T.reshape(-1, 1, 3)` and `np.matmul(uc_vectors.T, mult[0])` are expanded over the 27 multipliers"),
    dict(file="mofun/mofun.py", py="find_pattern_in_structure", lean="findUcAtomsInMatch", slice=True, partial=True, decorators="any",
         fragment=[("for", "enumerate(starting_atoms)"), ("for", "range(1, len(pattern))"), ("for", "last_match_index_tuples"),
                   ("assign", "uc_atoms_in_match")],
         params=[], inputs={"near_indices": LIST(NAT), "match": LIST(NAT)}, abstractions={"len(structure)": ("structure_len", NAT)},
         ret=SET(INT), doc=" (FRAGMENT: the unit-cell atoms a partial match already uses; `none` = IndexError / ZeroDivisionError)"),
    dict(file="mofun/mofun.py", py="find_pattern_in_structure", lean="findCandidateOk", slice=True, partial=True, decorators="any",
         fragment=[("for", "enumerate(starting_atoms)"), ("for", "range(1, len(pattern))"), ("for", "last_match_index_tuples"),
                   ("for", "nearby_atom_indices"), ("if", "uc_atoms_in_match"), "test"],
         params=[], inputs={"near_types": LIST(STR), "pattern_elements": LIST(STR), "near_indices": LIST(NAT), "i": NAT,
                            "atom_idx": NAT, "uc_atoms_in_match": SET(INT)},
         abstractions={"len(structure)": ("structure_len", NAT)}, ret=BOOL,
         doc=" (FRAGMENT: may this nearby atom extend the partial match: right element, and not an image of a unit-cell atom "
             "the match already uses)"),
    dict(file="mofun/mofun.py", py="find_pattern_in_structure", lean="findFinalCheck", slice=True, partial=True, decorators="any",
         fragment=[("for", "grouped_tuples.items()"), ("for", "enumerate(match_tuples)"), ("if", "np.allclose"), "test"],
         params=[("atol", NUM)], inputs={"atom_positions": LIST(VEC3)},
         abstractions={"chk_pattern.positions": ("chk_pattern_positions", LIST(VEC3))}, ret=BOOL,
         doc=" (FRAGMENT: the final re-check of a candidate, `np.allclose(…, rtol=…, atol=…)` with numpy's defaults for a "
             "missing keyword; `none` = ValueError)"),
    dict(file="mofun/mofun.py", py="_get_positions_from_all_adjacent_unit_cells", lean="nearCellsAway", slice=True,
         fragment=[("if", "len(home_positions) > 0"), "body", ("assign", "cells_away")], params=[],
         inputs={"home_positions": VEC3, "cell": MAT3}, ret=TUP(INT, INT, INT),
         doc=" (FRAGMENT for ONE atom: how many whole cells it is away from the home cell, "
             "`np.floor(home_positions.dot(np.linalg.inv(cell)) + 1e-9)`; the inverse is expanded as adjugate / determinant)"),
    dict(file="mofun/mofun.py", py="_get_positions_from_all_adjacent_unit_cells", lean="nearHomePosition", slice=True,
         fragment=[("if", "len(home_positions) > 0"), "body", ("stmt", "cells_away.dot(cell) then home_positions")], params=[],
         inputs={"home_positions": VEC3, "cell": MAT3}, keep_last=1, ret=VEC3,
         doc=" (FRAGMENT for ONE atom: its image inside the cell, `home_positions - cells_away.dot(cell)`)"),
    dict(file="mofun/atoms.py", cls="Atoms", py="load_p1_cif", lean="cifChargeReader", slice=True, decorators=["classmethod"],
         fragment=[("if", "_atom_site_charge"), "body", ("assign", "charges"), ("eltcallee", None)], params=[], attrs={}, inputs={}, ret=STR,
         doc=" (FRAGMENT: the name of the function that reads one entry of the charge column)"),
    dict(file="mofun/atoms.py", cls="Atoms", py="load_p1_cif", lean="cifCoordReader", slice=True, decorators=["classmethod"],
         fragment=[("assign", "x"), ("eltcallee", None)], params=[], attrs={}, inputs={}, ret=STR,
         doc=" (FRAGMENT: the name of the function that reads one coordinate)"),
]

PRELUDE = r'''/- GENERATED on every run by harness/gen_code.py from the sources of /repo — do not edit.
   Python → Lean translation of a few small pure functions; the supported subset is documented in gen_code.py.
   `Mofun.Generated.Py` is the fixed prelude (the meaning of the python primitives the translation uses);
   `Mofun.Generated.Code` holds one definition per translated python function. -/
import MofunModel.Model.Basic
import MofunModel.Generated.Radii
import MofunModel.Generated.Masses
import MofunModel.Generated.Uff

namespace Mofun.Generated.Py
open Mofun

/-- a python value that is either a `str` or an `int` (e.g. `s[2] if len(s) > 2 else 0`) -/
inductive Val where
  | str (s : String)
  | int (n : Int)
deriving DecidableEq, Repr

/-- `T[k]` on a `{str: float}` table; `none` = KeyError -/
def tableGet (tbl : List (String × Dec)) (k : String) : Option Rat := (lookup tbl k).map Dec.toRat

/-- `T[k][i]` on a `{str: (float, …)}` table; `none` = KeyError / IndexError -/
def tableCol (tbl : List (String × List Dec)) (k : String) (i : Nat) : Option Rat :=
  match lookup tbl k with
  | none => none
  | some row => row[i]?.map Dec.toRat

/-- `k in T` -/
def tableHas {β} (tbl : List (String × β)) (k : String) : Bool := (lookup tbl k).isSome

/-! sets are lists; order and repetitions are invisible to the operations below -/

/-- `a <= b` on sets -/
def setSubset {α} [DecidableEq α] (a b : List α) : Bool := a.all (fun x => b.contains x)
/-- `a == b` on sets -/
def setEq {α} [DecidableEq α] (a b : List α) : Bool := setSubset a b && setSubset b a
/-- `a & b` -/
def setInter {α} [DecidableEq α] (a b : List α) : List α := a.filter (fun x => b.contains x)
/-- `a | b` -/
def setUnion {α} (a b : List α) : List α := a ++ b
/-- `a - b` -/
def setDiff {α} [DecidableEq α] (a b : List α) : List α := a.filter (fun x => !b.contains x)
/-- `len(a)` on a set: the number of distinct members -/
def setLen {α} [DecidableEq α] (a : List α) : Nat := (dedup a).length

/-- `max(xs)`; `none` = ValueError on an empty sequence -/
def listMax? : List Nat → Option Nat
  | [] => none
  | x :: xs => some (xs.foldl max x)
/-- `min(xs)`; `none` = ValueError on an empty sequence -/
def listMin? : List Nat → Option Nat
  | [] => none
  | x :: xs => some (xs.foldl min x)

/-- `for x in xs: <body that may return>`: the value returned in the first iteration that returns -/
def forFirst {α β} : List α → (α → Option β) → Option β
  | [], _ => none
  | x :: xs, f =>
    match f x with
    | some r => some r
    | none => forFirst xs f

/-- `abs(x)` -/
def abs (x : Rat) : Rat := if x < 0 then -x else x

/-- `T.items()` of a `{str: float}` table, in source order -/
def tableItems (tbl : List (String × Dec)) : List (String × Rat) := tbl.map (fun p => (p.1, p.2.toRat))

/-- python `min(it, key=f)` after the first item has been taken: the running best is replaced only by a STRICTLY
    smaller key, so the FIRST minimal item wins -/
def minByAux {α} (key : α → Rat) : α → List α → α
  | best, [] => best
  | best, e :: es => if key e < key best then minByAux key e es else minByAux key best es
/-- `min(xs, key=f)`; `none` = ValueError on an empty sequence -/
def minBy? {α} (xs : List α) (key : α → Rat) : Option α :=
  match xs with
  | [] => none
  | e :: es => some (minByAux key e es)
/-- `max(xs, key=f)`: the FIRST maximal item; `none` = ValueError -/
def maxByAux {α} (key : α → Rat) : α → List α → α
  | best, [] => best
  | best, e :: es => if key best < key e then maxByAux key e es else maxByAux key best es
def maxBy? {α} (xs : List α) (key : α → Rat) : Option α :=
  match xs with
  | [] => none
  | e :: es => some (maxByAux key e es)

/-- `[f(x) for x in xs]` where `f` may raise: the first exception ends the comprehension -/
def listMapM? {α β} : List α → (α → Option β) → Option (List β)
  | [], _ => some []
  | x :: xs, f =>
    match f x with
    | none => none
    | some y =>
      match listMapM? xs f with
      | none => none
      | some ys => some (y :: ys)

/-- python `a % b` on ints (the result has the sign of `b`); `none` = ZeroDivisionError -/
def intMod? (a b : Int) : Option Int := if b = 0 then none else some (Int.fmod a b)

/-- `for x in xs: <body updating st>` -/
def forFold {α σ} : List α → σ → (σ → α → σ) → σ
  | [], st, _ => st
  | x :: xs, st, f => forFold xs (f st x) f
/-- the same when the body may raise -/
def forFoldM? {α σ} : List α → σ → (σ → α → Option σ) → Option σ
  | [], st, _ => some st
  | x :: xs, st, f =>
    match f st x with
    | none => none
    | some st' => forFoldM? xs st' f

/-- `enumerate(xs)` -/
def enumerateFrom {α} : Nat → List α → List (Nat × α)
  | _, [] => []
  | i, x :: xs => (i, x) :: enumerateFrom (i + 1) xs
def enumerate {α} (xs : List α) : List (Nat × α) := enumerateFrom 0 xs

/-- `np.delete(arr, idx, axis=0)` for indices inside the array -/
def npDelete {α} (arr : List α) (idx : List Nat) : List α := deleteIdx arr idx

/-- python `sorted(xs, reverse=True)` on ints (insertion sort: structurally recursive) -/
def insertDesc (x : Int) : List Int → List Int
  | [] => [x]
  | y :: ys => if x ≥ y then x :: y :: ys else y :: insertDesc x ys
def sortedDesc (xs : List Int) : List Int := xs.foldr insertDesc []
/-- python `sorted(xs)` on ints -/
def insertAsc (x : Int) : List Int → List Int
  | [] => [x]
  | y :: ys => if x ≤ y then x :: y :: ys else y :: insertAsc x ys
def sortedAsc (xs : List Int) : List Int := xs.foldr insertAsc []

/-- `xs.sort(key=f)` with an integer key: ascending, entries with equal keys keep their order (python's sort is stable) -/
def insertByKey {α} (key : α → Int) (x : α) : List α → List α
  | [] => [x]
  | y :: ys => if key x ≤ key y then x :: y :: ys else y :: insertByKey key x ys
def sortByKey {α} (xs : List α) (key : α → Int) : List α := xs.foldr (insertByKey key) []

/-- python `xs * n` on a list: `n` copies one after the other, none for `n ≤ 0` -/
def listRepeat {α} (xs : List α) (n : Int) : List α := (List.replicate n.toNat xs).flatten

/-- `np.ceil(x)` as an integer -/
def ceil (x : Rat) : Int := Rat.ceil x
/-- `np.floor(x)` as an integer -/
def floor (x : Rat) : Int := Rat.floor x

/-- one coordinate of `np.allclose`: `|a − b| ≤ atol + rtol·|b|` -/
def close1 (a b rtol atol : Rat) : Bool := decide (abs (a - b) ≤ atol + rtol * abs b)
/-- `np.allclose(a, b, rtol=…, atol=…)` on two lists of points; `none` = ValueError (shapes that cannot be broadcast) -/
def allclose? (a b : List Vec3) (rtol atol : Rat) : Option Bool :=
  if a.length = b.length then
    some ((a.zip b).all (fun p => close1 p.1.x p.2.x rtol atol && close1 p.1.y p.2.y rtol atol && close1 p.1.z p.2.z rtol atol))
  else none

/-- `d[k] = v` on an insertion-ordered dict: an existing key keeps its position and takes the new value -/
def dictInsert {κ β} [DecidableEq κ] : List (κ × β) → κ → β → List (κ × β)
  | [], k, v => [(k, v)]
  | (k', v') :: rest, k, v => if k' = k then (k, v) :: rest else (k', v') :: dictInsert rest k v
/-- `{key(a, b): val(a, b) for a, b in d.items()}` -/
def dictComp {κ β κ' β'} [DecidableEq κ'] (d : List (κ × β)) (f : κ × β → κ' × β') : List (κ' × β') :=
  d.foldl (fun acc p => dictInsert acc (f p).1 (f p).2) []
/-- the same when computing a key or a value may raise -/
def dictCompM? {κ β κ' β'} [DecidableEq κ'] (d : List (κ × β)) (f : κ × β → Option (κ' × β')) : Option (List (κ' × β')) :=
  d.foldl (fun acc p => match acc, f p with
    | some m, some kv => some (dictInsert m kv.1 kv.2)
    | _, _ => none) (some [])

/-- `a, b = s.split(c, 1)`: the text before and after the FIRST `c`; `none` = ValueError (no `c`: one part only) -/
def splitAtFirst (c : Char) : List Char → List Char × Option (List Char)
  | [] => ([], none)
  | x :: xs => if x = c then ([], some xs) else ((x :: (splitAtFirst c xs).1), (splitAtFirst c xs).2)
def strSplit1? (s : String) (c : Char) : Option (String × String) :=
  match splitAtFirst c s.toList with
  | (a, some b) => some (String.ofList a, String.ofList b)
  | (_, none) => none
/-- python `str.isspace` on ASCII: blank, `\t \n \v \f \r`, `\x1c … \x1f` -/
def isWs (c : Char) : Bool := c.val == 32 || (9 ≤ c.val && c.val ≤ 13) || (28 ≤ c.val && c.val ≤ 31)
/-- `s.strip()`: without the leading and the trailing blanks -/
def strStripWs (s : String) : String :=
  String.ofList (((s.toList.dropWhile isWs).reverse.dropWhile isWs).reverse)

/-- `np.subtract(arr, k, out=arr, where=arr > i)` on a 2-D index array -/
def npSubWhereGt (arr : List (List Nat)) (k i : Nat) : List (List Nat) :=
  arr.map (fun row => row.map (fun x => if x > i then x - k else x))

/-! insertion-ordered dicts are association lists with distinct keys -/

/-- `k in d` -/
def dictHas {κ β} [DecidableEq κ] (d : List (κ × β)) (k : κ) : Bool := d.any (fun p => p.1 = k)
/-- `d[k] = v`: a new key goes to the end, an existing key keeps its position -/
def dictSet {κ β} [DecidableEq κ] (d : List (κ × β)) (k : κ) (v : β) : List (κ × β) :=
  if dictHas d k then d.map (fun p => if p.1 = k then (p.1, v) else p) else d ++ [(k, v)]
/-- `d[k].append(x)`; `none` = KeyError -/
def dictAppend? {κ β} [DecidableEq κ] (d : List (κ × List β)) (k : κ) (x : β) : Option (List (κ × List β)) :=
  if dictHas d k then some (d.map (fun p => if p.1 = k then (p.1, p.2 ++ [x]) else p)) else none

/-- `s[i]` (a one-character string); `none` = IndexError.  Python strings are sequences of code points. -/
def strIndex? (s : String) (i : Nat) : Option String := s.toList[i]?.map String.singleton
/-- `s[i:j]` for constant `0 ≤ i`, `0 ≤ j` -/
def strSlice (s : String) (i j : Nat) : String := String.ofList ((s.toList.take j).drop i)
/-- `s[i:]` for a constant `i ≥ 0` -/
def strDrop (s : String) (i : Nat) : String := String.ofList (s.toList.drop i)
/-- `s.strip(cs)`: drop every leading and every trailing character that occurs in `cs` -/
def strStrip (s cs : String) : String :=
  String.ofList (((s.toList.dropWhile (fun c => cs.toList.contains c)).reverse.dropWhile (fun c => cs.toList.contains c)).reverse)
/-- `s.replace(c, t)` for a one-character `c` -/
def strReplace (s : String) (c : Char) (t : String) : String :=
  String.ofList (s.toList.flatMap (fun ch => if ch = c then t.toList else [ch]))

end Mofun.Generated.Py

namespace Mofun.Generated.Code
open Mofun Mofun.Generated

'''


PRELUDE5 = r'''/-! fifth batch -/

/-- python `round(x)` of a float (one argument): the nearest integer, a tie goes to the EVEN neighbour -/
def round (x : Rat) : Int :=
  let fl := Rat.floor x
  let r := x - (fl : Rat)
  if r < 1 / 2 then fl else if 1 / 2 < r then fl + 1 else if fl % 2 = 0 then fl else fl + 1

/-- `d.values()` of an insertion-ordered dict, in insertion order -/
def dictValues {κ β} (d : List (κ × β)) : List β := d.map (fun p => p.2)
/-- `a.isdisjoint(b)` on sets -/
def setDisjoint {α} [DecidableEq α] (a b : List α) : Bool := a.all (fun x => !b.contains x)

/-- `x % 1.0` on a float: `x - floor(x)`, in `[0, 1)` (python / numpy `%` takes the sign of the divisor) -/
def fmod1 (x : Rat) : Rat := x - (Rat.floor x : Rat)

/-- `for x in xs: <body updating st, may break>`: the body yields the new state and whether it executed `break` -/
def forBreak {α σ} : List α → σ → (σ → α → σ × Bool) → σ
  | [], st, _ => st
  | x :: xs, st, f => if (f st x).2 then (f st x).1 else forBreak xs (f st x).1 f
/-- the same when the body may raise -/
def forBreakM? {α σ} : List α → σ → (σ → α → Option (σ × Bool)) → Option σ
  | [], st, _ => some st
  | x :: xs, st, f =>
    match f st x with
    | none => none
    | some (st', true) => some st'
    | some (st', false) => forBreakM? xs st' f

/-- `numpy.linalg.norm(v) < d` for a 3-vector: `d > 0` and `‖v‖² < d²` (no square root: exact on rationals) -/
def normLt (v : Vec3) (d : Rat) : Bool := decide (0 < d) && decide (v.x * v.x + v.y * v.y + v.z * v.z < d * d)

'''
assert PRELUDE.count("end Mofun.Generated.Py\n") == 1
PRELUDE = PRELUDE.replace("end Mofun.Generated.Py\n", PRELUDE5 + "end Mofun.Generated.Py\n")

_REPL = dict(file="mofun/mofun.py", py="replace_pattern_in_structure", slice=True, decorators=["suppress_warnings"])
_REPL_LOOP = [("if", "len(replace_pattern)"), "orelse", ("for", "enumerate(match_positions)")]     # the body of the loop over the matches

FUNCTIONS += [
    # ---- fifth batch: replace_pattern_in_structure and the search helpers
    dict(_REPL, lean="replaceUsesSample",
         fragment=[("if", "replace_fraction"), "test"], params=[("replace_fraction", NUM)], inputs={}, ret=BOOL,
         doc=" (FRAGMENT: is only a sample of the matches replaced)"),
    dict(_REPL, lean="replaceSampleSize",
         fragment=[("if", "replace_fraction"), "body", ("assign", "replace_indices"), ("callkw", ("sample", "k"))],
         params=[("replace_fraction", NUM)], inputs={}, abstractions={"len(match_positions)": ("num_matches", NAT)}, ret=INT,
         doc=" (FRAGMENT: the number of matches `random.sample` is asked for, `round(replace_fraction * len(match_positions))`)"),
    dict(_REPL, lean="replaceIndexMap", partial=True,
         fragment=_REPL_LOOP + [("ifstmt", "replace_all then structure_index_map")], keep_last=1, params=[("replace_all", BOOL)],
         inputs={"match_indices": LIST(LIST(NAT)), "m_i": NAT, "replace2search_pattern_map": DICT(NAT, NAT)},
         locals={"structure_index_map": DICT(NAT, NAT)}, call_mutates={"new_structure.extend": ["new_structure"]}, ret=DICT(NAT, NAT),
         doc=" (FRAGMENT: the structure_index_map of one match — `{}`, then for `not replace_all` the dict comprehension "
             "`{k: match_indices[m_i][v] for k, v in replace2search_pattern_map.items()}`; `none` = IndexError)"),
    dict(_REPL, lean="replaceDeleteLinker", partial=True, fragment=_REPL_LOOP + [("assign", "to_delete_linker")], params=[],
         inputs={"match_indices": LIST(LIST(NAT)), "m_i": NAT, "structure_index_map": DICT(NAT, NAT)}, ret=SET(NAT),
         doc=" (FRAGMENT: the atoms one match wants deleted, `set(match_indices[m_i]) - set(structure_index_map.values())`; `none` = IndexError)"),
    dict(_REPL, lean="replaceMergeDelete", partial=True, fragment=_REPL_LOOP + [("ifstmt", "isdisjoint then to_delete")],
         params=[("ignore_atoms_should_not_be_deleted_twice", BOOL)], inputs={"to_delete": SET(NAT), "to_delete_linker": SET(NAT)}, ret=SET(NAT),
         doc=" (FRAGMENT: the deletion set after one match — the `if to_delete.isdisjoint(…) or ignore…:` statement with both outcomes; "
             "`none` = `raise AtomsShouldNotBeDeletedTwice()`)"),
    dict(file="mofun/atoms.py", cls="Atoms", py="translate", lean="atomsTranslate", params=[("delta", VEC3)], mutates=True,
         attrs={"positions": VEC3, "__len__": NAT}, ret=None,
         doc=" for ONE atom: the new value of its row of `self.positions` (`self.positions += delta`, guarded by `len(self) > 0`)"),
    dict(_REPL, lean="replacePretranslate",
         fragment=[("stmt", "search_pattern.translate then (replace_pattern.positions[0], search_pattern.positions[0], search_pattern.positions[1])")],
         params=[], objattrs={"search_pattern": {"positions": ROWS(2), "__len__": NAT}, "replace_pattern": {"positions": ROWS(1), "__len__": NAT}},
         method_stmts={"translate": "atomsTranslate"}, ret=TUP(VEC3, VEC3, VEC3),
         doc=" (FRAGMENT on positions: the two pre-translations `replace_pattern.translate(-search_pattern.positions[0])`, "
             "`search_pattern.translate(-search_pattern.positions[0])` IN THE ORDER OF THE SOURCE; result = (a replace-pattern atom, the first "
             "search-pattern atom, any other search-pattern atom) afterwards)"),
    dict(_REPL, lean="replaceWrap", fragment=_REPL_LOOP + [("assign", "new_atoms.positions containing .dot(")], params=[],
         inputs={"cell": MAT3}, abstractions={"new_atoms.positions": ("pos", VEC3)}, ret=VEC3,
         doc=" (FRAGMENT for ONE atom: the wrap into the unit cell, `(new_atoms.positions.dot(np.linalg.inv(cell)) % 1.0).dot(cell)`; "
             "the inverse is expanded as adjugate / determinant)"),
    dict(file="mofun/atoms.py", py="find_unchanged_atom_pairs", lean="findUnchangedAtomPairs", partial=True,
         params=[("max_delta", NUM)], locals={"match_pairs": LIST(TUP(NAT, NAT))},
         objattrs={"orig_structure": {"positions": LIST(VEC3), "elements": LIST(STR)},
                   "final_structure": {"positions": LIST(VEC3), "elements": LIST(STR)}}, ret=LIST(TUP(NAT, NAT)),
         doc="; the structures are given by their position rows and their per-atom element lists (`Atoms.elements`); `none` = IndexError"),
    dict(file="mofun/helpers.py", py="atoms_of_type", lean="atomsOfType", params=[("types", LIST(STR)), ("element", STR)], ret=LIST(NAT),
         doc=": the positions of `element` in `types`, ascending"),
    dict(_REPL, lean="replaceEmptyBranch", fragment=[("if", "len(replace_pattern)"), "test"], params=[], inputs={},
         objattrs={"replace_pattern": {"__len__": NAT}}, ret=BOOL,
         doc=" (FRAGMENT: is the replacement empty, i.e. is this a pure deletion)"),
    dict(_REPL, lean="replaceEmptyDelete", fragment=[("if", "len(replace_pattern)"), "body", ("stmt", "to_delete then to_delete")], params=[],
         inputs={"to_delete": SET(NAT), "match_indices": LIST(LIST(NAT))}, ret=SET(NAT),
         doc=" (FRAGMENT: the deletion set of the empty-replacement branch, `to_delete |= set([idx for match in match_indices for idx in match])`)"),
]


PRELUDE7 = r'''
/-! seventh batch (the hints, the grouping key and the reported tuples of find_pattern_in_structure; remove_duplicates, atoms_by_type_dict) -/
/-- `{k(x): v(x) for x in xs}` over a list (or a set given as the list of its members): `d[k] = v` element by element -/
def dictCompList {α κ β} [DecidableEq κ] (xs : List α) (f : α → κ × β) : List (κ × β) :=
  xs.foldl (fun acc x => dictInsert acc (f x).1 (f x).2) []

'''
assert PRELUDE.count("end Mofun.Generated.Py\n") == 1
PRELUDE = PRELUDE.replace("end Mofun.Generated.Py\n", PRELUDE7 + "end Mofun.Generated.Py\n")

_FIND = dict(file="mofun/mofun.py", py="find_pattern_in_structure", slice=True, decorators="any")

FUNCTIONS += [
    # ---- seventh batch: find_pattern_in_structure (hints, grouping key, reported tuples) and two helpers
    dict(_FIND, lean="findGroupKey", partial=True,
         fragment=[("assign", "grouped_tuples"), ("callkw", ("group_duplicates", "key")), ("lambdabody", None)], params=[],
         inputs={"near_indices": LIST(NAT), "m": LIST(NAT)}, abstractions={"len(structure)": ("structure_len", NAT)}, ret=LIST(INT),
         doc=" (FRAGMENT: the grouping key of one candidate, the body of the `key=lambda m: …` handed to group_duplicates: "
             "`tuple(sorted([near_indices[i] % len(structure) for i in m]))`; `none` = IndexError / ZeroDivisionError)"),
    dict(_FIND, lean="findMatchTuplesInUc", partial=True, fragment=[("assign", "match_index_tuples_in_uc")], params=[],
         inputs={"near_indices": LIST(NAT), "good_match_index_tuples": LIST(LIST(NAT))},
         abstractions={"len(structure)": ("structure_len", NAT)}, ret=LIST(LIST(INT)),
         doc=" (FRAGMENT: the reported index tuples, every chosen candidate folded back into the unit cell, in pattern order; "
             "`none` = IndexError / ZeroDivisionError)"),
    dict(file="mofun/helpers.py", py="remove_duplicates", lean="removeDuplicatesFirst", slice=True, partial=True,
         generic="{α κ} [DecidableEq κ]", fragment=[("if", "pick_random"), "orelse", ("return", None)],
         params=[("match_indices", LIST(ELEM)), ("key", FUN(ELEM, KEY))], locals={"keyed_tuples": DICT(KEY, LIST(ELEM))},
         ret=LIST(ELEM),
         doc=" (FRAGMENT: the `else: # pick first` branch, after the grouping loop: the first member of every group, groups in "
             "first-seen order; `random.choice` of the other branch is not translated; `none` = KeyError / IndexError, never raised, see the theorem)"),
    dict(file="mofun/helpers.py", py="atoms_by_type_dict", lean="atomsByTypeDict", partial=True,
         params=[("atom_types", LIST(STR))], locals={"atoms_by_type": DICT(STR, LIST(NAT))}, ret=DICT(STR, LIST(NAT)),
         doc="; the dict is an association list — the ORDER of its keys follows the iteration order of a python set, which is not "
             "modelled (here: first occurrence); `none` = KeyError (never raised, see the theorem)"),
    dict(_FIND, lean="findAxisHints", fragment=[("ifstmt", "axisp1_idx is None and axisp2_idx is None then (axisp1_idx, axisp2_idx)")],
         params=[("axisp1_idx", OPT(NAT)), ("axisp2_idx", OPT(NAT))],
         abstractions={"np.unravel_index(np.argmax(p_ss, axis=None), p_ss.shape)": ("farthest_pair", TUP(NAT, NAT))},
         abstract_calls={"np.argmax(p_ss[$, :])": ("farthest_from", FUN(OPT(NAT), NAT))},
         ret=TUP(OPT(NAT), OPT(NAT)),
         doc=" (FRAGMENT: the two axis hints after the `if … elif …` that fills in the missing ones; parameters: the hints, the "
             "arg-max pair of the squared-distance table `np.unravel_index(np.argmax(p_ss, axis=None), p_ss.shape)`, and the "
             "function `x ↦ np.argmax(p_ss[x, :])` — the arg-max itself is not translated)"),
]

def render(repo=None):
    repo = repo or core.REPO
    cache, defs = {}, []
    for cfg in FUNCTIONS:
        path = os.path.join(repo, cfg["file"])
        if path not in cache:
            src = open(path).read()
            cache[path] = (src, ast.parse(src))
        src, tree = cache[path]
        defs.append(Fn(cfg, src, cfg["file"], tree).translate())
    files = {"Code.lean": PRELUDE + "\n\n".join(defs) + "\n\nend Mofun.Generated.Code\n"}
    from . import gen_code6             # batch 6 lives in its own module and writes Generated/Code6.lean
    files.update(gen_code6.render(repo))
    return files


def regenerate(repo=None, out_dir=None):
    """rewrite lean/MofunModel/Generated/Code.lean (or `out_dir`/Code.lean) when, and only when, its content changes;
    raises `Unsupported` when a function has left the supported subset"""
    files = render(repo)
    out = out_dir or OUT
    os.makedirs(out, exist_ok=True)
    changed = []
    for name, text in files.items():
        p = os.path.join(out, name)
        if not os.path.exists(p) or open(p).read() != text:
            tmp = p + ".tmp%d" % os.getpid()
            with open(tmp, "w") as f:
                f.write(text)
            os.replace(tmp, p)
            changed.append(name)
    return changed


if __name__ == "__main__":
    import sys
    print(regenerate(*(sys.argv[1:3])))
