"""Translator for code, batch 6 (container operations, bond detection, term enumeration) — a SEPARATE module over
harness/gen_code.py (same technique, same subset; see its docstring), writing

    lean/MofunModel/Generated/Code6.lean      (namespace Mofun.Generated.Code6; new primitives in Mofun.Generated.Py6)

`gen_code.render()` merges `gen_code6.render()` so that `gen_code.regenerate()` writes both files.  Code.lean is not
touched.  `Fn6` subclasses `gen_code.Fn`; everything it does not recognise is handed to the base class.

----------------------------------------------------------------------------------------------------------------
NEW CONSTRUCTS (each is trusted base; the Lean meaning is the prelude `Mofun.Generated.Py6` below)

statements
  `self.a, x = e`                         unpacking into attributes of self and locals (`mutates=True`): one `let` per target
  `self.m(...)` as a statement            only for the calls listed in `skip_stmts` (consistency ASSERTIONS: no value, no effect on
                                          the arrays; their exception is not modelled) — skipped
  falling off the end of a mutating       the method returns None: `ret=UNIT`, the result is `((), final value of every assigned
  method                                  attribute)`
  `("return", None)` as a fragment step   the value of the function's last top-level `return`
  `x = self.copy()`                       `x.attr` reads the declared attribute `attr` of self as of that statement (deep copy;
                                          a later skipped assignment to `x.attr` / `self.attr` makes it opaque as usual)
  `expose=[(callee, arg, name)]`          fragment selection inside a call STATEMENT: `callee(…)` (unique) is preceded by
                                          `name = <positional arg number | keyword arg>` so that `("assign", name)` can select it

expressions
  `np.delete(arr, idx, axis=0)`,          idx a list of python ints: `Py6.npDeleteI?` (numpy reads −k as n−k, removes a repeated
                                          index once, IndexError = `none` outside [−n, n))
  `np.take(arr, idx, axis=0)`             `Py6.npTakeI?` (negative indices wrap, repeats allowed, `none` = IndexError)
  `len(self)` (`len_method`)              a call of the generated `__len__`
  `self.m(a, b)` (`self_calls`)           a call of the generated definition of method `m` (no attributes of self passed);
                                          an argument that is a list of python ints where the callee is typed with naturals
                                          goes through `Py6.natList?` (`none` when an entry is negative: the callee's
                                          translation has no meaning there; the equivalence theorems show it does not happen)
  `range(n)`                              `List.range n`
  `np.array(np.meshgrid(a, b, c)).T.reshape(-1, 3)`   for three 1-D sequences of parametric length (also `*[f(r) for r in t]` over a
                                          3-tuple): `Py6.meshgridT3 a b c` — the rows (x, y, z) in numpy's order: z slowest, then x,
                                          then y (sequences of literal length are expanded by the base class instead)
  `X[np.any(X != 0, axis=1)]`             on an (n, 3) array of naturals: `Py6.rowsAnyNonzero3 X` (the rows with a non-zero entry)
  `if obj.attr is (not) None:`            on a declared optional attribute of a parameter object: `match obj_attr with | some … | none …`
  nested accumulation loops               a `for` loop whose body contains another `for` loop, both updating the SAME variable defined
                                          before the outer loop: nested `Py.forFold` / `Py.forFoldM?`
  `f(a, …)` (`module_calls`)              a call of the generated definition of a module-level function; the module must bind the name
                                          (a top-level `def`, or `from <module> import f`)
  `v + rows`                              a 3-vector plus an (n, 3) array (numpy broadcasting): `Py6.vecAddRows v rows`
  `xs[e:]` on a list, e a natural         `List.drop e xs`
  `distance.cdist(rows, [b], "euclidean")`  the column of distances to ONE point, kept SQUARED: `Py6.cdistSqCol rows b` of the opaque
                                          type `Py6.SqDists`; its only use is
  `np.any(ss < c)`                        `Py6.anyDistLt ss c` = `0 < c ∧ some squared distance < c²` — exactly `‖·‖ < c` without the
                                          square root (distances are ≥ 0, so for c ≤ 0 the comparison is false)
  `np.array(xs)` on a list of rows        the same rows (shape / dtype bookkeeping is not modelled: an empty list stays empty)
  `g = nx.Graph()`, `g.add_edges_from(bs)`  a networkx graph is the list of the edges added so far, in insertion order (`Py6.NxGraph`)
  `g.nodes`, `g.neighbors(n)`             `Py6.nxNodes g` (end points in first-seen order), `Py6.nxNeighbors g n` (the other end points of
                                          the edges that mention n, in insertion order, without repetition): networkx's insertion-ordered
                                          iteration, pinned by python assertions in tools/gen_code6_selftest.py
  `itertools.combinations(xs, 2)`         `Py6.combinations2 xs`: the pairs (xs[i], xs[j]), i < j, in lexicographic order of (i, j)
  `[e for (a, b) in xs]`                  a comprehension with a tuple target: `List.map (fun (a, b) => e) xs`
  `x += ys` on lists                      `x = x + ys`
  `Atoms(k1=e1, …)` (`ctor`)              the constructor call as DATA: (the sorted list of ALL keyword names passed, then for
                                          every keyword declared in `ctor["kwargs"]` `some value` / `none` = not passed);
                                          positional arguments are Unsupported
batch 8 (calc_dihedrals, the type-numbering slice of assign_bond_types / assign_angle_types)
  `g.edges`                               `Py6.nxEdges g` (networkx EdgeView iteration: nodes in order, neighbours in order, completed
                                          nodes skipped), pinned by python assertions in tools/gen_code6_selftest.py
  `g.adj[n]`                              `Py6.nxNeighbors g n`
  `xs.remove(v)` (statement)              `xs ← Py6.listRemove? xs v` (first occurrence; `none` = ValueError; partial functions only)
  `xs.index(v)`                           `Py6.listIndex? xs v` (first position; `none` = ValueError)
  `list(dict.fromkeys(xs).keys())`        `Py6.fromkeysList xs` (distinct values in first-seen order; also without `.keys()`)
  `obj.attr = e` (`objattr_assign`)       on a declared attribute of a parameter object: later reads of `obj.attr` see the new value
  `if x is not None and c:`               x an optional parameter: `if x is not None: (if c: A else: B) else: B`
  `f(xs)` for a generic callee (typekey)  the callee's element type is instantiated at the element type of `xs` (str / nat / int)
----------------------------------------------------------------------------------------------------------------
"""
import ast
import copy
import os

from . import core, gen_code
from .gen_code import (Fn, V, Unsupported, STR, NAT, INT, NUM, BOOL, VEC3, MAT3, OPAQUE, NONE, INTLIT, DECLIT,   # noqa: F401
                       LIST, SET, OPT, TUP, DICT, FUN, ELEM, _join, static_param, _lean_str)

UNIT = "unit"
SQDISTS = "sqdists"        # a column of SQUARED euclidean distances (the result of cdist; only `np.any(ss < c)` may read it)
NXGRAPH = "nxgraph"        # a networkx Graph: the edges added so far, in insertion order
_EXTRA_TYPES = {UNIT: "Unit", SQDISTS: "Py6.SqDists", NXGRAPH: "Py6.NxGraph"}


def _patched_lean_ty(orig):
    def lean_ty(t):
        if isinstance(t, str) and t in _EXTRA_TYPES:
            return _EXTRA_TYPES[t]
        return orig(t)
    return lean_ty


def all_functions():
    return gen_code.FUNCTIONS + FUNCTIONS6


def qualified(cfg):
    """the Lean name of a generated definition as written inside namespace Mofun.Generated.Code6"""
    return cfg["lean"] if cfg in FUNCTIONS6 else "Code." + cfg["lean"]


def _subst_elem(t, elem):
    """the type `t` of a generic translated function with its element type ELEM instantiated"""
    if t == ELEM:
        return elem
    if isinstance(t, tuple):
        return tuple(_subst_elem(x, elem) if isinstance(x, (str, tuple)) else x for x in t)
    return t


class Fn6(Fn):
    def _find(self):
        fn = super()._find()
        if self.cfg.get("expose"):
            fn = copy.deepcopy(fn)
            for callee, which, name in self.cfg["expose"]:
                hits = []
                for parent in ast.walk(fn):
                    for field in ("body", "orelse"):
                        body = getattr(parent, field, None)
                        if isinstance(body, list):
                            for i, st in enumerate(body):
                                if isinstance(st, ast.Expr) and isinstance(st.value, ast.Call) and ast.unparse(st.value.func) == callee:
                                    hits.append((body, i, st))
                if len(hits) != 1:
                    raise Unsupported("%s: %s: %d call statements of %s" % (self.path, self.cfg["py"], len(hits), callee))
                body, i, st = hits[0]
                call = st.value
                if isinstance(which, int):
                    if which >= len(call.args) or any(isinstance(a_, ast.Starred) for a_ in call.args):
                        raise Unsupported("%s: %s: %s has no positional argument %d" % (self.path, self.cfg["py"], callee, which))
                    val = call.args[which]
                else:
                    kws = [k.value for k in call.keywords if k.arg == which]
                    if len(kws) != 1:
                        raise Unsupported("%s: %s: %s is not called with %s=" % (self.path, self.cfg["py"], callee, which))
                    val = kws[0]
                new = ast.copy_location(ast.Assign(targets=[ast.Name(id=name, ctx=ast.Store())], value=val), st)
                ast.fix_missing_locations(new)
                body.insert(i, new)
        return fn

    # -------------------------------------------------------------- statements
    def mutated_attrs(self):
        """as the base class, but also attributes assigned through an unpacking `self.a, x = e`"""
        out = []
        for n in sorted((n for n in ast.walk(self.node) if isinstance(n, ast.Assign)), key=lambda n: (n.lineno, n.col_offset)):
            for t in n.targets:
                for u in (t.elts if isinstance(t, ast.Tuple) else [t]):
                    if isinstance(u, ast.Attribute) and isinstance(u.value, ast.Name) and u.value.id == "self" and u.attr not in out:
                        out.append(u.attr)
        order = list(self.cfg.get("attrs", {}))
        return sorted(out, key=lambda a: order.index(a) if a in order else len(order))

    def block(self, stmts, env, conts, mode):
        if not stmts and not conts and mode not in ("loop", "fold") and self.cfg.get("mutates") and self.ret == UNIT:
            # a mutating method that falls off its end returns None: ((), final values of the assigned attributes)
            outs = [env["self." + a] for a in self.mutated_attrs()]
            binds, refs = _join(*outs)
            return ("ret", V("(%s)" % ", ".join(["()"] + [o.term for o in outs]), None, (), refs))
        if not stmts and not conts and mode == "fold6":
            return ("ret", env[self.fold_state[-1]])          # the end of the code after an inner loop: the accumulated value
        return super().block(stmts, env, conts, mode)

    def stmt(self, s, rest, env, conts, mode):
        if isinstance(s, ast.Expr) and ast.unparse(s.value) in self.cfg.get("skip_stmts", ()):
            return self.block(rest, env, conts, mode)
        if isinstance(s, ast.AugAssign) and isinstance(s.op, ast.Add) and isinstance(s.target, ast.Name) and s.target.id in env and \
                isinstance(env[s.target.id].ty, tuple) and env[s.target.id].ty[0] == "list":
            # x += ys on lists
            new = ast.copy_location(ast.Assign(targets=[ast.Name(id=s.target.id, ctx=ast.Store())],
                                               value=ast.BinOp(left=ast.Name(id=s.target.id, ctx=ast.Load()), op=ast.Add(), right=s.value)), s)
            ast.fix_missing_locations(new)
            return self.block([new] + list(rest), env, conts, mode)
        if isinstance(s, ast.Expr) and isinstance(s.value, ast.Call) and isinstance(s.value.func, ast.Attribute) and \
                s.value.func.attr == "remove" and isinstance(s.value.func.value, ast.Name) and s.value.func.value.id in env and \
                isinstance(env[s.value.func.value.id].ty, tuple) and env[s.value.func.value.id].ty[0] == "list" and \
                env[s.value.func.value.id].items is None and len(s.value.args) == 1 and not s.value.keywords:
            # xs.remove(v): the first occurrence of v goes; ValueError (none) when v is not in xs
            if not self.partial:
                self.fail(s, "list.remove (may raise ValueError) in a function declared total")
            x = s.value.func.value.id
            xs = env[x]
            v = self.coerce(s, self.ex(s.value.args[0], env), xs.ty[1])
            nm = self.lname(x)
            e2 = dict(env)
            e2[x] = V(nm, xs.ty, (), {nm})
            binds = list(v.binds) + [(nm, "(Py6.listRemove? %s %s)" % (xs.term, v.term), set(xs.refs) | set(v.refs))]
            return self.with_binds(binds, self.block(rest, e2, conts, mode))
        if isinstance(s, ast.Expr) and isinstance(s.value, ast.Call) and isinstance(s.value.func, ast.Attribute) and \
                s.value.func.attr == "add_edges_from" and isinstance(s.value.func.value, ast.Name) and s.value.func.value.id in env and \
                env[s.value.func.value.id].ty == NXGRAPH and len(s.value.args) == 1 and not s.value.keywords:
            x = s.value.func.value.id
            g = env[x]
            bs = self.coerce(s, self.ex(s.value.args[0], env), LIST(TUP(NAT, NAT)))
            nm = self.lname(x)
            e2 = dict(env)
            e2[x] = V(nm, NXGRAPH, (), {nm})
            return self.with_binds(bs.binds, ("let", nm, V("(Py6.nxAddEdges %s %s)" % (g.term, bs.term), NXGRAPH, (), g.refs | bs.refs),
                                              self.block(rest, e2, conts, mode)))
        if isinstance(s, ast.Assign) and len(s.targets) == 1 and isinstance(s.targets[0], ast.Attribute) and \
                isinstance(s.targets[0].value, ast.Name) and s.targets[0].value.id in self.cfg.get("objattrs", {}) and \
                s.targets[0].attr in self.cfg["objattrs"][s.targets[0].value.id] and self.cfg.get("objattr_assign"):
            # obj.attr = e on a declared attribute of a parameter object: later reads of obj.attr see the new value
            obj, attr = s.targets[0].value.id, s.targets[0].attr
            ty = self.cfg["objattrs"][obj][attr]
            v = self.ex(s.value, env)
            if v.ty == OPAQUE:
                self.fail(s, "assignment of a value outside the subset to %s.%s" % (obj, attr))
            v = self.coerce(s, v, ty)
            nm = "%s_%s'" % (obj, attr)
            e2 = dict(env)
            e2[obj + "." + attr] = V(nm, ty, (), {nm})
            return self.with_binds(v.binds, ("let", nm, V(v.term, ty, (), v.refs), self.block(rest, e2, conts, mode)))
        if isinstance(s, ast.Assign) and len(s.targets) == 1 and isinstance(s.targets[0], ast.Name) and "self" in env and \
                ast.unparse(s.value) == "self.copy()" and s.targets[0].id not in self.cfg.get("attrs", {}):
            # x = self.copy(): a deep copy; x.attr is self.attr as of now
            x = s.targets[0].id
            e2 = dict(env)
            for key in list(e2):
                if key.startswith(x + "."):
                    del e2[key]
            e2[x] = V(x, OPAQUE)
            for attr in self.cfg.get("attrs", {}):
                if "self." + attr in env:
                    e2[x + "." + attr] = env["self." + attr]
            return self.block(rest, e2, conts, mode)
        if isinstance(s, ast.Assign) and len(s.targets) == 1 and isinstance(s.targets[0], ast.Tuple) and self.cfg.get("mutates") and \
                any(isinstance(e, ast.Attribute) for e in s.targets[0].elts):
            # self.a, x = e   ==>   u = e; self.a = u[0]; x = u[1]
            self.nunpack = getattr(self, "nunpack", 0) + 1
            u = "unpacked%d" % self.nunpack
            if u in self.pynames:
                self.fail(s, "local name %s clashes with the translator's temporaries" % u)
            new = [ast.copy_location(ast.Assign(targets=[ast.Name(id=u, ctx=ast.Store())], value=s.value), s)]
            for i, e in enumerate(s.targets[0].elts):
                if not (isinstance(e, ast.Name) or (isinstance(e, ast.Attribute) and isinstance(e.value, ast.Name) and e.value.id == "self")):
                    self.fail(s, "unpacking target %s" % ast.unparse(e))
                sub = ast.Subscript(value=ast.Name(id=u, ctx=ast.Load()), slice=ast.Constant(value=i), ctx=ast.Load())
                new.append(ast.copy_location(ast.Assign(targets=[e], value=sub), s))
            for n in new:
                ast.fix_missing_locations(n)
            return self.block(new + list(rest), env, conts, mode)
        return super().stmt(s, rest, env, conts, mode)

    def if_ir(self, s, rest, env, conts, mode):
        t = s.test
        if isinstance(t, ast.BoolOp) and isinstance(t.op, ast.And) and len(t.values) >= 2:
            t0 = t.values[0]
            if isinstance(t0, ast.Compare) and len(t0.ops) == 1 and isinstance(t0.ops[0], ast.IsNot) and isinstance(t0.left, ast.Name) and \
                    isinstance(t0.comparators[0], ast.Constant) and t0.comparators[0].value is None and t0.left.id in env and \
                    isinstance(env[t0.left.id].ty, tuple) and env[t0.left.id].ty[0] == "opt":
                # `if x is not None and c: A else: B` (python evaluates c only when x is not None)  ==>
                # `if x is not None: (if c: A else: B) else: B`
                restc = t.values[1] if len(t.values) == 2 else ast.copy_location(ast.BoolOp(op=ast.And(), values=t.values[1:]), t)
                inner = ast.copy_location(ast.If(test=restc, body=s.body, orelse=s.orelse), s)
                outer = ast.copy_location(ast.If(test=t0, body=[inner], orelse=s.orelse), s)
                ast.fix_missing_locations(outer)
                return super().if_ir(outer, rest, env, conts, mode)
        if isinstance(t, ast.Compare) and len(t.ops) == 1 and isinstance(t.ops[0], (ast.Is, ast.IsNot)) and \
                isinstance(t.comparators[0], ast.Constant) and t.comparators[0].value is None and isinstance(t.left, ast.Attribute) and \
                isinstance(t.left.value, ast.Name) and (t.left.value.id + "." + t.left.attr) in env and \
                t.left.value.id in self.cfg.get("objattrs", {}):
            key = t.left.value.id + "." + t.left.attr
            v = env[key]
            if isinstance(v.ty, tuple) and v.ty[0] == "opt":
                nm = v.term
                e_some = dict(env)
                e_some[key] = static_param(nm, v.ty[1])
                some_body, none_body = (s.orelse, s.body) if isinstance(t.ops[0], ast.Is) else (s.body, s.orelse)
                k = [rest] + list(conts)
                return ("matchopt", v, nm, self.block(some_body, e_some, k, mode), self.block(none_body, env, k, mode))
        return super().if_ir(s, rest, env, conts, mode)

    def for_ir(self, s, rest, env, conts, mode):
        if mode == "fold" and self.cfg.get("nested_loops"):
            mode = "fold6"                   # a loop inside the body of an accumulation loop
        return super().for_ir(s, rest, env, conts, mode)

    def fold_ir(self, s, rest, env, conts, mode, it, e2, pat, patnames):
        if not self.cfg.get("nested_loops"):
            return super().fold_ir(s, rest, env, conts, mode, it, e2, pat, patnames)
        # as the base class, but the body may contain further loops; all of them must update the same ONE variable
        changed = []
        for n in ast.walk(ast.Module(body=s.body, type_ignores=[])):
            if isinstance(n, (ast.Break, ast.Continue, ast.While, ast.Raise, ast.Return)):
                self.fail(n, "statement %s in a loop body" % type(n).__name__)
            tgt = None
            if isinstance(n, ast.AugAssign):
                if not isinstance(n.target, ast.Name):
                    self.fail(n, "augmented assignment target")
                tgt = n.target.id
            if isinstance(n, ast.Assign) and len(n.targets) == 1:
                t = n.targets[0]
                tgt = t.id if isinstance(t, ast.Name) else (t.value.id if isinstance(t, ast.Subscript) and isinstance(t.value, ast.Name) else None)
            if isinstance(n, ast.Expr) and isinstance(n.value, ast.Call) and isinstance(n.value.func, ast.Attribute) and n.value.func.attr == "append":
                t = n.value.func.value
                tgt = t.id if isinstance(t, ast.Name) else None
            if isinstance(n, ast.For):
                for t in ast.walk(n.target):
                    if isinstance(t, ast.Name) and t.id in env:
                        self.fail(n, "loop variable %s shadows a variable defined before the loop" % t.id)
            if tgt is not None and tgt in env and tgt not in changed:
                changed.append(tgt)
        if len(changed) != 1:
            self.fail(s, "a loop must update exactly one variable defined before it (updates: %r)" % changed)
        x = changed[0]
        init = env[x]
        nm = self.lname(x)
        e2[x] = V(nm, init.ty, (), {nm})
        self.fold_state.append(x)
        body = self.block(s.body, e2, [], "fold")
        self.fold_state.pop()
        e3 = dict(env)
        e3[x] = V(nm, init.ty, (), {nm})
        return ("fold", nm, it, pat, patnames, init, body, self.block(rest, e3, conts, mode))

    def fragment_body(self, stmts, steps, env):
        if list(steps) == [("return", None)]:
            if not stmts or not isinstance(stmts[-1], ast.Return):
                raise Unsupported("%s: %s: the function does not end with a return" % (self.path, self.cfg["py"]))
            return list(stmts)
        return super().fragment_body(stmts, steps, env)

    # -------------------------------------------------------------- expressions
    def ex_ListComp(self, node, env, want):
        g = node.generators[0] if len(node.generators) == 1 else None
        if g is not None and not g.ifs and not g.is_async and isinstance(g.target, ast.Tuple) and all(isinstance(e, ast.Name) for e in g.target.elts):
            src = self.ex(g.iter, env)
            if src.ty == OPAQUE:
                return src
            if not (isinstance(src.ty, tuple) and src.ty[0] == "list" and isinstance(src.ty[1], tuple) and src.ty[1][0] == "tuple" and
                    len(src.ty[1][1]) == len(g.target.elts)) or src.items is not None:
                self.fail(node, "comprehension with a tuple target over %s" % (src.ty,))
            e2 = dict(env)
            names = [self.lname(e.id) for e in g.target.elts]
            for e, nm, ty in zip(g.target.elts, names, src.ty[1][1]):
                e2[e.id] = V(nm, ty, (), {nm})
            body = self.ex(node.elt, e2)
            if body.ty == OPAQUE:
                return body
            if body.binds:
                self.fail(node, "comprehension element that may raise")
            if body.items is not None and body.term == "?":
                body = self.coerce(node, body, LIST(self.unify(node, [x.ty for x in body.items])))
            return V("(List.map (fun (%s) => %s) %s)" % (", ".join(names), body.term, src.term), LIST(body.ty), src.binds,
                     (body.refs - set(names)) | src.refs)
        return super().ex_ListComp(node, env, want)

    def nx_bound(self, node):
        if not any(isinstance(n, ast.Import) and any(al.name == "networkx" and al.asname == "nx" for al in n.names) for n in self.tree.body):
            self.fail(node, "nx is not networkx")

    def ex_Attribute(self, node, env, want):
        if node.attr == "nodes" and isinstance(node.value, ast.Name) and node.value.id in env and env[node.value.id].ty == NXGRAPH:
            g = env[node.value.id]
            return V("(Py6.nxNodes %s)" % g.term, LIST(NAT), g.binds, g.refs)
        if node.attr == "edges" and isinstance(node.value, ast.Name) and node.value.id in env and env[node.value.id].ty == NXGRAPH:
            g = env[node.value.id]
            return V("(Py6.nxEdges %s)" % g.term, LIST(TUP(NAT, NAT)), g.binds, g.refs)
        if isinstance(node.value, ast.Name) and node.value.id != "self" and (node.value.id + "." + node.attr) in env and \
                node.value.id in env and env[node.value.id].ty == OPAQUE and node.value.id not in self.cfg.get("objattrs", {}):
            return env[node.value.id + "." + node.attr]         # an attribute of a copy of self
        return super().ex_Attribute(node, env, want)

    def ex_BinOp(self, node, env, want):
        if isinstance(node.op, ast.Add):
            a, b = self.ex(node.left, env), self.ex(node.right, env)
            if OPAQUE in (a.ty, b.ty):
                return V.opaque()
            def rows(v):
                return v.ty == LIST(VEC3) or (v.items is not None and len(gen_code.shape_of(v)) == 2 and gen_code.shape_of(v)[1] == 3)
            if a.ty == VEC3 and (a.items is None or gen_code._atomic(a.term)) and rows(b):   # a named 3-vector (since batch 5 a loop variable of type Vec3 is a static array WITH a name)
                b = self.coerce(node, b, LIST(VEC3))
                binds, refs = _join(a, b)
                return V("(Py6.vecAddRows %s %s)" % (a.term, b.term), LIST(VEC3), binds, refs)
        return super().ex_BinOp(node, env, want)

    def ex_Subscript(self, node, env, want):
        sl = node.slice
        # g.adj[n] on a networkx graph: the neighbours of n (iterating the adjacency dict gives its keys)
        if isinstance(node.value, ast.Attribute) and node.value.attr == "adj" and isinstance(node.value.value, ast.Name) and \
                node.value.value.id in env and env[node.value.value.id].ty == NXGRAPH and not isinstance(sl, ast.Slice):
            g = env[node.value.value.id]
            n = self.ex(sl, env)
            if n.ty == OPAQUE:
                return n
            n = self.coerce(node, n, NAT)
            binds, refs = _join(g, n)
            return V("(Py6.nxNeighbors %s %s)" % (g.term, n.term), LIST(NAT), binds, refs)
        # xs[e:] on a list
        if isinstance(sl, ast.Slice) and sl.upper is None and sl.step is None and sl.lower is not None:
            base = self.ex(node.value, env)
            if base.ty == OPAQUE:
                return base
            if isinstance(base.ty, tuple) and base.ty[0] == "list" and base.items is None:
                lo = self.ex(sl.lower, env)
                if lo.ty == OPAQUE:
                    return lo
                lo = self.coerce(node, lo, NAT)
                binds, refs = _join(base, lo)
                return V("(List.drop %s %s)" % (lo.term, base.term), base.ty, binds, refs)
        # X[np.any(X != 0, axis=1)]: the rows of an (n, 3) array with a non-zero entry
        if isinstance(node.value, ast.Name) and isinstance(sl, ast.Call) and ast.unparse(sl.func) == "np.any" and "np" not in env and \
                len(sl.args) == 1 and [k.arg for k in sl.keywords] == ["axis"] and isinstance(sl.keywords[0].value, ast.Constant) and \
                sl.keywords[0].value.value == 1 and ast.unparse(sl.args[0]) == "%s != 0" % node.value.id:
            x = self.ex(node.value, env)
            if x.ty == OPAQUE:
                return x
            if x.ty == LIST(TUP(NAT, NAT, NAT)) and x.items is None:
                return V("(Py6.rowsAnyNonzero3 %s)" % x.term, x.ty, x.binds, x.refs)
            self.fail(node, "row mask on %s" % (x.ty,))
        return super().ex_Subscript(node, env, want)

    def meshgrid_args(self, call, env):
        """the arguments of np.meshgrid(...), a starred static list expanded"""
        out = []
        for a_ in call.args:
            if isinstance(a_, ast.Starred):
                v = self.ex(a_.value, env)
                if v.ty == OPAQUE:
                    return None
                if v.items is None:
                    self.fail(call, "starred argument of unknown length")
                out += [V(x.term, x.ty, v.binds if i == 0 else (), x.refs, x.items, x.lit, np=x.np) for i, x in enumerate(v.items)]
            else:
                v = self.ex(a_, env)
                if v.ty == OPAQUE:
                    return None
                out.append(v)
        return out

    def ex_Call(self, node, env, want):
        f = node.func
        kw = {k.arg: k.value for k in node.keywords}
        fname = ast.unparse(f)
        # networkx graphs, itertools.combinations
        if fname == "nx.Graph" and "nx" not in env and not node.args and not kw:
            self.nx_bound(node)
            return V("Py6.nxEmpty", NXGRAPH)
        if isinstance(f, ast.Attribute) and f.attr == "neighbors" and isinstance(f.value, ast.Name) and f.value.id in env and \
                env[f.value.id].ty == NXGRAPH and len(node.args) == 1 and not kw:
            g = env[f.value.id]
            n = self.ex(node.args[0], env)
            if n.ty == OPAQUE:
                return n
            n = self.coerce(node, n, NAT)
            binds, refs = _join(g, n)
            return V("(Py6.nxNeighbors %s %s)" % (g.term, n.term), LIST(NAT), binds, refs)
        if fname == "itertools.combinations" and "itertools" not in env and len(node.args) == 2 and not kw and \
                isinstance(node.args[1], ast.Constant) and node.args[1].value == 2:
            if not any(isinstance(n, ast.Import) and any(al.name == "itertools" and al.asname is None for al in n.names) for n in self.tree.body):
                self.fail(node, "itertools is not the standard module")
            xs = self.ex(node.args[0], env)
            if xs.ty == OPAQUE:
                return xs
            if not (isinstance(xs.ty, tuple) and xs.ty[0] == "list") or xs.items is not None:
                self.fail(node, "combinations of %s" % (xs.ty,))
            return V("(Py6.combinations2 %s)" % xs.term, LIST(TUP(xs.ty[1], xs.ty[1])), xs.binds, xs.refs)
        # list(dict.fromkeys(xs).keys()) / list(dict.fromkeys(xs)): the distinct values in first-seen order
        if fname == "list" and "list" not in env and len(node.args) == 1 and not kw:
            inner = node.args[0]
            if isinstance(inner, ast.Call) and isinstance(inner.func, ast.Attribute) and inner.func.attr == "keys" and not inner.args and not inner.keywords:
                inner = inner.func.value
            if isinstance(inner, ast.Call) and ast.unparse(inner.func) == "dict.fromkeys" and "dict" not in env and len(inner.args) == 1 and \
                    not inner.keywords:
                xs = self.ex(inner.args[0], env)
                if xs.ty == OPAQUE:
                    return xs
                if not (isinstance(xs.ty, tuple) and xs.ty[0] == "list") or xs.items is not None:
                    self.fail(node, "dict.fromkeys of %s" % (xs.ty,))
                return V("(Py6.fromkeysList %s)" % xs.term, xs.ty, xs.binds, xs.refs)
        # xs.index(v) on a list: the position of the first occurrence; ValueError (none) when there is none
        if isinstance(f, ast.Attribute) and f.attr == "index" and isinstance(f.value, ast.Name) and f.value.id in env and \
                isinstance(env[f.value.id].ty, tuple) and env[f.value.id].ty[0] == "list" and env[f.value.id].items is None and \
                len(node.args) == 1 and not kw:
            xs = env[f.value.id]
            v = self.ex(node.args[0], env)
            if v.ty == OPAQUE:
                return v
            v = self.coerce(node, v, xs.ty[1])
            binds, refs = _join(xs, v)
            r = self.rebind("(Py6.listIndex? %s %s)" % (xs.term, v.term), NAT, refs)
            return V(r.term, NAT, binds + r.binds, r.refs)
        # range(n)
        if fname == "range" and "range" not in env and len(node.args) == 1 and not kw:
            n = self.ex(node.args[0], env)
            if n.ty == OPAQUE:
                return n
            n = self.coerce(node, n, NAT)
            return V("(List.range %s)" % n.term, LIST(NAT), n.binds, n.refs)
        # a module-level function translated separately
        mcalls = self.cfg.get("module_calls", {})
        if isinstance(f, ast.Name) and f.id in mcalls and f.id not in env and not kw:
            lean, module = mcalls[f.id]
            bound = False
            for n in self.tree.body:
                if module is None and isinstance(n, ast.FunctionDef) and n.name == f.id:
                    bound = True
                if module is not None and isinstance(n, ast.ImportFrom) and n.module == module and n.level == 0 and \
                        any(al.name == f.id and al.asname in (None, f.id) for al in n.names):
                    bound = True
                if isinstance(n, ast.Assign) and any(isinstance(t, ast.Name) and t.id == f.id for t in n.targets):
                    self.fail(node, "%s is re-bound at module level" % f.id)
            if not bound or f.id in self.locals_assigned:
                self.fail(node, "%s is not bound at module level to the translated function" % f.id)
            other = [c for c in all_functions() if c["lean"] == lean][0]
            if other["py"] != f.id or other.get("cls") or other.get("fragment") or other.get("slice"):
                self.fail(node, "%s is not a translated module-level function" % f.id)
            args = [self.ex(a_, env) for a_ in node.args]
            if any(a_.ty == OPAQUE for a_ in args):
                return V.opaque()
            if len(args) != len(other["params"]):
                self.fail(node, "call of %s with %d arguments" % (f.id, len(args)))
            ptys, rty = [t for _, t in other["params"]], other["ret"]
            if any(t == LIST(ELEM) for t in ptys):
                # a generic callee (typekey): its element type is that of the list passed
                elems = {a_.ty[1] for a_, t in zip(args, ptys) if t == LIST(ELEM) and isinstance(a_.ty, tuple) and a_.ty[0] == "list"}
                if len(elems) != 1 or not elems <= {STR, NAT, INT}:
                    self.fail(node, "call of the generic %s with element types %r" % (f.id, sorted(map(str, elems))))
                elem = elems.pop()
                ptys, rty = [_subst_elem(t, elem) for t in ptys], _subst_elem(rty, elem)
            args = [self.coerce(node, a_, t) for a_, t in zip(args, ptys)]
            binds, refs = _join(*args)
            term = "(%s %s)" % (qualified(other), " ".join(a_.term for a_ in args))
            if other.get("partial"):
                r = self.rebind(term, rty, refs)
                return V(r.term, rty, binds + r.binds, r.refs)
            return V(term, rty, binds, refs)
        # distance.cdist(rows, [b], "euclidean"): the column of SQUARED distances to one point
        if fname == "distance.cdist" and "distance" not in env and not kw and len(node.args) == 3 and \
                isinstance(node.args[2], ast.Constant) and node.args[2].value == "euclidean" and \
                isinstance(node.args[1], ast.List) and len(node.args[1].elts) == 1:
            if not any(isinstance(n, ast.ImportFrom) and n.module == "scipy.spatial" and any(al.name == "distance" and al.asname is None for al in n.names)
                       for n in self.tree.body):
                self.fail(node, "distance is not scipy.spatial.distance")
            rows_, b = self.ex(node.args[0], env), self.ex(node.args[1].elts[0], env)
            if OPAQUE in (rows_.ty, b.ty):
                return V.opaque()
            if rows_.ty != LIST(VEC3) or b.ty != VEC3:
                self.fail(node, "cdist(%s, [%s])" % (rows_.ty, b.ty))
            b = self.coerce(node, b, VEC3)
            binds, refs = _join(rows_, b)
            return V("(Py6.cdistSqCol %s %s)" % (rows_.term, b.term), SQDISTS, binds, refs)
        # np.any(ss < c) on such a column
        if fname == "np.any" and "np" not in env and not kw and len(node.args) == 1 and isinstance(node.args[0], ast.Compare) and \
                len(node.args[0].ops) == 1 and isinstance(node.args[0].ops[0], ast.Lt):
            left = self.ex(node.args[0].left, env)
            if left.ty == SQDISTS:
                c = self.ex(node.args[0].comparators[0], env)
                if c.ty == OPAQUE:
                    return c
                c = self.coerce(node, c, NUM)
                binds, refs = _join(left, c)
                return V("(Py6.anyDistLt %s %s)" % (left.term, c.term), BOOL, binds, refs)
        # np.array(xs) on a list of rows of parametric length: the same rows
        if fname == "np.array" and "np" not in env and not kw and len(node.args) == 1 and self.cfg.get("np_array_rows"):
            a = self.ex(node.args[0], env)
            if a.ty == OPAQUE:
                return a
            if a.items is None and isinstance(a.ty, tuple) and a.ty[0] == "list" and isinstance(a.ty[1], tuple) and a.ty[1][0] == "list":
                return a
        # np.array(np.meshgrid(a, b, c)).T.reshape(-1, 3) for sequences of parametric length
        if isinstance(f, ast.Attribute) and f.attr == "reshape" and not kw and [ast.unparse(a_) for a_ in node.args] == ["-1", "3"] and \
                isinstance(f.value, ast.Attribute) and f.value.attr == "T" and isinstance(f.value.value, ast.Call) and \
                ast.unparse(f.value.value.func) == "np.array" and "np" not in env and len(f.value.value.args) == 1 and \
                not f.value.value.keywords and isinstance(f.value.value.args[0], ast.Call) and \
                ast.unparse(f.value.value.args[0].func) == "np.meshgrid" and not f.value.value.args[0].keywords:
            saved = self.ntmp
            args = self.meshgrid_args(f.value.value.args[0], env)
            if args is None:
                return V.opaque()
            if len(args) == 3 and all(a_.items is None and isinstance(a_.ty, tuple) and a_.ty[0] == "list" for a_ in args) and \
                    len({a_.ty for a_ in args}) == 1:
                binds, refs = _join(*args)
                ety = args[0].ty[1]
                return V("(Py6.meshgridT3 %s)" % " ".join(a_.term for a_ in args), LIST(TUP(ety, ety, ety)), binds, refs)
            self.ntmp = saved                 # sequences of literal length: the base class expands them
        # np.delete(arr, idx, axis=0) / np.take(arr, idx, axis=0) with a list of python ints
        if fname in ("np.delete", "np.take") and "np" not in env and len(node.args) == 2 and set(kw) == {"axis"} and \
                isinstance(kw["axis"], ast.Constant) and kw["axis"].value == 0:
            a, idx = self.ex(node.args[0], env), self.ex(node.args[1], env)
            if OPAQUE in (a.ty, idx.ty):
                return V.opaque()
            if isinstance(a.ty, tuple) and a.ty[0] == "list" and a.items is None and idx.ty == LIST(INT):
                binds, refs = _join(a, idx)
                prim = "Py6.npDeleteI?" if fname == "np.delete" else "Py6.npTakeI?"
                r = self.rebind("(%s %s %s)" % (prim, a.term, idx.term), a.ty, refs)
                return V(r.term, a.ty, binds + r.binds, r.refs)
            if fname == "np.take":
                self.fail(node, "np.take(%s, %s, axis=0)" % (a.ty, idx.ty))
        # len(self) through the translated __len__
        if isinstance(f, ast.Name) and f.id == "len" and "len" not in env and len(node.args) == 1 and not kw and \
                isinstance(node.args[0], ast.Name) and node.args[0].id == "self" and self.cfg.get("len_method"):
            other = [c for c in all_functions() if c["lean"] == self.cfg["len_method"]][0]
            args = []
            for a_ in other["attrs"]:
                if "self." + a_ not in env:
                    self.fail(node, "__len__ reads self.%s, which is not declared for %s" % (a_, self.cfg["py"]))
                args.append(env["self." + a_])
            binds, refs = _join(*args)
            return V("(%s %s)" % (other["lean"], " ".join(a_.term for a_ in args)), other["ret"], binds, refs)
        # self.m(args) for a method translated separately
        if isinstance(f, ast.Attribute) and isinstance(f.value, ast.Name) and f.value.id == "self" and "self" in env and \
                f.attr in self.cfg.get("self_calls", {}) and not kw:
            other = [c for c in all_functions() if c["lean"] == self.cfg["self_calls"][f.attr]][0]
            if other.get("attrs") or other["py"] != f.attr:
                self.fail(node, "method %s reads attributes of self" % f.attr)
            args = [self.ex(a_, env) for a_ in node.args]
            if any(a_.ty == OPAQUE for a_ in args):
                return V.opaque()
            if len(args) != len(other["params"]):
                self.fail(node, "call of %s with %d arguments" % (f.attr, len(args)))
            args = [self.coerce_arg(node, a_, t) for a_, (_, t) in zip(args, other["params"])]
            binds, refs = _join(*args)
            term = "(%s %s)" % (qualified(other), " ".join(a_.term for a_ in args))
            if other.get("partial"):
                r = self.rebind(term, other["ret"], refs)
                return V(r.term, other["ret"], binds + r.binds, r.refs)
            return V(term, other["ret"], binds, refs)
        # the constructor call as data
        ctor = self.cfg.get("ctor")
        if ctor and isinstance(f, ast.Name) and f.id == ctor["name"] and f.id not in env:
            if node.args or any(k.arg is None for k in node.keywords):
                self.fail(node, "positional / starred arguments of %s(…)" % f.id)
            names = sorted(kw)
            comps = [V("[%s]" % ", ".join(_lean_str(n) for n in names), LIST(STR))]
            for name, ty in ctor["kwargs"]:
                if name in kw:
                    v = self.ex(kw[name], env)
                    if v.ty == OPAQUE:
                        return V.opaque()
                    v = self.coerce(node, v, ty)
                    comps.append(V("(some %s)" % v.term, OPT(ty), v.binds, v.refs))
                else:
                    comps.append(V("none", OPT(ty)))
            binds, refs = _join(*comps)
            return V("(%s)" % ", ".join(c.term for c in comps), TUP(*[c.ty for c in comps]), binds, refs)
        return super().ex_Call(node, env, want)

    def coerce_arg(self, node, v, ty):
        """an argument of a call of a translated method: python ints used where the callee's translation is typed with naturals"""
        if v.ty == LIST(INT) and ty == LIST(NAT) and v.items is None:
            r = self.rebind("(Py6.natList? %s)" % v.term, LIST(NAT), v.refs)
            return V(r.term, LIST(NAT), v.binds + r.binds, r.refs)
        return self.coerce(node, v, ty)


# ------------------------------------------------------------------ what is translated

_KINDS = ["bond", "angle", "dihedral", "improper"]
_ROWS = LIST(LIST(STR))
_DELITEM_ATTRS = dict(
    [("positions", LIST(VEC3)), ("atom_types", LIST(NAT)), ("charges", LIST(NUM)), ("groups", LIST(INT)), ("extra_atom_fields", _ROWS)] +
    [kv for k in _KINDS for kv in (("%ss" % k, LIST(LIST(NAT))), ("%s_types" % k, LIST(NAT)), ("extra_%s_fields" % k, _ROWS))])

FUNCTIONS6 = [
    # ---- item 1: Atoms.__delitem__ as a whole
    dict(file="mofun/atoms.py", cls="Atoms", py="__len__", lean="atomsLen", params=[], attrs={"positions": LIST(VEC3)}, ret=NAT),
    dict(file="mofun/atoms.py", cls="Atoms", py="__delitem__", lean="delitem", params=[("indices", LIST(INT))], mutates=True, partial=True,
         attrs=_DELITEM_ATTRS, ret=UNIT, len_method="atomsLen",
         self_calls={"_delete_and_reindex_atom_index_array": "deleteAndReindex"},
         skip_stmts=["self.assert_arrays_are_consistent_sizes()"],
         doc=": ((), then the new value of every attribute it assigns, in the order positions, atom_types, charges, groups, "
             "extra_atom_fields, then bonds, bond_types, extra_bond_fields and the same for angles, dihedrals, impropers); "
             "2-D arrays are lists of rows; `none` = IndexError of np.delete / ZeroDivisionError; the final consistency assertion is not translated"),
    # ---- item 2: Atoms.__getitem__
    dict(file="mofun/atoms.py", cls="Atoms", py="__getitem__", lean="getitem", slice=True, partial=True,
         fragment=[("return", None)], params=[], inputs={"idx": LIST(INT)},
         attrs={"positions": LIST(VEC3), "atom_types": LIST(NAT), "charges": LIST(NUM), "groups": LIST(INT),
                "atom_type_masses": LIST(NUM), "atom_type_elements": LIST(STR), "atom_type_labels": LIST(STR), "cell": OPT(MAT3)},
         ctor=dict(name="Atoms", kwargs=[("positions", LIST(VEC3)), ("atom_types", LIST(NAT)), ("charges", LIST(NUM)), ("groups", LIST(INT)),
                                         ("atom_type_masses", LIST(NUM)), ("atom_type_elements", LIST(STR)),
                                         ("atom_type_labels", LIST(STR)), ("cell", OPT(MAT3))]),
         ret=TUP(LIST(STR), OPT(LIST(VEC3)), OPT(LIST(NAT)), OPT(LIST(NUM)), OPT(LIST(INT)), OPT(LIST(NUM)), OPT(LIST(STR)),
                 OPT(LIST(STR)), OPT(OPT(MAT3))),
         doc=" (FRAGMENT: the returned constructor call for a given integer index array `idx` = `np.array(i, ndmin=1)`, as data: "
             "the sorted names of ALL keywords passed, then `some value` for positions, atom_types, charges, groups, atom_type_masses, "
             "atom_type_elements, atom_type_labels, cell; `none` = IndexError of np.take)"),
]

_N3 = TUP(NAT, NAT, NAT)
_EXPOSE = [("transatoms.translate", 0, "translate_arg"), ("repl_atoms.extend", "offsets", "extend_offsets")]

FUNCTIONS6 += [
    # ---- item 3: Atoms.replicate (its cell is `replicateCell` of Generated/Code.lean)
    dict(file="mofun/atoms.py", cls="Atoms", py="replicate", lean="replicateMults", slice=True,
         fragment=[("stmt", "np.any(ucmults != 0, axis=1) then ucmults")], params=[("repldims", _N3)], attrs={"cell": MAT3}, ret=LIST(_N3),
         doc=" (FRAGMENT: the image multipliers in the order of the loop, "
             "`np.array(np.meshgrid(*[range(r) for r in repldims])).T.reshape(-1, 3)` with the rows `[0, 0, 0]` removed)"),
    dict(file="mofun/atoms.py", cls="Atoms", py="replicate", lean="replicateShift", slice=True, expose=_EXPOSE,
         fragment=[("for", "ucmults"), ("assign", "translate_arg")], params=[("repldims", _N3)], loopvars={"ucmult": _N3},
         attrs={"cell": MAT3}, ret=VEC3,
         doc=" (FRAGMENT: the vector handed to `transatoms.translate` for one multiplier row `ucmult`, "
             "`np.matmul(transatoms.cell.T, ucmult)` with `transatoms = self.copy()`)"),
    dict(file="mofun/atoms.py", cls="Atoms", py="replicate", lean="replicateOffsets", slice=True, expose=_EXPOSE,
         fragment=[("for", "ucmults"), ("assign", "extend_offsets")], params=[("repldims", _N3)], loopvars={"ucmult": _N3},
         attrs={"cell": MAT3}, ret=TUP(NAT, NAT, NAT, NAT, NAT),
         doc=" (FRAGMENT: the `offsets=` keyword of the `repl_atoms.extend` call of every image)"),
]

FUNCTIONS6 += [
    # ---- item 4: detect_bonds (max_bond_length and uc_neighbor_offsets are in Generated/Code.lean)
    dict(file="mofun/detect_bonds.py", py="detect_bonds", lean="detectBonds", params=[], partial=True, nested_loops=True, np_array_rows=True,
         objattrs={"structure": {"elements": LIST(STR), "positions": LIST(VEC3), "cell": OPT(MAT3)}},
         module_calls={"uc_neighbor_offsets": ("ucNeighborOffsets", "mofun"), "max_bond_length": ("maxBondLength", None)},
         locals={"bonds": LIST(LIST(NAT))}, ret=LIST(LIST(NAT)),
         doc=": the rows `[idx1, idx2]` in the order they are appended; `cdist` + `np.any(ss < cutoff)` is the sqrt-free comparison "
             "`0 < cutoff ∧ ‖image − atom2‖² < cutoff²` (Py6.cdistSqCol / Py6.anyDistLt); `none` = KeyError of max_bond_length / IndexError"),
]

FUNCTIONS6 += [
    # ---- item 5 (first half): calc_angles
    dict(file="mofun/rough_uff.py", py="calc_angles", lean="calcAngles", params=[("bonds", LIST(TUP(NAT, NAT)))], nested_loops=True,
         np_array_rows=True, locals={"angles": LIST(LIST(NAT))}, ret=LIST(LIST(NAT)),
         doc="; `bonds` is the list of the rows of the (n, 2) array; the result is the list of the rows `(a, n, b)` in the order they are appended"),
]

FUNCTIONS6 += [
    # ---- batch 8, item 1: calc_dihedrals
    dict(file="mofun/rough_uff.py", py="calc_dihedrals", lean="calcDihedrals", params=[("bonds", LIST(TUP(NAT, NAT)))], nested_loops=True,
         partial=True, np_array_rows=True, locals={"dihedrals": LIST(LIST(NAT))}, ret=LIST(LIST(NAT)),
         doc="; `bonds` is the list of the rows of the (n, 2) array; the result is the list of the rows `(a1, a, b, b1)` in the order they are "
             "appended; `none` = ValueError of `list.remove` (the equivalence theorem shows it does not happen)"),
]

FUNCTIONS6 += [
    # ---- batch 8, item 2: the type-numbering slice of assign_bond_types / assign_angle_types
    dict(file="mofun/rough_uff.py", py="assign_bond_types", lean="assignBondTypeIds", slice=True, partial=True, objattr_assign=True,
         fragment=[("stmt", "atoms.bond_types = then (atoms.bonds, atoms.bond_types)")],
         params=[("uff_atom_types", LIST(STR)), ("exclude", OPT(SET(NAT)))],
         objattrs={"atoms": {"bonds": LIST(LIST(NAT)), "bond_types": LIST(NAT)}},
         module_calls={"typekey": ("typekey", "mofun.helpers"), "delete_if_all_in_set": ("deleteIfAllInSet", None)},
         ret=TUP(LIST(LIST(NAT)), LIST(NAT)),
         doc=" (FRAGMENT: the type-numbering slice — the `exclude` guard (`len(exclude) >= 2`, exclude a python set) with "
             "`delete_if_all_in_set`, the keys `typekey([uff_atom_types[a] for a in atup])`, their first-seen unique list, the position of "
             "every key in it; the result is (atoms.bonds, atoms.bond_types) right after the assignment of atoms.bond_types; "
             "`none` = IndexError of `uff_atom_types[a]` / ValueError of `list.index`)"),
    dict(file="mofun/rough_uff.py", py="assign_angle_types", lean="assignAngleTypeIds", slice=True, partial=True, objattr_assign=True,
         fragment=[("stmt", "atoms.angle_types = then (atoms.angles, atoms.angle_types)")],
         params=[("uff_atom_types", LIST(STR)), ("exclude", OPT(SET(NAT)))],
         objattrs={"atoms": {"angles": LIST(LIST(NAT)), "angle_types": LIST(NAT)}},
         module_calls={"typekey": ("typekey", "mofun.helpers"), "delete_if_all_in_set": ("deleteIfAllInSet", None)},
         ret=TUP(LIST(LIST(NAT)), LIST(NAT)),
         doc=" (FRAGMENT: the type-numbering slice — the `exclude` guard (`len(exclude) >= 3`, exclude a python set) with "
             "`delete_if_all_in_set`, the keys `typekey([uff_atom_types[a] for a in atup])`, their first-seen unique list, the position of "
             "every key in it; the result is (atoms.angles, atoms.angle_types) right after the assignment of atoms.angle_types; "
             "`none` = IndexError of `uff_atom_types[a]` / ValueError of `list.index`)"),
]

PRELUDE6 = r'''/- GENERATED on every run by harness/gen_code6.py from the sources of /repo — do not edit.
   Python → Lean translation, batch 6 (container operations, bond detection, term enumeration); the supported subset is
   documented in gen_code.py and gen_code6.py.  `Mofun.Generated.Py6` is the fixed prelude of the primitives this batch adds;
   `Mofun.Generated.Code6` holds one definition per translated python function / fragment. -/
import MofunModel.Generated.Code

namespace Mofun.Generated.Py6
open Mofun Mofun.Generated

/-- numpy's reading of ONE python int as an index into an axis of length `n`: `0 ≤ i < n` is itself, `−n ≤ i < 0` is `n + i`,
    anything else is an IndexError (`none`) -/
def npIndex? (n : Nat) (i : Int) : Option Nat :=
  if 0 ≤ i ∧ i < (n : Int) then some i.toNat
  else if -(n : Int) ≤ i ∧ i < 0 then some (i + (n : Int)).toNat
  else none

/-- `np.delete(arr, idx, axis=0)` for a list of python ints: every index is read as numpy reads it, a row listed twice is
    removed once; `none` = IndexError (raised before anything is removed) -/
def npDeleteI? {α} (arr : List α) (idx : List Int) : Option (List α) :=
  match Py.listMapM? idx (npIndex? arr.length) with
  | none => none
  | some js => some (deleteIdx arr js)

/-- `np.take(arr, idx, axis=0)` for a list of python ints: the rows in the order (and with the repetitions) of `idx`;
    `none` = IndexError -/
def npTakeI? {α} (arr : List α) (idx : List Int) : Option (List α) :=
  Py.listMapM? idx (fun i => match npIndex? arr.length i with
    | none => none
    | some j => arr[j]?)

/-- python ints handed to a translation that is typed with naturals (atom ids, row indices); `none` = a negative entry,
    for which that translation has no meaning -/
def natList? (xs : List Int) : Option (List Nat) :=
  Py.listMapM? xs (fun i => if 0 ≤ i then some i.toNat else none)

/-- `np.array(np.meshgrid(xs, ys, zs)).T.reshape(-1, 3)` for three 1-D sequences: the rows `(x, y, z)` in the order numpy
    produces them — `meshgrid` (default `indexing='xy'`) gives three arrays of shape (len ys, len xs, len zs), `.T` reverses
    all axes of the stacked (3, ·, ·, ·) array, `reshape(-1, 3)` reads it row-major: z varies slowest, then x, then y -/
def meshgridT3 {α} (xs ys zs : List α) : List (α × α × α) :=
  zs.flatMap (fun k => xs.flatMap (fun i => ys.map (fun j => (i, j, k))))

/-- `rows[np.any(rows != 0, axis=1)]` on an (n, 3) array of naturals: the rows with a non-zero entry, in order -/
def rowsAnyNonzero3 (rows : List (Nat × Nat × Nat)) : List (Nat × Nat × Nat) :=
  rows.filter (fun m => m.1 != 0 || m.2.1 != 0 || m.2.2 != 0)

/-- `v + rows` for a 3-vector and an (n, 3) array (numpy broadcasting): `v` added to every row -/
def vecAddRows (v : Vec3) (rows : List Vec3) : List Vec3 := rows.map (fun o => Vec3.add v o)

/-- the result of `distance.cdist(rows, [b], "euclidean")`, an (n, 1) array of distances, kept as the SQUARED distances
    (no square root in the rational model); the translator gives it a type of its own so that nothing but `anyDistLt` reads it -/
structure SqDists where
  sq : List Rat

/-- `distance.cdist(rows, [b], "euclidean")`: entry k is `‖rows[k] − b‖`, stored as `‖rows[k] − b‖²` -/
def cdistSqCol (rows : List Vec3) (b : Vec3) : SqDists := ⟨rows.map (fun r => Vec3.normSq (Vec3.sub r b))⟩

/-- `np.any(ss < c)` for such a column: some distance is STRICTLY below `c`.  For reals `d ≥ 0`: `d < c ⟺ 0 < c ∧ d² < c²`;
    this is exactly that statement on the squares (no distance is below a cutoff `c ≤ 0`) -/
def anyDistLt (ss : SqDists) (c : Rat) : Bool := decide (0 < c) && ss.sq.any (fun d => decide (d < c * c))

/-- a networkx `Graph` built by `add_edges_from`: the edges added so far, in insertion order -/
structure NxGraph where
  edges : List (Nat × Nat)

/-- `nx.Graph()` -/
def nxEmpty : NxGraph := ⟨[]⟩
/-- `g.add_edges_from(bonds)` -/
def nxAddEdges (g : NxGraph) (bonds : List (Nat × Nat)) : NxGraph := ⟨g.edges ++ bonds⟩

/-- `list(g.nodes)`: the end points of the edges in first-seen order (dicts keep insertion order) -/
def nxNodes (g : NxGraph) : List Nat := dedup (g.edges.flatMap (fun e => [e.1, e.2]))

/-- `list(g.neighbors(n))` = `list(g.adj[n])`: the other end points of the edges that mention `n`, in insertion order, without
    repetition, direction ignored (a self-loop `(n, n)` puts `n` into its own list) -/
def nxNeighbors (g : NxGraph) (n : Nat) : List Nat :=
  dedup (g.edges.filterMap (fun e => if e.1 = n then some e.2 else if e.2 = n then some e.1 else none))

/-- networkx `EdgeView.__iter__` (`seen = {}; for n, nbrs in adjacency: for nbr in nbrs: if nbr not in seen: yield (n, nbr); seen[n] = 1`):
    `seen` = the nodes already completed -/
def nxEdgesFrom (g : NxGraph) : List Nat → List Nat → List (Nat × Nat)
  | [], _ => []
  | n :: rest, seen =>
      ((nxNeighbors g n).filter (fun m => !seen.contains m)).map (fun m => (n, m)) ++ nxEdgesFrom g rest (n :: seen)

/-- `list(g.edges)`: for every node `n` in the order of `g.nodes`, `(n, m)` for every neighbour `m` of `n` (in the order of `g.adj[n]`)
    that is not a node already completed — every undirected edge once, seen from its first-listed end point; a self-loop once, as `(n, n)` -/
def nxEdges (g : NxGraph) : List (Nat × Nat) := nxEdgesFrom g (nxNodes g) []

/-- `xs.remove(v)` on a list: the first occurrence of `v` is removed; `none` = ValueError (`v` is not in `xs`) -/
def listRemove? {α} [DecidableEq α] (xs : List α) (v : α) : Option (List α) :=
  if xs.contains v then some (xs.erase v) else none

/-- `list(dict.fromkeys(xs).keys())` = `list(dict.fromkeys(xs))`: the distinct values of `xs` in first-seen order (dicts keep
    insertion order; a key seen again keeps its first position) -/
def fromkeysList {α} [DecidableEq α] (xs : List α) : List α := dedup xs

/-- `xs.index(v)` on a list: the position of the first occurrence of `v`; `none` = ValueError (`v` is not in `xs`) -/
def listIndex? {α} [DecidableEq α] (xs : List α) (v : α) : Option Nat := indexOf? xs v

/-- `itertools.combinations(xs, 2)`: `(xs[i], xs[j])` for `i < j`, in lexicographic order of `(i, j)` -/
def combinations2 {α} : List α → List (α × α)
  | [] => []
  | x :: xs => xs.map (fun y => (x, y)) ++ combinations2 xs

end Mofun.Generated.Py6

namespace Mofun.Generated.Code6
open Mofun Mofun.Generated Mofun.Generated.Code

'''


def render(repo=None):
    repo = repo or core.REPO
    cache, defs = {}, []
    orig = gen_code.lean_ty
    gen_code.lean_ty = _patched_lean_ty(orig)
    try:
        for cfg in FUNCTIONS6:
            path = os.path.join(repo, cfg["file"])
            if path not in cache:
                src = open(path).read()
                cache[path] = (src, ast.parse(src))
            src, tree = cache[path]
            defs.append(Fn6(cfg, src, cfg["file"], tree).translate())
    finally:
        gen_code.lean_ty = orig
    return {"Code6.lean": PRELUDE6 + "\n\n".join(defs) + "\n\nend Mofun.Generated.Code6\n"}


if __name__ == "__main__":
    import sys
    print(gen_code.regenerate(*(sys.argv[1:3])))
