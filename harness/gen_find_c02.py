"""Generator for the completeness / invariance checks of the pattern search (C02, C03).

Built on the frozen helpers of `findlib` (patterns, rational rotations, cells) but with its own planting routine that
repairs the weaknesses of `findlib.planted_structure` for a COMPLETENESS oracle:

* a mirror image of an ACHIRAL pattern is a genuine occurrence -> it is planted (counted), a mirror DECOY is only
  used for chiral patterns;
* a near miss changes one interatomic DISTANCE by 3..5 atol (displacement along a bond direction);
* same-element single atoms next to a one-atom pattern are occurrences -> counted;
* after planting, an independent brute-force enumeration (`brute_occurrences`: all tuples of atoms x images in
  {-2..2}^3 by plain Euclidean distances, best proper rigid fit by SVD) classifies every atom group as
  "well inside" / "clearly outside" / "ambiguous".  A case is only used when the groups well inside are exactly the
  planted ones and no group is ambiguous, so that "reported key set == planted key set" asks for nothing the
  property does not state.
"""
import itertools
import math
from fractions import Fraction

import numpy as np

from . import findlib as fl

CHIRAL = {"chiral", "asym4", "asym5"}          # patterns whose mirror image is NOT an occurrence

# Patterns whose FIRST atoms are symmetry-related while only some of the orderings can be rotated into place (the
# others are mirror images): non-planar, mirror-only symmetric (CH2FCl-like, the two H first; the mirror plane y = 0
# holds C, F, Cl) and C3v (CH3F-like, the three H first).  Each copy then yields candidate tuples from SEVERAL start
# atoms, some passing the rotation check and some not — how they are grouped matters (helpers.group_duplicates).
MIRROR_FIRST = {
    "h2cfcl": (["H", "H", "C", "F", "Cl"], [(-0.5, 0.875, -0.375), (-0.5, -0.875, -0.375), (0, 0, 0), (0, 0, 1.375),
                                            (1.625, 0, -0.625)]),
    "h2cclf": (["H", "H", "C", "Cl", "F"], [(0.5, 0.875, -0.25), (0.5, -0.875, -0.25), (0, 0, 0), (-1.25, 0, -0.875),
                                            (0.125, 0, 1.375)]),
    "h3cf": (["H", "H", "H", "C", "F"], [(1, 0, -0.375), (-0.5, 0.875, -0.375), (-0.5, -0.875, -0.375), (0, 0, 0),
                                         (0, 0, 1.375)]),
}
for _name, _val in MIRROR_FIRST.items():
    fl.PATTERNS.setdefault(_name, _val)
POSES = ["random", "identity", "axis90", "axis180", "anti"]
FRACS = [0.0, 0.01, 0.5, 0.99, 0.999]
CELLS = ["ortho", "tri+", "tri-", "rot", "upper", "sparse", "ortho-1", "ortho-2", "ortho-3", "neg-mixed"]


# ------------------------------------------------------------------ independent specification of "occurrence"

def kabsch_proper(P, X):
    """best proper rotation + translation carrying the points P onto X (least squares). Returns (maxdev, rmsd)."""
    P = np.asarray(P, dtype=float)
    X = np.asarray(X, dtype=float)
    if len(P) == 1:
        return 0.0, 0.0
    pc, xc = P.mean(axis=0), X.mean(axis=0)
    H = (P - pc).T @ (X - xc)
    U, S, Vt = np.linalg.svd(H)
    d = np.sign(np.linalg.det(Vt.T @ U.T))
    if d == 0:
        d = 1.0
    R = Vt.T @ np.diag([1.0, 1.0, d]) @ U.T
    dev = (R @ (P - pc).T).T + xc - X
    n = np.linalg.norm(dev, axis=1)
    return float(n.max()), float(math.sqrt((n ** 2).mean()))


def brute_occurrences(elems, pos, cell, pelems, ppos, atol, loose=4.0, inside=0.25, span=2):
    """independent enumeration of the atom groups that are / are not occurrences of the pattern.

    Returns (inside_keys, ambiguous_keys): sets of sorted index tuples.
      inside    : some ordering + image choice fits a proper rigid motion with every atom within `inside`*atol
      ambiguous : not inside, but some ordering is not CLEARLY outside (clearly outside = a pairwise distance off by
                  more than 1.5 atol, or best proper least-squares fit with rmsd > 2 atol — the code accepts only
                  per-coordinate deviations <= atol + 1e-5|x|, i.e. rmsd <= sqrt(3) atol (1+small))"""
    n = len(elems)
    pos = np.asarray(pos, dtype=float).reshape(n, 3)
    cell = np.asarray(cell, dtype=float)
    P = np.asarray(ppos, dtype=float).reshape(len(pelems), 3)
    k = len(pelems)
    pd = np.linalg.norm(P[:, None, :] - P[None, :, :], axis=2)
    D = pd.max() + loose * atol
    mult = np.array(list(itertools.product(range(-span, span + 1), repeat=3)), dtype=float)
    offs = mult @ cell
    allpos = (pos[None, :, :] + offs[:, None, :]).reshape(-1, 3)
    allidx = np.tile(np.arange(n), len(offs))
    allel = np.array(list(elems) * len(offs))
    inside_keys, amb_keys, seen_tuples = set(), set(), 0
    for a in range(n):
        if elems[a] != pelems[0]:
            continue
        if k == 1:
            inside_keys.add((a,))
            continue
        dist_a = np.linalg.norm(allpos - pos[a], axis=1)
        cand = np.nonzero(dist_a <= D)[0]
        cpos = allpos[cand]
        cel = allel[cand]
        cidx = allidx[cand]
        dm = np.linalg.norm(cpos[:, None, :] - cpos[None, :, :], axis=2)
        # position of the start atom itself (home image) inside cand
        start = [c for c in range(len(cand)) if cidx[c] == a and dist_a[cand[c]] == 0.0]
        if not start:
            continue
        partial = [[start[0]]]
        for i in range(1, k):
            nxt = []
            okel = np.nonzero(cel == pelems[i])[0]
            for t in partial:
                for c in okel:
                    if all(abs(dm[t[j], c] - pd[i, j]) <= loose * atol for j in range(i)):
                        nxt.append(t + [int(c)])
            partial = nxt
            if not partial:
                break
        for t in partial:
            seen_tuples += 1
            key = tuple(sorted(int(cidx[c]) for c in t))
            X = cpos[t]
            mism = max(abs(dm[t[i], t[j]] - pd[i, j]) for i in range(k) for j in range(i))
            maxdev, rmsd = kabsch_proper(P, X)
            if maxdev <= inside * atol:
                inside_keys.add(key)
            elif mism > 1.5 * atol or rmsd > 2.0 * atol:
                pass
            else:
                amb_keys.add(key)
    return inside_keys, amb_keys - inside_keys


# ------------------------------------------------------------------ planting

def search_axis(ppos):
    """the default axis of the search: first arg-max pair of squared distances"""
    P = np.array([[float(x) for x in p] for p in ppos])
    d = ((P[:, None, :] - P[None, :, :]) ** 2).sum(axis=2)
    i, j = np.unravel_index(np.argmax(d), d.shape)
    return [Fraction(ppos[j][c]) - Fraction(ppos[i][c]) for c in range(3)]


def pose_rotation(rng, pose, ppos):
    """a rational rotation matrix for the named pose. 'anti' turns the search axis into its negative."""
    if pose == "anti" and len(ppos) >= 2:
        v = search_axis(ppos)
        for _ in range(50):
            e = [Fraction(rng.randint(-4, 4)) for _ in range(3)]
            u = [v[1] * e[2] - v[2] * e[1], v[2] * e[0] - v[0] * e[2], v[0] * e[1] - v[1] * e[0]]
            if any(u):
                return fl.rotmat((u[0], u[1], u[2], 0))   # half turn about an axis perpendicular to the search axis
        return fl.rotmat((0, 0, 1, 0))
    if pose == "anti":
        pose = "axis180"
    return fl.rotmat(fl.rat_quat(rng, pose))


def negative_diagonal(cf):
    """a DIAGONAL cell matrix with a negative entry (an orthorhombic cell turned by 180 degrees about an axis, or
    given left-handed).  `cell_is_orthorhombic()` is true for it; before the fix 6179f2d the box test
    `x < D + cell[k][k]` then selected nothing.  Since the fix such cells are part of the GENERAL streams (cell kinds
    "ortho-1", "ortho-2", "ortho-3", "neg-mixed" and whatever the rotated kind produces)."""
    cf = np.asarray(cf, dtype=float)
    return bool((cf == np.diag(np.diag(cf))).all() and (np.diag(cf) <= 0).any())


NEG_KINDS = ["ortho-1", "ortho-2", "ortho-3", "neg-mixed"]


def _cell(rng, kind, d, atol, tight):
    """cell rows (floats); every perpendicular width exceeds d + 2 atol (by >= 1 A, or only by 3..30 % if tight)"""
    D = d + 2 * atol
    for _ in range(200):
        if kind in ("ortho-1", "ortho-2", "ortho-3"):
            # a diagonal cell with one, two or three NEGATIVE diagonal entries (two = the orthorhombic cell turned by 180
            # degrees about an axis; one / three = the same lattice given left-handed)
            cell = fl.make_cell(rng, "ortho", max(7.0, 2.2 * d + 3))
            for ax in rng.sample(range(3), int(kind[-1])):
                cell[ax][ax] = -cell[ax][ax]
        elif kind == "neg-mixed":
            # negative diagonal entries mixed with off-diagonal ones: a triclinic / upper / sparse cell, 1-3 diagonal
            # entries negated
            sub = rng.choice(["tri+", "tri-", "upper", "sparse"])
            if sub in ("upper", "sparse"):
                cell = fl.make_cell(rng, "ortho", max(7.0, 2.2 * d + 3))
                slots = [(0, 1), (0, 2), (1, 2)] if sub == "upper" else [(0, 1), (0, 2), (1, 2), (1, 0), (2, 0), (2, 1)]
                for (i, j) in rng.sample(slots, rng.randint(1, 2)):
                    cell[i][j] = rng.choice([1, -1]) * Fraction(rng.randint(2, 32), 8)
            else:
                cell = fl.make_cell(rng, sub, max(7.0, 2.2 * d + 3))
            for ax in rng.sample(range(3), rng.randint(1, 3)):
                cell[ax][ax] = -cell[ax][ax]
        elif kind in ("upper", "sparse"):
            # tilt entries ABOVE the diagonal only ("upper"), or any non-empty sparse subset of the six off-diagonal
            # entries ("sparse", e.g. a = (10, 0, 4), b = (0, 10, 0), c = (0, 0, 10)): not orthorhombic, not in LAMMPS form
            cell = fl.make_cell(rng, "ortho", max(7.0, 2.2 * d + 3))
            slots = [(0, 1), (0, 2), (1, 2)] if kind == "upper" else [(0, 1), (0, 2), (1, 2), (1, 0), (2, 0), (2, 1)]
            for (i, j) in rng.sample(slots, rng.randint(1, 2 if kind == "sparse" else 3)):
                cell[i][j] = rng.choice([1, -1]) * Fraction(rng.randint(2, 32), 8)
        else:
            cell = fl.make_cell(rng, kind, max(7.0, 2.2 * d + 3))
        cf = np.array([[float(v) for v in row] for row in cell])
        if abs(np.linalg.det(cf)) < 1e-6:
            continue
        w = min(fl.perp_widths(cf))
        if tight:
            # shrink by a dyadic factor so that the smallest width is just above D
            target = D * rng.choice([1.001, 1.005, 1.03, 1.1, 1.3])
            f = Fraction(int(math.ceil(target / w * 64)), 64)
            if f <= 0:
                continue
            cf = np.array([[float(Fraction(v) * f) for v in row] for row in cell])
            w = min(fl.perp_widths(cf))
            if w > D * 1.0005:
                return cf
        elif w > D + 1.0:
            return cf
    raise RuntimeError("no cell")


def wrap(v, cf, cinv):
    f0 = v.dot(cinv)
    if ((f0 >= 0.0) & (f0 < 1.0)).all():
        return np.array(v, dtype=float)          # already inside: keep the coordinates bit for bit
    f = f0 % 1.0
    f[f >= 1.0] = 0.0
    return f.dot(cf)


def planted(rng, pname, cell_kind, copies, atol=0.05, ndecoy=0, perturb_div=8.0, tight=False, mirror_copies=0,
            decoy_kinds=("mirror", "nearmiss", "distractor"), max_tries=12, validate=True, cell=None, exact=False,
            inside=0.25, validate_atol=None):
    """A periodic structure with planted copies of pattern `pname`.

    copies : list of (pose, frac) — pose in POSES, frac = 3 fractional coordinates of the image of the pattern's
             origin, or None for a random place.
    Returns None when no valid (unambiguous) structure was obtained, else
      dict(elems, pos, cell, pattern{elems,pos,name}, planted=[sorted index tuples], info)"""
    pat = fl.pattern_json(pname)
    ppos = pat["pos"]
    pel = pat["elems"]
    d = fl.diam(ppos)
    pf = [[float(x) for x in p] for p in ppos]
    for attempt in range(max_tries):
        cf = _cell(rng, cell_kind, d, atol, tight) if cell is None else np.array(cell, dtype=float)
        cinv = np.linalg.inv(cf)
        elems, pos, plant, kinds = [], [], [], []

        def far_enough(pts, dmin=1.0):
            for p in pts:
                for qpt in pos:
                    dv = (np.array(p) - np.array(qpt)).dot(cinv)
                    dv -= np.round(dv)
                    if np.linalg.norm(dv.dot(cf)) < dmin:
                        return False
            return True

        def place(src, els, pose, frac, perturb):
            for _ in range(40):
                R = pose_rotation(rng, pose, ppos)
                fr = frac if frac is not None else [rng.random() for _ in range(3)]
                origin = np.array(fr, dtype=float).dot(cf)
                pts = []
                # some copies are uniformly stretched about the first atom: every atom stays within atol/4 of the best
                # rigid fit, but the far end of the long pair lies beyond the exact pattern length
                stretch = 1.0
                is_exact = exact or (perturb and rng.random() < 0.25)      # an exact rigid image (no noise at all)
                if is_exact:
                    perturb = False
                elif perturb and d > 0 and rng.random() < 0.3 and perturb_div >= 8:
                    stretch = 1.0 + 0.4 * atol / d
                for p in src:
                    v = np.array([float(x) for x in fl.matvec(R, p)]) * stretch + origin
                    if perturb:
                        v = v + np.array([rng.uniform(-1, 1) for _ in range(3)]) * (atol / perturb_div / math.sqrt(3)) * (0.5 if stretch != 1.0 else 1.0)
                    pts.append(wrap(v, cf, cinv))
                if far_enough(pts):
                    base = len(pos)
                    elems.extend(els)
                    pos.extend(pts)
                    return list(range(base, base + len(pts)))
                if frac is not None:
                    return None        # a prescribed place is either free or not
            return None

        ok = True
        for pose, frac in copies:
            g = place(ppos, pel, pose, frac, True)
            if g is None:
                ok = False
                break
            plant.append(tuple(sorted(g)))
            kinds.append("copy:" + pose)
        if not ok:
            continue
        for _ in range(mirror_copies):
            if pname.split("@")[0] not in CHIRAL and len(ppos) >= 3:
                g = place(fl.mirror(ppos), pel, "random", None, True)
                if g is not None:
                    plant.append(tuple(sorted(g)))
                    kinds.append("mirror-of-achiral(planted)")
        for _ in range(ndecoy):
            kind = rng.choice(list(decoy_kinds))
            if kind == "mirror":
                if len(ppos) < 3:
                    kind = "distractor"
                else:
                    g = place(fl.mirror(ppos), pel, "random", None, True)
                    if g is not None:
                        if pname.split("@")[0] in CHIRAL:
                            kinds.append("decoy:mirror")
                        else:                      # genuine occurrence
                            plant.append(tuple(sorted(g)))
                            kinds.append("mirror-of-achiral(planted)")
                    continue
            if kind == "nearmiss":
                if len(ppos) < 2:
                    kind = "distractor"
                else:
                    src = [[Fraction(x) for x in p] for p in ppos]
                    k = rng.randrange(len(src))
                    j = rng.choice([i for i in range(len(src)) if i != k])
                    bond = np.array([float(src[k][c] - src[j][c]) for c in range(3)])
                    L = np.linalg.norm(bond)
                    s = rng.choice([1, -1]) if L > 6 * atol else 1
                    step = Fraction(int(rng.uniform(3, 5) * atol * 1048576), 1048576)     # change of the k–j distance
                    src[k] = [src[k][c] + Fraction(bond[c] / L).limit_denominator(10 ** 6) * step * s for c in range(3)]
                    if place(src, pel, "random", None, False) is not None:
                        kinds.append("decoy:nearmiss")
                    continue
            # distractor: a lone atom of one of the pattern's elements
            e = rng.choice(pel)
            g = place([ppos[0]], [e], "identity", None, False)
            if g is not None:
                if len(ppos) == 1:
                    plant.append(tuple(g))
                    kinds.append("same-element(planted)")
                else:
                    kinds.append("decoy:distractor")
        case = {"elems": elems, "pos": [[float(x) for x in v] for v in pos], "cell": [[float(v) for v in row] for row in cf],
                "pattern": {"elems": list(pel), "pos": pf, "name": pname},
                "planted": sorted(plant),
                "info": {"cell": cell_kind, "pattern": pname, "copies": len(copies), "kinds": kinds, "tight": bool(tight),
                         "attempts": attempt + 1}}
        if not validate:
            return case
        ins, amb = brute_occurrences(elems, case["pos"], case["cell"], pel, pf, validate_atol or atol, inside=inside)
        if not amb and ins == set(plant) and len(set(plant)) == len(plant):
            return case
    return None


def crossings(case):
    """how many cell faces the planted copies straddle (max over copies of the number of axes on which the copy's
    atoms sit at both ends of the fractional interval)"""
    cf = np.array(case["cell"])
    cinv = np.linalg.inv(cf)
    best = 0
    for g in case["planted"]:
        f = np.array([case["pos"][i] for i in g]).dot(cinv)
        if len(g) < 2:
            continue
        n = sum(1 for c in range(3) if f[:, c].max() - f[:, c].min() > 0.5)
        best = max(best, n)
    return best


def random_case(rng, atol=0.05, pname=None, cell_kind=None, boundary=None, tight=None, perturb_div=8.0, ndecoy=None,
                listing=None):
    pname = pname or rng.choice(list(fl.PATTERNS))
    cell_kind = cell_kind or rng.choice(["ortho", "ortho", "tri+", "tri-", "rot", "upper", "sparse",
                                         "ortho-1", "ortho-2", "ortho-3", "neg-mixed"])
    tight = (rng.random() < 0.2) if tight is None else tight
    ncop = 1 if tight else rng.randint(1, 3)
    copies = []
    for _ in range(ncop):
        pose = rng.choice(POSES)
        if boundary is None:
            b = rng.random() < 0.5
        else:
            b = boundary
        frac = [rng.choice(FRACS) if rng.random() < 0.7 else rng.random() for _ in range(3)] if b else None
        copies.append((pose, frac))
    nd = (0 if tight else rng.randint(0, 3)) if ndecoy is None else ndecoy
    case = planted(rng, pname, cell_kind, copies, atol=atol, ndecoy=nd, perturb_div=perturb_div, tight=tight,
                   mirror_copies=1 if (rng.random() < 0.25 and not tight) else 0,
                   inside=0.5 if perturb_div < 8 else 0.25)
    if case is not None and listing is not False:
        r = rng.random()
        mode = listing or ("slot-major" if r < 0.2 else "random" if r < 0.3 else "reversed" if r < 0.35 else None)
        if mode:
            case = relist(case, rng, mode)
    return case


def relist(case, rng, mode):
    """the same structure with its atoms LISTED in another order (planted keys renamed accordingly):
       slot-major : all first atoms of the copies, then all second atoms, ... (as when a file is sorted by atom label),
                    then the decoy atoms;   reversed : last atom first;   random : a random permutation.
    The occurrence set is a property of the crystal, so the planted keys are simply mapped through the renaming."""
    n = len(case["elems"])
    k = len(case["pattern"]["elems"])
    if mode == "slot-major":
        in_copy = {}
        for grp in case["planted"]:
            if len(grp) == k and list(grp) == list(range(grp[0], grp[0] + k)):
                for slot, i in enumerate(grp):
                    in_copy[i] = slot
        order = sorted(range(n), key=lambda i: (in_copy.get(i, k), i))
    elif mode == "reversed":
        order = list(range(n - 1, -1, -1))
    else:
        order = list(range(n))
        rng.shuffle(order)
    new_of = {old: new for new, old in enumerate(order)}            # new[j] = old[order[j]]
    out = dict(case)
    out["elems"] = [case["elems"][i] for i in order]
    out["pos"] = [case["pos"][i] for i in order]
    out["planted"] = sorted(tuple(sorted(new_of[i] for i in grp)) for grp in case["planted"])
    out["info"] = dict(case["info"], listing=mode)
    return out


def mk_pattern(case, pos=None):
    from mofun import Atoms
    from . import core
    with core.quiet():
        return Atoms(elements=list(case["pattern"]["elems"]),
                     positions=np.array(case["pattern"]["pos"] if pos is None else pos, dtype=float))


def keys_of(idx_tuples):
    return sorted(tuple(sorted(int(i) for i in t)) for t in idx_tuples)


def negdiag_case(rng, atol=0.05, kind=None):
    """a structure in a cell with one, two or three negative diagonal entries (optionally mixed with off-diagonal entries), with planted copies"""
    pname = rng.choice(list(fl.PATTERNS))
    kind = kind or rng.choice(NEG_KINDS)
    copies = [(rng.choice(POSES), None if rng.random() < 0.5 else [rng.choice(FRACS) for _ in range(3)])
              for _ in range(rng.randint(1, 2))]
    return planted(rng, pname, kind, copies, atol=atol, ndecoy=rng.randint(0, 1))


def two_image_case(rng, atol=0.05):
    """KNOWN FINDING stream (C03-supercell-two-images-one-group): a narrow cell — every perpendicular width exceeds
    D = diameter + 2 atol, the width along one cell vector L is below 2 D — with a two-atom pattern A-B placed so that
    B and its periodic image B + L are BOTH at the pattern distance from A (A on the perpendicular bisector plane).
    Returns dict(case fields..., axis = index of L, planted=[(0, 1)]) or None."""
    pname = rng.choice(["pair", "pair_same", "pair@y", "pair@z"])
    pat = fl.pattern_json(pname)
    pel = pat["elems"]
    pf = [[float(x) for x in p] for p in pat["pos"]]
    d = fl.diam(pat["pos"])
    D = d + 2 * atol
    ax = rng.randrange(3)                       # L = cell vector number ax
    perp = rng.choice([k for k in range(3) if k != ax])
    for _ in range(60):
        lens = [Fraction(rng.randint(int(D * 16) + 2, int(2.6 * D * 16)), 16) for _ in range(3)]
        lens[ax] = Fraction(rng.randint(int(D * 16) + 2, int(min(2 * D, 2 * d) * 16) - 2), 16)
        ell = float(lens[ax])
        if not (D * 1.02 < ell < 2 * d * 0.97):
            continue
        cell = [[Fraction(0)] * 3 for _ in range(3)]
        for k in range(3):
            cell[k][k] = lens[k]
        if rng.random() < 0.4:                  # a little tilt of another cell vector (triclinic variant)
            other = rng.choice([k for k in range(3) if k != ax])
            cell[other][ax] = Fraction(rng.randint(-3, 3), 16)
        cf = np.array([[float(v) for v in row] for row in cell])
        if min(fl.perp_widths(cf)) <= D * 1.02 or negative_diagonal(cf):
            continue
        cinv = np.linalg.inv(cf)
        h = math.sqrt(d * d - ell * ell / 4)
        u = np.zeros(3)
        u[perp] = 1.0
        Lv = cf[ax]
        u = u - Lv * (u.dot(Lv) / Lv.dot(Lv))
        u /= np.linalg.norm(u)
        B = np.array([rng.random() for _ in range(3)]).dot(cf)
        A = B + Lv / 2 + h * u + np.array([rng.uniform(-1, 1) for _ in range(3)]) * (atol / 40)
        pos = [wrap(A, cf, cinv), wrap(B, cf, cinv)]
        elems = [pel[0], pel[1]]
        ins, amb = brute_occurrences(elems, pos, cf, pel, pf, atol)
        if amb or ins != {(0, 1)}:
            continue
        # both images really fit
        mult = np.array(list(itertools.product(range(-2, 3), repeat=3)), dtype=float)
        dist = np.linalg.norm(pos[1] + mult @ cf - pos[0], axis=1)
        if int((np.abs(dist - d) <= atol / 4).sum()) != 2 or int((np.abs(dist - d) <= 2 * atol).sum()) != 2:
            continue                                # exactly two images fit, every other image is clearly off
        return {"elems": elems, "pos": [[float(x) for x in v] for v in pos], "cell": cf.tolist(),
                "pattern": {"elems": list(pel), "pos": pf, "name": pname}, "planted": [(0, 1)], "axis": ax,
                "info": {"cell": "narrow", "pattern": pname, "copies": 1, "kinds": ["two-images-one-group"], "tight": True,
                         "attempts": 1}}
    return None


def replicate_indep(elems, pos, cell, dims):
    """the a x b x c supercell built here (not by the code under test): atom i of image m has index m*N + i"""
    pos = np.asarray(pos, dtype=float)
    cell = np.asarray(cell, dtype=float)
    out_e, out_p = [], []
    for m in itertools.product(range(dims[0]), range(dims[1]), range(dims[2])):
        out_e += list(elems)
        out_p += (pos + np.array(m, dtype=float) @ cell).tolist()
    return out_e, out_p, (cell * np.array(dims, dtype=float).reshape(3, 1)).tolist()


# ------------------------------------------------------------------ hints

def valid_hints(ppos, min_off=0.3):
    """all hint triples (None or index each) whose given axis points are distinct points and whose given orientation
    point lies off the axis that will be used (for a single given axis point: off the line to EVERY farthest point)"""
    P = np.array(ppos, dtype=float)
    n = len(P)
    d2 = ((P[:, None, :] - P[None, :, :]) ** 2).sum(axis=2)
    opts = [None] + list(range(n))
    out = []
    for h1, h2, ho in itertools.product(opts, opts, opts):
        if n <= 2 and ho is not None:
            continue
        if h1 is not None and h2 is not None:
            if d2[h1, h2] < 0.25:
                continue
            axes = [(h1, h2)]
        elif h1 is None and h2 is None:
            mx = d2.max()
            axes = [(i, j) for i in range(n) for j in range(n) if d2[i, j] >= mx - 1e-9]
        else:
            a = h1 if h1 is not None else h2
            mx = d2[a].max()
            if mx < 0.25:
                continue
            axes = [(a, j) for j in range(n) if d2[a, j] >= mx - 1e-9]
        if ho is not None:
            ok = True
            for a, b in axes:
                u = P[b] - P[a]
                w = P[ho] - P[a]
                off = np.linalg.norm(np.cross(u, w)) / max(np.linalg.norm(u), 1e-12)
                if ho in (a, b) or off < min_off:
                    ok = False
            if not ok:
                continue
        out.append((h1, h2, ho))
    return out


def pick_hints(rng, ppos):
    """a random valid hint triple, biased towards triples that contain index 0 and towards complete triples"""
    hs = [h for h in valid_hints(ppos) if h != (None, None, None)]
    if not hs:
        return (None, None, None)
    r = rng.random()
    pool = hs
    if r < 0.4:
        pool = [h for h in hs if 0 in h[:2]] or hs                  # index 0 among the axis atoms
    elif r < 0.6:
        pool = [h for h in hs if None not in h] or hs               # all three given
    elif r < 0.75:
        pool = [h for h in hs if h.count(None) == 2] or hs          # a single hint
    return rng.choice(pool)


def tilted_twin(rng, cell):
    """a triclinic cell with the SAME diagonal as the orthorhombic `cell` (lower-triangular tilts added)"""
    cf = np.array(cell, dtype=float).copy()
    t = lambda: rng.choice([1, -1]) * rng.randint(2, 12) / 8.0
    cf[1][0] = t()
    cf[2][0] = t()
    cf[2][1] = t()
    return cf


# ------------------------------------------------------------------ systematically distorted copies, large tolerances

def distorted_case(rng, atol=None):
    """ONE copy of a pattern in which two atoms i, j are moved APART (or together) along their connecting line by
    0.40..0.46 atol EACH (every atom stays within 0.46 atol + atol/60 of an exact rigid image: the pair distance changes
    by up to 0.92 atol), searched with a LARGE tolerance (0.3..0.5 A, bonds 1.1..1.5 A).
    The pair is the search axis: either the automatic one (first farthest pair, no hints) or given by hints
    (i, j, None).  With the first axis atom pinned the pattern then misses the other axis atom by <= 0.92 atol and every
    other atom by <= 0.46 atol (+ noise) — inside the tolerance of the final comparison by construction.
    Validated by the brute-force enumerator with `inside = 0.5`.  Returns (case, hints, atol) or None."""
    atol = atol or rng.choice([0.3, 0.4, 0.5])
    pname = rng.choice(["pair", "pair_same", "pair@y", "pair@z", "bent", "collinear_asym", "halo", "siloxy", "asym4",
                        "planar4", "collinear3"])
    pat = fl.pattern_json(pname)
    ppos, pel = pat["pos"], pat["elems"]
    P = np.array([[float(x) for x in p] for p in ppos])
    n = len(P)
    d2 = ((P[:, None, :] - P[None, :, :]) ** 2).sum(axis=2)
    ai, aj = [int(x) for x in np.unravel_index(np.argmax(d2), d2.shape)]
    if rng.random() < 0.5 or n == 2:
        i, j, hints = ai, aj, (None, None, None)
        if n == 2 and rng.random() < 0.5:
            i, j = rng.sample([0, 1], 2)
            hints = (i, j, None)
    else:
        pairs = [(a, b) for a in range(n) for b in range(n) if a != b and d2[a, b] <= 1.6 ** 2] or [(ai, aj)]
        i, j = rng.choice(pairs)                       # a short bond, made the axis by the hints
        hints = (i, j, None)
    f = rng.uniform(0.40, 0.46) * (1 if rng.random() < 0.75 else -1)
    u = (P[j] - P[i]) / np.linalg.norm(P[j] - P[i])
    Q = P.copy()
    Q[i] -= f * atol * u
    Q[j] += f * atol * u
    d = fl.diam(ppos)
    for _ in range(12):
        cf = _cell(rng, rng.choice(["ortho", "tri+", "tri-", "rot", "upper"]), d + 2 * atol, atol, False)
        cinv = np.linalg.inv(cf)
        R = np.array([[float(x) for x in row] for row in pose_rotation(rng, rng.choice(POSES), ppos)])
        fr = [rng.choice(FRACS) if rng.random() < 0.6 else rng.random() for _ in range(3)]
        origin = np.array(fr).dot(cf)
        pts = [wrap(R.dot(q) + origin + np.array([rng.uniform(-1, 1) for _ in range(3)]) * (atol / 60 / math.sqrt(3)), cf, cinv)
               for q in Q]
        elems, pos = list(pel), list(pts)
        case = {"elems": elems, "pos": [[float(x) for x in v] for v in pos], "cell": cf.tolist(),
                "pattern": {"elems": list(pel), "pos": P.tolist(), "name": pname}, "planted": [tuple(range(n))],
                "info": {"cell": "distorted", "pattern": pname, "copies": 1, "tight": False, "attempts": 1,
                         "kinds": ["copy:pair-%s-by-%.2f-atol-each" % ("stretched" if f > 0 else "compressed", abs(f))]}}
        ins, amb = brute_occurrences(elems, case["pos"], case["cell"], pel, P.tolist(), atol, inside=0.5)
        if not amb and ins == {tuple(range(n))}:
            return case, hints, atol
    return None


def mirror_first_case(rng, atol=0.05, pname=None, mode="slot-major"):
    """>= 2 copies of a pattern whose first atoms are symmetry-related (MIRROR_FIRST), some straddling the cell
    boundary, the structure's atoms listed slot-major (all first atoms of the copies, then all second atoms, ...)"""
    pname = pname or rng.choice(list(MIRROR_FIRST))
    copies = [(rng.choice(POSES), None if rng.random() < 0.5 else [rng.choice(FRACS) for _ in range(3)])
              for _ in range(rng.randint(2, 4))]
    case = planted(rng, pname, rng.choice(["ortho", "ortho", "tri+", "tri-", "rot", "upper"]), copies, atol=atol,
                   ndecoy=rng.randint(0, 1))
    if case is None or len(case["planted"]) < 2:
        return None
    return relist(case, rng, mode)


# ------------------------------------------------------------------ conditioning of a hint triple

def hint_levers(ppos, hints):
    """(ra, ro, given_o) for a hint triple, resolved the way the code resolves it (ties: the worst candidate):
      ra = (largest distance of a pattern atom from the first axis atom) / (axis length)
      ro = (largest distance of a pattern atom from the axis) / (distance of the orientation atom from the axis)
    The code aligns the pattern with TWO points and ONE azimuth: a displacement eps of the axis atoms tilts the axis by
    ~2 eps / L, a displacement of the orientation atom turns the pattern about the axis by ~eps / h; the other atoms
    feel these errors multiplied by their lever arms, i.e. by ra and ro."""
    P = np.array(ppos, dtype=float)
    n = len(P)
    idx = [None if h is None else int(h) % n for h in hints]
    d2 = ((P[:, None, :] - P[None, :, :]) ** 2).sum(axis=2)
    h1, h2, ho = idx
    if h1 is not None and h2 is not None:
        axes = [(h1, h2)]
    elif h1 is None and h2 is None:
        mx = d2.max()
        axes = [(i, j) for i in range(n) for j in range(n) if d2[i, j] >= mx - 1e-9]
    else:
        a = h1 if h1 is not None else h2
        mx = d2[a].max()
        axes = [(a, j) for j in range(n) if d2[a, j] >= mx - 1e-9]
    ra, ro = 1.0, 1.0
    for a, b in axes:
        L = math.sqrt(d2[a, b])
        if L < 1e-9:
            return float("inf"), float("inf"), ho is not None
        u = (P[b] - P[a]) / L
        off = np.linalg.norm(np.cross(P - P[a], u), axis=1)
        ra = max(ra, math.sqrt(d2[a].max()) / L)
        if n > 2 and off.max() > 1e-9:
            o = ho if ho is not None else int(np.argmax(off))
            ro = max(ro, float("inf") if off[o] < 1e-12 else off.max() / off[o])
    return ra, ro, ho is not None


ILL_RO = 5.0          # lever ratio of the orientation point from which the known finding is claimed


def spell_hints(rng, hints, n):
    """the same hint triple in another public spelling: negative indices (python convention) or numpy integers"""
    r = rng.random()
    if r < 0.25:
        return tuple(None if h is None else int(h) - n for h in hints), "negative"
    if r < 0.5:
        return tuple(None if h is None else rng.choice([np.int64, np.int32])(h) for h in hints), "numpy"
    return tuple(hints), "int"


def norm_hints(hints, n):
    """hints as non-negative python ints (for the model op and for replays)"""
    return [None if h is None else int(h) % n for h in hints]


def single_copy(rng, pel, P, atol, f_lo, f_hi, cell=None):
    """one copy of the pattern (elements pel, coordinates P) in a roomy cell, every atom displaced by f*atol in a random
    direction, f in [f_lo, f_hi]; validated by the brute-force enumerator with inside = 0.5"""
    P = np.array(P, dtype=float)
    d = float(np.sqrt(((P[:, None] - P[None]) ** 2).sum(-1).max()))
    for _ in range(20):
        cf = _cell(rng, rng.choice(["ortho", "tri+", "tri-", "upper"]), d, atol, False) if cell is None else np.array(cell, dtype=float)
        cinv = np.linalg.inv(cf)
        R = np.array([[float(x) for x in row] for row in fl.rotmat(fl.rat_quat(rng))])
        X = P.dot(R.T) + np.array([rng.random() for _ in range(3)]).dot(cf)
        for k in range(len(X)):
            v = np.array([rng.gauss(0, 1) for _ in range(3)])
            X[k] += v / np.linalg.norm(v) * rng.uniform(f_lo, f_hi) * atol
        X = np.array([wrap(x, cf, cinv) for x in X])
        ins, amb = brute_occurrences(pel, X, cf, pel, P.tolist(), atol, inside=0.5)
        if not amb and ins == {tuple(range(len(pel)))}:
            return {"elems": list(pel), "pos": X.tolist(), "cell": cf.tolist(),
                    "pattern": {"elems": list(pel), "pos": P.tolist(), "name": "custom"}, "planted": [tuple(range(len(pel)))],
                    "info": {"cell": "roomy", "pattern": "custom", "copies": 1, "kinds": ["copy:random"], "tight": False,
                             "attempts": 1}}
    return None


def ill_conditioned_hint_case(rng, atol=0.05):
    """KNOWN FINDING stream (C03-hint-ill-conditioned-orientation-point): a four-atom pattern whose hinted orientation
    atom lies close to the axis (0.05-0.25 A) while another atom is 0.9-1.6 A away from it (lever ratio >= ILL_RO), one
    copy with every atom displaced by 0.1-0.25 atol.  Returns (case, hints) or None."""
    L = rng.choice([2.5, 3.0, 3.5])
    dd = rng.uniform(0.05, 0.25)
    far = rng.uniform(max(0.9, ILL_RO * dd * 1.2), 1.8)
    P = [[0, 0, 0], [L, 0, 0], [rng.uniform(0.8, L - 0.8), dd, 0], [rng.uniform(0.8, L - 0.8), far * 0.8, far * 0.6]]
    pel = ["C", "N", "O", "F"]
    hints = (0, 1, 2)
    if hint_levers(P, hints)[1] < ILL_RO:
        return None
    case = single_copy(rng, pel, P, atol, 0.1, 0.25)
    return None if case is None else (case, hints)


FINDING_HINT_CASE = {   # the structure of the probe that established the finding (asym5, hints (0, 3, 4))
    "elems": ["C", "C", "N", "O", "H"],
    "pos": [[5.005697, 6.002385, 7.000959], [5.102909, 6.739905, 5.703261], [3.870709, 7.116406, 5.231752],
            [4.070088, 5.031513, 6.940468], [5.651436, 6.941643, 7.298933]],
    "cell": [[14.0, 0.0, 0.0], [0.0, 15.0, 0.0], [0.0, 0.0, 16.0]],
    "pattern": {"elems": ["C", "C", "N", "O", "H"],
                "pos": [[0.0, 0.0, 0.0], [1.5, 0.0, 0.0], [2.0, 1.25, 0.25], [-0.5, 1.0, -0.75], [0.25, -0.75, 0.875]]},
    "planted": [(0, 1, 2, 3, 4)], "hints": (0, 3, 4),
    "info": {"cell": "ortho", "pattern": "asym5", "copies": 1, "kinds": ["copy:random"], "tight": False, "attempts": 1}}


# ------------------------------------------------------------------ occurrences that share atoms

def shared_atom_case(rng, atol=0.05):
    """a dense structure WITHOUT the usual separation of copies: a few centres, each the first atom of two copies of a
    short pattern (the copies share that atom); expectation = the independent enumeration (rejected when ambiguous)"""
    pname = rng.choice(["pair", "pair_same", "bent", "collinear3", "halo"])
    pj = fl.pattern_json(pname)
    P = np.array([[float(x) for x in q] for q in pj["pos"]])
    pel = pj["elems"]
    cf = np.diag([rng.uniform(6, 8), rng.uniform(6, 8), rng.uniform(6, 8)])
    if rng.random() < 0.5:
        cf[1][0] = rng.uniform(-1.5, 1.5)
        cf[2][1] = rng.uniform(-1.5, 1.5)
    cinv = np.linalg.inv(cf)
    elems, pos = [], []
    for _ in range(rng.randint(1, 3)):
        ctr = np.array([rng.random() for _ in range(3)]).dot(cf)
        R = np.array([[float(x) for x in row] for row in fl.rotmat(fl.rat_quat(rng))])
        X = P.dot(R.T) + ctr
        elems += list(pel)
        pos += list(X)
        R2 = np.array([[float(x) for x in row] for row in fl.rotmat(fl.rat_quat(rng))])
        X2 = (P - P[0]).dot(R2.T) + X[0]
        elems += list(pel[1:])
        pos += list(X2[1:])
    pos = np.array([wrap(np.array(x) + np.array([rng.uniform(-1, 1) for _ in range(3)]) * (atol / 8 / math.sqrt(3)), cf, cinv)
                    for x in pos])
    ins, amb = brute_occurrences(elems, pos, cf, pel, P.tolist(), atol)
    if amb or not ins:
        return None
    return {"elems": elems, "pos": pos.tolist(), "cell": cf.tolist(),
            "pattern": {"elems": list(pel), "pos": P.tolist(), "name": pname}, "planted": sorted(ins),
            "info": {"cell": "dense", "pattern": pname, "copies": len(ins), "kinds": ["shared-atoms"], "tight": False,
                     "attempts": 1}}


def exact_case(rng, atol_zero):
    """exact copies for a vanishing tolerance: atol = 0 -> dyadic coordinates, identity pose, orthorhombic dyadic cell
    (every float operation of the search is exact); otherwise (atol = 1e-9) exact copies in any pose and cell.
    Validated with the enumerator at tolerance 1e-9."""
    pname = rng.choice(["pair", "bent", "asym4", "planar4", "collinear_asym", "halo", "asym5"])
    copies = [("identity" if atol_zero else rng.choice(POSES),
               [rng.choice([0.25, 0.375, 0.5]) for _ in range(3)] if atol_zero else
               (None if rng.random() < 0.5 else [rng.choice(FRACS) for _ in range(3)])) for _ in range(rng.randint(1, 2))]
    return planted(rng, pname, "ortho" if atol_zero else rng.choice(["ortho", "tri+", "rot", "upper"]), copies,
                   atol=1e-9, ndecoy=0, exact=True, validate_atol=1e-9)


def model_op(case, atol, hints, hook):
    """findlib.find_op with the hints AND the axis exported by the code brought to non-negative indices (the code keeps a
    negative hint as given; the model counts atoms from 0)"""
    n = len(case["pattern"]["elems"])
    op = fl.find_op(case, atol, tuple(norm_hints(hints, n)), hook)
    op["axis"] = [None if a is None else int(a) % n for a in op.get("axis", [None, None, None])]
    return op


# ------------------------------------------------------------------ atoms stored outside the cell

def lattice_shifts(rng, n, max_cells=2, share=0.6):
    """per-atom integer multipliers of the cell vectors, each component in -max_cells..max_cells, zero for ~40 % of the atoms"""
    return [[rng.randint(-max_cells, max_cells) for _ in range(3)] if rng.random() < share else [0, 0, 0] for _ in range(n)]


def unwrap(case, rng, max_cells=2, shifts=None):
    """the SAME crystal with its atoms stored in other cells: atom i is moved by the lattice vector shifts[i] . cell.
    The occurrence set (and so the planted keys) does not change (Occ S = Occ (wrapped S))."""
    cf = np.array(case["cell"], dtype=float)
    shifts = shifts if shifts is not None else lattice_shifts(rng, len(case["elems"]), max_cells)
    out = dict(case)
    out["pos"] = (np.array(case["pos"], dtype=float) + np.array(shifts, dtype=float).dot(cf)).tolist()
    out["info"] = dict(case["info"], stored="unwrapped(+-%d cells)" % max_cells)
    return out
