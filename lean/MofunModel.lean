-- root of the MofunModel library: models, drivers, proofs, property theorems
import MofunModel.Model.Basic
import MofunModel.Model.Topo
import MofunModel.Drive.Codec
import MofunModel.Drive.TopoOps
import MofunModel.Drive.All
import MofunModel.Proofs.DeleteLemmas
import MofunModel.Props.C10
