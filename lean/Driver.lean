/-
  Driver.lean — line protocol: one JSON op per line on stdin, one canonical JSON result per line on stdout.
  Run:  lake env lean --run Driver.lean < ops.jsonl
-/
import MofunModel.Drive.All

open Lean Mofun.Drive

def handlers : List (String → Json → Option (Except String Json)) := [handleTopo]

def step (line : String) : String :=
  match Json.parse line with
  | .error e => (Json.mkObj [("bad", Json.str e)]).compress
  | .ok j =>
    match j.getObjVal? "op" >>= (·.getStr?) with
    | .error e => (Json.mkObj [("bad", Json.str e)]).compress
    | .ok op =>
      match handlers.findSome? (fun h => h op j) with
      | none => (Json.mkObj [("bad", Json.str ("unknown op " ++ op))]).compress
      | some (.error e) => (Json.mkObj [("bad", Json.str e)]).compress
      | some (.ok r) => r.compress

partial def loop (h : IO.FS.Stream) (out : IO.FS.Stream) : IO Unit := do
  let line ← h.getLine
  if line.isEmpty then return ()
  if line.trimAscii.isEmpty then loop h out else
  out.putStrLn (step line)
  loop h out

def main : IO Unit := do
  let out ← IO.getStdout
  loop (← IO.getStdin) out
  out.flush
