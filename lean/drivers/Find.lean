/- area driver: pattern search -/
import MofunModel.Drive.Loop
import MofunModel.Drive.FindOps
def main : IO Unit := Mofun.Drive.mainWith [Mofun.Drive.handleFind]
