/- area driver: the rotation construction of the pattern search at `Float` (qftv, qftvaa, farthest, resolve, match_quat) -/
import MofunModel.Drive.Loop
import MofunModel.Drive.QuatOps
def main : IO Unit := Mofun.Drive.mainWith [Mofun.Drive.handleQuat]
