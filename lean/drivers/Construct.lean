/- area driver: the constructor `Atoms(**kwargs)` (extension of C09) -/
import MofunModel.Drive.Loop
import MofunModel.Drive.ConstructOps
def main : IO Unit := Mofun.Drive.mainWith [Mofun.Drive.handleConstruct]
