/- area driver: CIF ops (cif_save, cif_load, strip_su) -/
import MofunModel.Drive.Loop
import MofunModel.Drive.CifOps
def main : IO Unit := Mofun.Drive.mainWith [Mofun.Drive.handleCif]
