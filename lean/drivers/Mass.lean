/- area driver: Mass ops (guess, load_elements, guess_one_sided) -/
import MofunModel.Drive.Loop
import MofunModel.Drive.MassOps
def main : IO Unit := Mofun.Drive.mainWith [Mofun.Drive.handleMass]
