/- area driver: LAMMPS data file ops (lmp_save, lmp_load, lmp_norm, lmp_dispatch) -/
import MofunModel.Drive.Loop
import MofunModel.Drive.LmpOps
def main : IO Unit := Mofun.Drive.mainWith [Mofun.Drive.handleLmp]
