/- area driver: the Topo ops + the widened index conventions (negative / repeated indices, masks, self-extend) -/
import MofunModel.Drive.Loop
import MofunModel.Drive.TopoOps
import MofunModel.Drive.WideOps
def main : IO Unit := Mofun.Drive.mainWith [Mofun.Drive.handleWide, Mofun.Drive.handleTopo]
