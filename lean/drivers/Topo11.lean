/- area driver for C11: the Topo ops + the public spellings of extend (offsets of any length, dict over integers) -/
import MofunModel.Drive.Loop
import MofunModel.Drive.TopoOps
import MofunModel.Drive.ExtendOps
def main : IO Unit := Mofun.Drive.mainWith [Mofun.Drive.handleExtendApi, Mofun.Drive.handleTopo]
