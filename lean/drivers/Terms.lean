/- area driver: Terms ops (angles, dihedrals, adjacency, typekey, assign, retype) — property C19 -/
import MofunModel.Drive.Loop
import MofunModel.Drive.TermsOps
def main : IO Unit := Mofun.Drive.mainWith [Mofun.Drive.handleTerms]
