/- area driver: Topo ops (delete, pop, extend, extend_types, replicate, getitem, num_types) -/
import MofunModel.Drive.Loop
import MofunModel.Drive.TopoOps
def main : IO Unit := Mofun.Drive.mainWith [Mofun.Drive.handleTopo]
