/- area driver: replacement (+ search, + Topo ops) -/
import MofunModel.Drive.Loop
import MofunModel.Drive.ReplaceOps
import MofunModel.Drive.TopoOps
def main : IO Unit := Mofun.Drive.mainWith [Mofun.Drive.handleReplace, Mofun.Drive.handleFind, Mofun.Drive.handleTopo]
