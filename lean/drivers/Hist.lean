/- area driver: operation histories (C09) + the single Topo ops they are made of -/
import MofunModel.Drive.Loop
import MofunModel.Drive.TopoOps
import MofunModel.Drive.HistOps
def main : IO Unit := Mofun.Drive.mainWith [Mofun.Drive.handleHist, Mofun.Drive.handleTopo]
