/- area driver: command-line ops (cli_plan, cli_suffix) — property C20 -/
import MofunModel.Drive.Loop
import MofunModel.Drive.CliOps
def main : IO Unit := Mofun.Drive.mainWith [Mofun.Drive.handleCli]
