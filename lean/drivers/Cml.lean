/- area driver: CML op (cml) -/
import MofunModel.Drive.Loop
import MofunModel.Drive.CmlOps
def main : IO Unit := Mofun.Drive.mainWith [Mofun.Drive.handleCml]
