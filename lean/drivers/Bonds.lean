/- area driver: bond detection ops (bonds, max_bond_length) -/
import MofunModel.Drive.Loop
import MofunModel.Drive.BondsOps
def main : IO Unit := Mofun.Drive.mainWith [Mofun.Drive.handleBonds]
