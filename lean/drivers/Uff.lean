/- area driver: UFF ops (bond_order, uff_bond, uff_angle, uff_dihedral, uff_pair, torsion_case) -/
import MofunModel.Drive.Loop
import MofunModel.Drive.UffOps
def main : IO Unit := Mofun.Drive.mainWith [Mofun.Drive.handleUff]
