/- line-protocol handlers for the widened index conventions (Model/TopoWide.lean)

   {"op":"delete_raw","a":Atoms,"idx":[ints, may be negative / repeated]}   → {"ok":{"atoms":[…],"terms":{kind:[{"a":[ints],"ty":…,"x":[…]}]}}} | {"err":…}
   {"op":"delete_mask","a":Atoms,"mask":[bools]}                            → same shape
   {"op":"delete_norm","a":Atoms,"idx":[ints]}                              → {"ok":Atoms} | {"err":…}     (reference semantics)
   {"op":"getitem_i","a":Atoms,"idx":[ints]}                                → {"ok":Atoms} | {"err":…}
   {"op":"extend_self","a":Atoms,"offsets":null|[5],"map":[[k,v],…]}        → {"ok":Atoms} | {"err":…}
-/
import MofunModel.Drive.Codec
import MofunModel.Model.TopoWide

open Lean Mofun.Codec

namespace Mofun.Drive

def parseIntList (j : Json) : P (List Int) := do (← arr j).mapM (·.getInt?)

def parseBoolList (j : Json) : P (List Bool) := do (← arr j).mapM (·.getBool?)

def termIToJson (t : TermI) : Json :=
  Json.mkObj [("a", Json.arr (t.atoms.map (fun (i : Int) => Json.num i)).toArray), ("ty", natJ t.ty), ("x", strs t.extra)]

def deleteRawToJson (r : Except Err DeleteRaw) : Json :=
  match r with
  | .error e => Json.mkObj [("err", Json.str e.toString)]
  | .ok d =>
    let tl := fun (l : List TermI) => Json.arr (l.map termIToJson).toArray
    Json.mkObj [("ok", Json.mkObj [
      ("atoms", Json.arr (d.atoms.map atomRowToJson).toArray),
      ("terms", Json.mkObj [("bond", tl d.bonds), ("angle", tl d.angles), ("dihedral", tl d.dihedrals),
                            ("improper", tl d.impropers)])])]

def handleWide (op : String) (j : Json) : Option (P Json) :=
  match op with
  | "delete_raw" => some do
      let a ← parseAtoms (← field j "a")
      -- `del a[2]`, `del a[1:3]`: not iterable -> TypeError (raised after the per-atom arrays were shortened)
      match (← field j "idx") with
      | .arr _ => pure (deleteRawToJson (a.deleteRaw (← parseIntList (← field j "idx"))))
      | _ => pure (Json.mkObj [("err", Json.str "error:type")])
  | "delete_mask" => some do
      let a ← parseAtoms (← field j "a")
      pure (deleteRawToJson (a.deleteMask (← parseBoolList (← field j "mask"))))
  | "delete_norm" => some do
      let a ← parseAtoms (← field j "a")
      pure (resultToJson (a.deleteNorm (← parseIntList (← field j "idx"))))
  | "getitem_i" => some do
      let a ← parseAtoms (← field j "a")
      pure (resultToJson (a.getitemI (← parseIntList (← field j "idx"))))
  | "extend_self" => some do
      let a ← parseAtoms (← field j "a")
      let off ← parseOffsets (fieldD j "offsets" Json.null)
      let m ← parsePairs (fieldD j "map" (Json.arr #[]))
      pure (resultToJson (a.extendSelf off m))
  | _ => none

end Mofun.Drive
