/- line-protocol handlers for the Mass ops (C14): guess, guess1, load_elements -/
import MofunModel.Drive.Codec
import MofunModel.Model.Mass

open Lean Mofun.Codec

namespace Mofun.Drive

def parseComments (j : Json) : P (List (Option String)) := do
  (← arr j).mapM (fun c => if c.isNull then pure none else do pure (some (← c.getStr?)))

/-- `some result` when the op belongs to this handler -/
def handleMass (op : String) (j : Json) : Option (P Json) :=
  match op with
  | "guess" => some do
      -- guess_elements_from_masses(masses, max_delta=tol) on the generated table
      let ms ← parseRatList (← field j "masses")
      let tol ← parseRat (← field j "tol")
      match guessElements tol ms with
      | .ok els => pure (Json.mkObj [("ok", strs els)])
      | .error e => pure (Json.mkObj [("err", Json.str e.toString)])
  | "load_elements" => some do
      -- the element / label inference of load_lmpdat
      let ms ← parseRatList (← field j "masses")
      let tol ← parseRat (← field j "tol")
      let cs ← parseComments (← field j "comments")
      let els := loadElements massTable tol ms
      pure (Json.mkObj [("ok", Json.mkObj [("elements", strs els), ("labels", strs (loadLabels cs els))])])
  | "load_masses" => some do
      -- the Masses section as it stands in the file: lines (type id, mass, comment) in FILE order
      let tol ← parseRat (← field j "tol")
      let lines ← (← arr (← field j "lines")).mapM (fun l => do
        let c := fieldD l "comment" Json.null
        let cm : Option String ← if c.isNull then pure none else do pure (some (← c.getStr?))
        pure ({ id := ← parseNat (← field l "id"), mass := ← parseRat (← field l "mass"), comment := cm } : MassLine))
      let (els, labels) := loadMasses massTable tol lines
      pure (Json.mkObj [("ok", Json.mkObj [("elements", strs els), ("labels", strs labels)])])
  | "guess_one_sided" => some do
      -- the historical defective scan (diagnostics only; never compared with the code)
      let m ← parseRat (← field j "mass")
      let tol ← parseRat (← field j "tol")
      match guessOneSided massTable tol m with
      | some s => pure (Json.mkObj [("ok", Json.str s)])
      | none => pure (Json.mkObj [("err", Json.str "reject:mass")])
  | _ => none

end Mofun.Drive
