/-
  line-protocol handlers for the rotation construction of the pattern search (Model/QuatHelpers.lean at `Float`):
    "qftv"       quaternion_from_two_vectors(p1, p2)            (rv = the value np.random.random(3) would return)
    "qftvaa"     quaternion_from_two_vectors_around_axis(p1, p2, axis)
    "farthest"   position_index_farthest_from_axis(axis, positions)
    "resolve"    hint defaults of find_pattern_in_structure (axis pair, translation, orientation point)
    "match_quat" the quaternion the candidate loop builds for one candidate (+ the rotated, re-translated pattern)
  Doubles come in as exact rationals ("n/d", dyadic) and go out as the exact decimal expansion of their binary value.
  Next to every result the handler reports which branch was taken and how far the branch conditions were from flipping
  (diagnostics computed with the model's own pieces; the harness uses them only to set near-degenerate inputs aside).
-/
import MofunModel.Drive.Codec
import MofunModel.Drive.UffOps
import MofunModel.Model.QuatHelpers

open Lean Mofun.Codec Mofun.QuatH Mofun.Uff

namespace Mofun.Drive

def ratToFloat (q : Rat) : Float := ElemFun.ofRat q

def parseFV3 (j : Json) : P (V3 Float) := do
  match ← parseRatList j with
  | [x, y, z] => pure ⟨ratToFloat x, ratToFloat y, ratToFloat z⟩
  | _ => throw "vec3 expected"

def parseFV3List (j : Json) : P (List (V3 Float)) := do (← arr j).mapM parseFV3

def fv3J (v : V3 Float) : Json := Json.arr #[floatToJson v.x, floatToJson v.y, floatToJson v.z]
def fq4J (q : Q4 Float) : Json := Json.arr #[floatToJson q.x, floatToJson q.y, floatToJson q.z, floatToJson q.w]

def optNat (j : Json) : P (Option Nat) := if j.isNull then pure none else do pure (some (← parseNat j))
def optNatJson : Option Nat → Json
  | none => Json.null
  | some n => natJ n

def fmax3 (v : V3 Float) : Float := max (Float.abs v.x) (max (Float.abs v.y) (Float.abs v.z))

/-- diagnostics of `quaternion_from_two_vectors`: branch taken, angle, largest |component| of the raw cross product -/
def diagTwo (p1 p2 : V3 Float) : List (String × Json) :=
  let v1 := V3.divs p1 (V3.norm p1)
  let v2 := V3.divs p2 (V3.norm p2)
  let angle := QNum.arccos (clampDot v1 v2)
  let axis := V3.cross v1 v2
  [("degenerate", Json.bool (degenerateBranch axis angle)), ("angle", floatToJson angle),
   ("cmax", floatToJson (fmax3 axis)), ("n1", floatToJson (V3.norm p1)), ("n2", floatToJson (V3.norm p2))]

def closeMargin (a b : Float) : Float := Float.abs (Float.abs (a - b) - (1e-8 + 1e-3 * Float.abs b))

/-- diagnostics of `quaternion_from_two_vectors_around_axis`: sign branch, angle, norms of the two projections, distance
    of the isclose test from flipping (null when the test is not evaluated) -/
def diagAround (p1 p2 axis : V3 Float) : List (String × Json) :=
  let q1 := projectOff p1 axis
  let q2 := projectOff p2 axis
  let v1 := V3.divs q1 (V3.norm q1)
  let v2 := V3.divs q2 (V3.norm q2)
  let angle := QNum.arccos (clampDot v1 v2)
  let ax := normaliseAxis axis
  let c := V3.divs (V3.cross v1 v2) (V3.norm (V3.cross v1 v2))
  let evaluated := !(angle == 0.0 || angle == 3.141592653589793)
  let margin := min (closeMargin ax.x c.x) (min (closeMargin ax.y c.y) (closeMargin ax.z c.z))
  [("flip", Json.bool (flipBranch ax v1 v2 angle)), ("angle2", floatToJson angle),
   ("m1", floatToJson (V3.norm q1)), ("m2", floatToJson (V3.norm q2)), ("naxis", floatToJson (V3.norm axis)),
   ("margin", if evaluated then floatToJson margin else Json.null)]

def handleQuat (op : String) (j : Json) : Option (P Json) :=
  match op with
  | "qftv" => some do
      let p1 ← parseFV3 (← field j "p1")
      let p2 ← parseFV3 (← field j "p2")
      let rv ← parseFV3 (← field j "rv")
      let q := quaternionFromTwoVectors rv p1 p2
      pure (Json.mkObj ([("q", fq4J q)] ++ diagTwo p1 p2))
  | "qftvaa" => some do
      let p1 ← parseFV3 (← field j "p1")
      let p2 ← parseFV3 (← field j "p2")
      let ax ← parseFV3 (← field j "axis")
      let q := quaternionFromTwoVectorsAroundAxis p1 p2 ax
      pure (Json.mkObj ([("q", fq4J q)] ++ diagAround p1 p2 ax))
  | "farthest" => some do
      let ax ← parseFV3 (← field j "axis")
      let pos ← parseFV3List (← field j "pos")
      let rv ← parseFV3 (← field j "rv")
      let q := quaternionFromTwoVectors rv ax (⟨1.0, 0.0, 0.0⟩ : V3 Float)
      let ss := offAxisSS q pos
      pure (Json.mkObj ([("idx", natJ (positionIndexFarthestFromAxis rv ax pos)),
                         ("ss", Json.arr (ss.map floatToJson).toArray)] ++ diagTwo ax ⟨1.0, 0.0, 0.0⟩))
  | "resolve" => some do
      let pp ← parseFV3List (← field j "ppos")
      let hints ← (← arr (← field j "hints")).mapM optNat
      let rv ← parseFV3 (← field j "rv")
      let (ax1, ax2) := resolveAxis pp (hints.getD 0 none) (hints.getD 1 none)
      let tp := translatePattern pp ax1
      let ro := resolveOpoint rv tp ax2 (hints.getD 2 none)
      let q := quaternionFromTwoVectors rv (getV tp ax2) (⟨1.0, 0.0, 0.0⟩ : V3 Float)
      pure (Json.mkObj ([("axis", Json.arr #[natJ ax1, natJ ax2, optNatJson ro]),
                        ("pss", Json.arr ((pp.flatMap (fun p => pp.map (fun r => sqDist p r))).map floatToJson).toArray),
                        ("ss", Json.arr ((offAxisSS q tp).map floatToJson).toArray),
                        ("tp", Json.arr (tp.map fv3J).toArray)] ++ diagTwo (getV tp ax2) ⟨1.0, 0.0, 0.0⟩))
  | "match_quat" => some do
      let pp ← parseFV3List (← field j "ppos")
      let ap ← parseFV3List (← field j "apos")
      let rv ← parseFV3 (← field j "rv")
      let ax1 ← parseNat (← field j "ax1")
      let ax2 ← parseNat (← field j "ax2")
      let opn ← optNat (fieldD j "opoint" Json.null)
      let o := opn.getD 0
      let tp := translatePattern pp ax1
      let q := matchQuat rv tp ap ax1 ax2 o
      let chk := checkPositions q tp ap ax1
      let searchAxis := getV tp ax2
      let matchAxis := V3.sub (getV ap ax2) (getV ap ax1)
      let d1 := if ap.length > 1 then diagTwo searchAxis matchAxis else []
      let d2 := if ap.length > 2 then
          let q1 := quaternionFromTwoVectors rv searchAxis matchAxis
          diagAround (applyRot q1 (getV tp o)) (V3.sub (getV ap o) (getV ap ax1)) matchAxis
        else []
      pure (Json.mkObj ([("q", fq4J q), ("chk", Json.arr (chk.map fv3J).toArray),
                         ("tp", Json.arr (tp.map fv3J).toArray)] ++ d1 ++ d2))
  | _ => none

end Mofun.Drive
