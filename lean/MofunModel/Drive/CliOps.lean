/- line-protocol handler for the command-line model (property C20)

   op "cli_plan": {"opts": {…}, "cell_diag": [q,q,q] | null, "ortho": bool}
                  → {"calls": [{"f": str, "args": {…}}, …]}  |  {"err": str}
   The suffix classes of the two positional paths are computed HERE by the model (`inputIsNative`,
   `outputIsNative`), the harness only sends the path strings. -/
import MofunModel.Drive.Codec
import MofunModel.Drive.ReplaceOps
import MofunModel.Model.Cli
import MofunModel.Model.CliRun
import MofunModel.Model.CliArgs

open Lean Mofun.Codec Mofun.Cli

namespace Mofun.Drive

private def optField (j : Json) (k : String) : Json := fieldD j k Json.null

private def parseOptStr (j : Json) : P (Option String) :=
  if j.isNull then pure none else do pure (some (← j.getStr?))

private def parseOptInt (j : Json) : P (Option Int) :=
  if j.isNull then pure none else do pure (some (← j.getInt?))

private def parseOptRat (j : Json) : P (Option Rat) :=
  if j.isNull then pure none else do pure (some (← parseRat j))

private def parseOptDims (j : Json) : P (Option (Nat × Nat × Nat)) :=
  if j.isNull then pure none else do
    match ← parseNatList j with
    | [a, b, c] => pure (some (a, b, c))
    | _ => throw "replicate: three numbers expected"

def parseCliOptions (j : Json) : P Cli.Options := do
  let input ← (← field j "input").getStr?
  let output ← (← field j "output").getStr?
  let pp ← (fieldD j "pp" (Json.bool false)).getBool?
  pure {
    input := input, inputNative := inputIsNative input,
    output := output, outputNative := outputIsNative output,
    findPath := ← parseOptStr (optField j "find"),
    replacePath := ← parseOptStr (optField j "replace"),
    replaceFraction := ← parseRat (fieldD j "fraction" (Json.str "1")),
    atol := ← parseRat (fieldD j "atol" (Json.str "1/20")),
    hints := ⟨← parseOptInt (optField j "ap1"), ← parseOptInt (optField j "ap2"), ← parseOptInt (optField j "op")⟩,
    dumpPath := ← parseOptStr (optField j "dump"),
    extractUc := ← parseOptStr (optField j "extract_uc"),
    chargefile := ← parseOptStr (optField j "chargefile"),
    replicate := ← parseOptDims (optField j "replicate"),
    mic := ← parseOptRat (optField j "mic"),
    frameworkElement := ← parseOptStr (optField j "framework_element"),
    pp := pp }

def parseCellInfo (diag : Json) (ortho : Json) : P (Option CellInfo) := do
  if diag.isNull then pure none else
  match ← parseRatList diag with
  | [a, b, c] => pure (some ⟨(a, b, c), ← ortho.getBool?⟩)
  | _ => throw "cell_diag: three numbers expected"

private def optIntJ : Option Int → Json
  | none => Json.null
  | some i => Json.num i

private def hintsJ (h : Hints) : List (String × Json) :=
  [("ap1", optIntJ h.axisp1), ("ap2", optIntJ h.axisp2), ("op", optIntJ h.opoint)]

private def callJ (f : String) (args : List (String × Json)) : Json :=
  Json.mkObj [("f", Json.str f), ("args", Json.mkObj args)]

def callToJson : Call → Json
  | .load p => callJ "load" [("path", Json.str p)]
  | .loadAse p => callJ "loadAse" [("path", Json.str p)]
  | .setCellFrom p => callJ "setCellFrom" [("path", Json.str p)]
  | .setPositionsFromDump p => callJ "setPositionsFromDump" [("path", Json.str p)]
  | .setCharges f => callJ "setCharges" [("file", Json.str f)]
  | .replicate (a, b, c) => callJ "replicate" [("dims", nats [a, b, c])]
  | .micReplicate (a, b, c) => callJ "micReplicate" [("dims", Json.arr #[Json.num a, Json.num b, Json.num c])]
  | .micSkippedNotOrtho => callJ "micSkippedNotOrtho" []
  | .assignPair => callJ "assignPair" []
  | .loadPattern p => callJ "loadPattern" [("path", Json.str p)]
  | .find a h => callJ "find" ([("atol", ratToJson a)] ++ hintsJ h)
  | .replace a h f => callJ "replace" ([("atol", ratToJson a)] ++ hintsJ h ++ [("fraction", ratToJson f)])
  | .warnReplaceWithoutFind => callJ "warnReplaceWithoutFind" []
  | .setFrameworkElement e => callJ "setFrameworkElement" [("e", Json.str e)]
  | .save p => callJ "save" [("path", Json.str p)]
  | .saveAse p => callJ "saveAse" [("path", Json.str p)]

/-! ### op "cli_run": the plan executed over the models (Model/CliRun.lean)

   {"opts": {…}, "files": {path: atoms | {"err": s}}, "ase": {path: atoms}, "dump": {path: [[q,q,q]…]},
    "charges": {path: [q…]}, "search": [{"idx","pos","quat"}…], "sample": [n…] | null, "pair_text": {key: text}}
   → {"ok": {"written": {…}, "reported": [[n…]…] | null}} | {"err": s}
   `run` = runPlan, `api` = apiPipeline (both are returned; the theorems say they agree) -/

private def lookupObj (j : Json) (k : String) : Option Json :=
  match j.getObjVal? k with
  | .ok v => some v
  | .error _ => none

private def errOfString (s : String) : Err :=
  if s = "error:nocell" then .nocell else if s = "error:index" then .index else if s = "overlap" then .overlap
  else if s = "domain" then .domain else .reject s

private def loadFrom (tbl : Json) (path : String) : Except Err Atoms :=
  match lookupObj tbl path with
  | none => .error (.reject "no such file")
  | some v =>
    match v.getObjVal? "err" with
    | .ok e => .error (errOfString (e.getStr?.toOption.getD "error"))
    | .error _ =>
      match parseAtoms v with
      | .ok a => .ok a
      | .error _ => .error (.reject "unparsable")

def parseCliEnv (j : Json) : P Env := do
  let files := fieldD j "files" (Json.mkObj [])
  let ase := fieldD j "ase" (Json.mkObj [])
  let dump := fieldD j "dump" (Json.mkObj [])
  let charges := fieldD j "charges" (Json.mkObj [])
  let pairText := fieldD j "pair_text" (Json.mkObj [])
  let found ← (← arr (fieldD j "search" (Json.arr #[]))).mapM parsePlaced
  let sampleJ := fieldD j "sample" Json.null
  let sample ← if sampleJ.isNull then pure [] else parseNatList sampleJ
  pure {
    loadLmpdat := loadFrom files, loadCml := loadFrom files, loadCif := loadFrom files,
    aseRead := loadFrom ase,
    dumpPositions := fun p => match lookupObj dump p with
      | none => .error (.reject "no such file")
      | some v => match (do (← arr v).mapM parseVec3 : P (List Vec3)) with
        | .ok l => .ok l
        | .error _ => .error (.reject "unparsable"),
    chargeValues := fun p => match lookupObj charges p with
      | none => .error (.reject "no such file")
      | some v => match parseRatList v with
        | .ok l => .ok l
        | .error _ => .error (.reject "unparsable"),
    search := fun _ _ _ _ => found,
    sample := fun _ _ => sample,
    pairText := fun k => match lookupObj pairText k with
      | some (Json.str t) => t
      | _ => k }

def writtenToJson : Written → Json
  | .native p fmt a =>
    Json.mkObj [("kind", Json.str "native"), ("path", Json.str p),
                ("fmt", Json.str (match fmt with | .lmpdat => "lmpdat" | .mol => "mol" | .cif => "cif")),
                ("atoms", atomsToJson a)]
  | .ase p els pos cell =>
    Json.mkObj [("kind", Json.str "ase"), ("path", Json.str p), ("elems", strs els),
                ("pos", Json.arr (pos.map vec3ToJson).toArray), ("cell", cellToJson cell)]

def outputToJson : Except Err Output → Json
  | .error e => Json.mkObj [("err", Json.str e.toString)]
  | .ok o => Json.mkObj [("ok", Json.mkObj [("written", writtenToJson o.written),
      ("reported", match o.reported with
        | none => Json.null
        | some ms => Json.arr (ms.map nats).toArray)])]

/-! ### op "cli_parse": argv ↦ Options (Model/CliArgs.lean) -/

private def optStrJ : Option String → Json
  | none => Json.null
  | some s => Json.str s

def optionsToJson (o : Cli.Options) : Json :=
  Json.mkObj [("input", Json.str o.input), ("output", Json.str o.output), ("find", optStrJ o.findPath),
    ("replace", optStrJ o.replacePath), ("fraction", ratToJson o.replaceFraction), ("atol", ratToJson o.atol),
    ("ap1", optIntJ o.hints.axisp1), ("ap2", optIntJ o.hints.axisp2), ("op", optIntJ o.hints.opoint),
    ("dump", optStrJ o.dumpPath), ("extract_uc", optStrJ o.extractUc), ("chargefile", optStrJ o.chargefile),
    ("replicate", match o.replicate with
      | none => Json.null
      | some (a, b, c) => nats [a, b, c]),
    ("mic", match o.mic with
      | none => Json.null
      | some m => ratToJson m),
    ("framework_element", optStrJ o.frameworkElement), ("pp", Json.bool o.pp),
    ("input_native", Json.bool o.inputNative), ("output_native", Json.bool o.outputNative)]

def argErrName : ArgErr → String
  | .noSuchOption => "NoSuchOption"
  | .missingValue => "BadOptionUsage"
  | .noValueAllowed => "BadOptionUsage"
  | .badValue => "BadParameter"
  | .missingArgument => "MissingParameter"
  | .extraArgument => "UsageError"
  | .help => "help"
  | .outOfModel => "out-of-model"

def handleCli (op : String) (j : Json) : Option (P Json) :=
  match op with
  | "cli_run" => some do
      let o ← parseCliOptions (← field j "opts")
      let env ← parseCliEnv j
      pure (Json.mkObj [("run", outputToJson (runPlan env o)), ("api", outputToJson (apiPipeline env o))])
  | "cli_parse" => some do
      let argv ← parseStrList (← field j "argv")
      match parseArgs argv with
      | .ok o => pure (Json.mkObj [("ok", optionsToJson o)])
      | .error e => pure (Json.mkObj [("err", Json.str (argErrName e))])
  | "cli_plan" => some do
      let o ← parseCliOptions (← field j "opts")
      let c ← parseCellInfo (fieldD j "cell_diag" Json.null) (fieldD j "ortho" (Json.bool false))
      match plan o c with
      | .ok cs => pure (Json.mkObj [("calls", Json.arr (cs.map callToJson).toArray)])
      | .error e => pure (Json.mkObj [("err", Json.str e.toString)])
  | "cli_suffix" => some do
      let p ← (← field j "path").getStr?
      pure (Json.mkObj [("suffix", Json.str (suffixOf p)), ("in", Json.bool (inputIsNative p)),
                        ("out", Json.bool (outputIsNative p))])
  | _ => none

end Mofun.Drive
