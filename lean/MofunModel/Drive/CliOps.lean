/- line-protocol handler for the command-line model (property C20)

   op "cli_plan": {"opts": {…}, "cell_diag": [q,q,q] | null, "ortho": bool}
                  → {"calls": [{"f": str, "args": {…}}, …]}  |  {"err": str}
   The suffix classes of the two positional paths are computed HERE by the model (`inputIsNative`,
   `outputIsNative`), the harness only sends the path strings. -/
import MofunModel.Drive.Codec
import MofunModel.Model.Cli

open Lean Mofun.Codec Mofun.Cli

namespace Mofun.Drive

private def optField (j : Json) (k : String) : Json := fieldD j k Json.null

private def parseOptStr (j : Json) : P (Option String) :=
  if j.isNull then pure none else do pure (some (← j.getStr?))

private def parseOptInt (j : Json) : P (Option Int) :=
  if j.isNull then pure none else do pure (some (← j.getInt?))

private def parseOptRat (j : Json) : P (Option Rat) :=
  if j.isNull then pure none else do pure (some (← parseRat j))

private def parseOptDims (j : Json) : P (Option (Nat × Nat × Nat)) :=
  if j.isNull then pure none else do
    match ← parseNatList j with
    | [a, b, c] => pure (some (a, b, c))
    | _ => throw "replicate: three numbers expected"

def parseCliOptions (j : Json) : P Cli.Options := do
  let input ← (← field j "input").getStr?
  let output ← (← field j "output").getStr?
  let pp ← (fieldD j "pp" (Json.bool false)).getBool?
  pure {
    input := input, inputNative := inputIsNative input,
    output := output, outputNative := outputIsNative output,
    findPath := ← parseOptStr (optField j "find"),
    replacePath := ← parseOptStr (optField j "replace"),
    replaceFraction := ← parseRat (fieldD j "fraction" (Json.str "1")),
    atol := ← parseRat (fieldD j "atol" (Json.str "1/20")),
    hints := ⟨← parseOptInt (optField j "ap1"), ← parseOptInt (optField j "ap2"), ← parseOptInt (optField j "op")⟩,
    dumpPath := ← parseOptStr (optField j "dump"),
    extractUc := ← parseOptStr (optField j "extract_uc"),
    chargefile := ← parseOptStr (optField j "chargefile"),
    replicate := ← parseOptDims (optField j "replicate"),
    mic := ← parseOptRat (optField j "mic"),
    frameworkElement := ← parseOptStr (optField j "framework_element"),
    pp := pp }

def parseCellInfo (diag : Json) (ortho : Json) : P (Option CellInfo) := do
  if diag.isNull then pure none else
  match ← parseRatList diag with
  | [a, b, c] => pure (some ⟨(a, b, c), ← ortho.getBool?⟩)
  | _ => throw "cell_diag: three numbers expected"

private def optIntJ : Option Int → Json
  | none => Json.null
  | some i => Json.num i

private def hintsJ (h : Hints) : List (String × Json) :=
  [("ap1", optIntJ h.axisp1), ("ap2", optIntJ h.axisp2), ("op", optIntJ h.opoint)]

private def callJ (f : String) (args : List (String × Json)) : Json :=
  Json.mkObj [("f", Json.str f), ("args", Json.mkObj args)]

def callToJson : Call → Json
  | .load p => callJ "load" [("path", Json.str p)]
  | .loadAse p => callJ "loadAse" [("path", Json.str p)]
  | .setCellFrom p => callJ "setCellFrom" [("path", Json.str p)]
  | .setPositionsFromDump p => callJ "setPositionsFromDump" [("path", Json.str p)]
  | .setCharges f => callJ "setCharges" [("file", Json.str f)]
  | .replicate (a, b, c) => callJ "replicate" [("dims", nats [a, b, c])]
  | .micReplicate (a, b, c) => callJ "micReplicate" [("dims", Json.arr #[Json.num a, Json.num b, Json.num c])]
  | .micSkippedNotOrtho => callJ "micSkippedNotOrtho" []
  | .assignPair => callJ "assignPair" []
  | .loadPattern p => callJ "loadPattern" [("path", Json.str p)]
  | .find a h => callJ "find" ([("atol", ratToJson a)] ++ hintsJ h)
  | .replace a h f => callJ "replace" ([("atol", ratToJson a)] ++ hintsJ h ++ [("fraction", ratToJson f)])
  | .warnReplaceWithoutFind => callJ "warnReplaceWithoutFind" []
  | .setFrameworkElement e => callJ "setFrameworkElement" [("e", Json.str e)]
  | .save p => callJ "save" [("path", Json.str p)]
  | .saveAse p => callJ "saveAse" [("path", Json.str p)]

def handleCli (op : String) (j : Json) : Option (P Json) :=
  match op with
  | "cli_plan" => some do
      let o ← parseCliOptions (← field j "opts")
      let c ← parseCellInfo (fieldD j "cell_diag" Json.null) (fieldD j "ortho" (Json.bool false))
      match plan o c with
      | .ok cs => pure (Json.mkObj [("calls", Json.arr (cs.map callToJson).toArray)])
      | .error e => pure (Json.mkObj [("err", Json.str e.toString)])
  | "cli_suffix" => some do
      let p ← (← field j "path").getStr?
      pure (Json.mkObj [("suffix", Json.str (suffixOf p)), ("in", Json.bool (inputIsNative p)),
                        ("out", Json.bool (outputIsNative p))])
  | _ => none

end Mofun.Drive
