/- line-protocol handlers for replacement -/
import MofunModel.Drive.FindOps
import MofunModel.Model.Replace

open Lean Mofun.Codec

namespace Mofun.Drive

def parsePlaced (j : Json) : P PlacedMatch := do
  pure { idx := ← parseNatList (← field j "idx"), pos := ← (← arr (← field j "pos")).mapM parseVec3,
         q := ← parseQuat (← field j "quat") }

def handleReplace (op : String) (j : Json) : Option (P Json) :=
  match op with
  | "replace" => some do
      let s ← parseAtoms (← field j "s")
      let p ← parseAtoms (← field j "p")
      let r ← parseAtoms (← field j "r")
      let ms ← (← arr (← field j "matches")).mapM parsePlaced
      let ra ← (fieldD j "replace_all" (Json.bool false)).getBool?
      let ig ← (fieldD j "ignore" (Json.bool false)).getBool?
      pure (resultToJson (replaceCore s p r ms ra ig))
  | "unchanged_pairs" => some do
      let a ← parseAtoms (← field j "orig")
      let b ← parseAtoms (← field j "final")
      pure (Json.mkObj [("pairs", Json.arr ((unchangedPairs a b).map (fun kv => nats [kv.1, kv.2])).toArray)])
  | _ => none

end Mofun.Drive
