/- line-protocol handlers for the LAMMPS data file ops (C13) -/
import MofunModel.Drive.Codec
import MofunModel.Model.Lmp

open Lean Mofun.Codec Mofun.Lmp

namespace Mofun.Drive

def parseStyle (j : Json) : P Style := do
  match ← j.getStr? with
  | "atomic" => pure .atomic
  | "full" => pure .full
  | s => throw s!"unknown atom style {s}"

def lineToJson (l : Line) : Json :=
  Json.mkObj [("t", strs l.tokens), ("c", match l.comment with | some c => Json.str c | none => Json.null)]

def parseLine (j : Json) : P Line := do
  let c := fieldD j "c" Json.null
  pure { tokens := ← parseStrList (← field j "t"),
         comment := ← (if c.isNull then pure none else do pure (some (← c.getStr?))) }

def parseTarget (j : Json) : P Target := do
  if j.isNull then pure .fileObj else pure (.path (← j.getStr?))

def parseOptStr (j : Json) : P (Option String) := do
  if j.isNull then pure none else pure (some (← j.getStr?))

def boolResult (r : Except Err Bool) : Json :=
  match r with
  | .ok b => Json.mkObj [("ok", Json.bool b)]
  | .error e => Json.mkObj [("err", Json.str e.toString)]

/-- the element guess observed on the real side: a list, or null when `guess_elements_from_masses` raised -/
def parseGuess (j : Json) : P (List Rat → Option (List String)) := do
  if j.isNull then pure (fun _ => none) else
    let e ← parseStrList j
    pure (fun _ => some e)

def handleLmp (op : String) (j : Json) : Option (P Json) :=
  match op with
  | "lmp_save" => some do
      let a ← parseAtoms (← field j "a")
      let st ← parseStyle (← field j "style")
      match saveLmp a st with
      | .ok ls => pure (Json.mkObj [("lines", Json.arr (ls.map lineToJson).toArray)])
      | .error e => pure (Json.mkObj [("err", Json.str e.toString)])
  | "lmp_load" => some do
      let ls ← (← arr (← field j "lines")).mapM parseLine
      let st ← parseStyle (← field j "style")
      let g ← parseGuess (fieldD j "elements" Json.null)
      pure (resultToJson (loadLmp g ls st))
  | "lmp_norm" => some do
      let a ← parseAtoms (← field j "a")
      let st ← parseStyle (← field j "style")
      let g ← parseGuess (fieldD j "elements" Json.null)
      pure (resultToJson (.ok (norm g st a)))
  | "lmp_dispatch" => some do
      let t ← parseTarget (fieldD j "ext" Json.null)
      let ft ← parseOptStr (fieldD j "filetype" Json.null)
      pure (Json.mkObj [("load", boolResult (loadsLmp t ft)), ("save", boolResult (savesLmp t ft))])
  | _ => none

end Mofun.Drive
