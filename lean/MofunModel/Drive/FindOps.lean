/- line-protocol handlers for the pattern search -/
import MofunModel.Drive.Codec
import MofunModel.Model.Find

open Lean Mofun.Codec

namespace Mofun.Drive

def parseOptNat (j : Json) : P (Option Nat) := if j.isNull then pure none else do pure (some (← parseNat j))

def parseQuat (j : Json) : P Quat := do
  match ← parseRatList j with
  | [x, y, z, w] => pure ⟨x, y, z, w⟩
  | _ => throw "quaternion expected"

def optNatJ : Option Nat → Json
  | none => Json.null
  | some n => natJ n

def parseFindInput (j : Json) : P FindInput := do
  let cell ← parseCell (← field j "cell")
  match cell with
  | none => throw "find needs a cell"
  | some c =>
    pure { elems := ← parseStrList (← field j "elems"), pos := ← (← arr (← field j "pos")).mapM parseVec3,
           cell := c, pelems := ← parseStrList (← field j "pelems"),
           ppos := ← (← arr (← field j "ppos")).mapM parseVec3, atol := ← parseRat (← field j "atol") }

def handleFind (op : String) (j : Json) : Option (P Json) :=
  match op with
  | "find" => some do
      -- the search works on the images of the atoms inside the cell (`findW = find ∘ wrapped`)
      let inp := (← parseFindInput j).wrapped
      let hints ← (← arr (← field j "hints")).mapM parseOptNat
      let h1 := hints.getD 0 none; let h2 := hints.getD 1 none; let ho := hints.getD 2 none
      let (r1, r2) := resolveAxis inp.ppos h1 h2
      let ro := resolveOpoint inp.ppos r1 r2 ho
      -- the axis actually used: exported by the code (hook) when given, else the model's own resolution
      let axis ← (← arr (fieldD j "axis" (Json.arr #[]))).mapM parseOptNat
      let ax1 := (axis.getD 0 none).getD r1
      -- the oracle: quaternion of every candidate tuple as the code computed it, keyed BY TUPLE (the order in which the
      -- code enumerates candidates depends on a float sort of coordinates that can tie at the last bit; the set does not)
      let table ← (← arr (fieldD j "oracle" (Json.arr #[]))).mapM (fun e => do
        pure ((← parseNatList (← field e "t")), (← parseQuat (← field e "q"))))
      let chosen ← (← arr (fieldD j "chosen" (Json.arr #[]))).mapM parseNatList
      let lookup := fun (t : List Nat) => ((table.find? (fun e => e.1 = t)).map (·.2)).getD Quat.identity
      -- candidate tuples do not depend on the oracle: enumerate them once, then index the oracle by (group, position)
      let (_, groups0) := findGroups inp ax1 (fun _ _ => Quat.identity)
      let oracle := fun (g i : Nat) => lookup (((groups0.getD g default).tuples).getD i [])
      let (near, groups) := findGroups inp ax1 oracle
      -- the code's pick among several good candidates of a group (random.choice): the chosen tuple, if it is one of them
      let choose := fun (g : Nat) (many : List Nat) =>
        let ts := (groups.getD g default).tuples
        (many.findIdx? (fun i => chosen.contains (ts.getD i []))).getD 0
      let ms := find inp ax1 oracle choose
      pure (Json.mkObj [
        ("resolved", Json.arr #[natJ r1, natJ r2, optNatJ ro]),
        ("near", nats near),
        ("groups", Json.arr (groups.map (fun g => Json.mkObj [("key", nats g.key),
            ("tuples", Json.arr (g.tuples.map nats).toArray), ("good", nats g.good),
            ("good_tuples", Json.arr ((g.good.map (fun i => g.tuples.getD i [])).map nats).toArray)])).toArray),
        ("matches", Json.arr (ms.map (fun m => Json.mkObj [("idx", nats m.idx),
            ("pos", Json.arr (m.pos.map vec3ToJson).toArray)])).toArray)])
  | "rot" => some do
      let q ← parseQuat (← field j "q")
      let v ← parseVec3 (← field j "v")
      pure (Json.mkObj [("v", vec3ToJson (rot q v))])
  | _ => none

end Mofun.Drive
