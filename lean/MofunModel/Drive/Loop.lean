/-
  Loop.lean — the generic line-protocol loop: one JSON op per line on stdin, one canonical JSON result per
  line on stdout.  An area driver (lean/drivers/*.lean) supplies the handlers.
-/
import Lean.Data.Json

open Lean

namespace Mofun.Drive

abbrev Handler := String → Json → Option (Except String Json)

def step (handlers : List Handler) (line : String) : String :=
  match Json.parse line with
  | .error e => (Json.mkObj [("bad", Json.str e)]).compress
  | .ok j =>
    match j.getObjVal? "op" >>= (·.getStr?) with
    | .error e => (Json.mkObj [("bad", Json.str e)]).compress
    | .ok op =>
      match handlers.findSome? (fun h => h op j) with
      | none => (Json.mkObj [("bad", Json.str ("unknown op " ++ op))]).compress
      | some (.error e) => (Json.mkObj [("bad", Json.str e)]).compress
      | some (.ok r) => r.compress

partial def loop (handlers : List Handler) (h : IO.FS.Stream) (out : IO.FS.Stream) : IO Unit := do
  let line ← h.getLine
  if line.isEmpty then return ()
  if line.trimAscii.isEmpty then loop handlers h out else
  out.putStrLn (step handlers line)
  loop handlers h out

def mainWith (handlers : List Handler) : IO Unit := do
  let out ← IO.getStdout
  loop handlers (← IO.getStdin) out
  out.flush

end Mofun.Drive
