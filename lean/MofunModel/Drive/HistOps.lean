/- line-protocol handler for operation histories (property C09)

   {"op":"hist","init":[Atoms|null, …],"ops":[Op, …],"dump":"full"|"changed"}
     Op = {"k":"construct","dst":i,"a":Atoms} | {"k":"copy","src":i,"dst":j} | {"k":"delete","slot":i,"idx":[…]}
        | {"k":"pop","slot":i,"i":int} | {"k":"extend","dst":i,"src":j,"offsets":null|[5 nats],"map":[[k,v],…]}
        | {"k":"replicate","src":i,"dst":j,"dims":[a,b,c]} | {"k":"getitem","src":i,"dst":j,"idx":[…]}
   → a list with one entry per op:  {"ok":[Atoms|null, …]}   the whole state after the step ("dump":"full", default)
                                    {"ok":{"slot":i,"a":Atoms}} only the slot the op wrote        ("dump":"changed")
                                    {"err":"…"}                the step failed
                                    {"skipped":true}           a previous step failed
   every "ok" entry also carries "guarded": whether the op satisfied the guard of the theorems
   (`GuardedOpW s op ∧ AlignedOpW op`, decided by the instances the theorems are stated with) in the state it ran in.
   Widened ops (Model/HistWide.lean): {"k":"extend"} with dst = src is the object extended with ITSELF, {"k":"getitem"}
   may list negative / repeated integers, {"k":"delete"} may list negative / repeated / unsorted integers (normalised to a set: deleteI).
-/
import MofunModel.Drive.Codec
import MofunModel.Model.Hist
import MofunModel.Proofs.HistMeaning
import MofunModel.Proofs.HistWideLemmas

open Lean Mofun.Codec Mofun.Hist

namespace Mofun.Drive

def parseBaseOp (j : Json) : P Op := do
  let k ← (← field j "k").getStr?
  match k with
  | "construct" => pure (.construct (← parseNat (← field j "dst")) (← parseAtoms (← field j "a")))
  | "copy" => pure (.copy (← parseNat (← field j "src")) (← parseNat (← field j "dst")))
  | "delete" => pure (.delete (← parseNat (← field j "slot")) (← parseNatList (← field j "idx")))
  | "pop" => pure (.pop (← parseNat (← field j "slot")) (← (← field j "i").getInt?))
  | "extend" => pure (.extend (← parseNat (← field j "dst")) (← parseNat (← field j "src"))
        (← parseOffsets (fieldD j "offsets" Json.null)) (← parsePairs (fieldD j "map" (Json.arr #[]))))
  | "replicate" => do
      match ← parseNatList (← field j "dims") with
      | [x, y, z] => pure (.replicate (← parseNat (← field j "src")) (← parseNat (← field j "dst")) x y z)
      | _ => throw "dims"
  | "getitem" => pure (.getitem (← parseNat (← field j "src")) (← parseNat (← field j "dst"))
        (← parseNatList (← field j "idx")))
  | _ => throw ("unknown history op " ++ k)

/-- widened ops: an extend whose two slots coincide is the object extended with ITSELF (`extendSelf`), a subset
    with a negative integer is `getitemI`; everything else is an op of Model/Hist.lean -/
def parseHistOp (j : Json) : P OpW := do
  let k ← (← field j "k").getStr?
  match k with
  | "extend" => do
      -- the public spelling: offsets of any length (or null), map entries as python integers; dst = src is the
      -- object extended with itself (Model/HistWide.lean `extendA`, Model/ExtendApi.lean)
      let dst ← parseNat (← field j "dst")
      let src ← parseNat (← field j "src")
      let offJ := fieldD j "offsets" Json.null
      let off ← if offJ.isNull then pure none else do pure (some (← parseNatList offJ))
      let m ← (← arr (fieldD j "map" (Json.arr #[]))).mapM (fun p => do
        match ← (← arr p).mapM (·.getInt?) with
        | [a, b] => pure (a, b)
        | _ => throw "pair expected")
      pure (.extendA dst src off m)
  | "getitem" => do
      let idx ← (← arr (← field j "idx")).mapM (·.getInt?)
      if idx.isEmpty || idx.any (fun i => i < 0) then   -- the empty selection is the atom-less subset (getitemI)
        pure (.getitemI (← parseNat (← field j "src")) (← parseNat (← field j "dst")) idx)
      else pure (.base (← parseBaseOp j))
  | "delete" => do
      -- `del slot[idx]`: the code normalises any list of integers in [-n, n) to a set of positions
      pure (.deleteI (← parseNat (← field j "slot")) (← (← arr (← field j "idx")).mapM (·.getInt?)))
  | _ => pure (.base (← parseBaseOp j))

/-- the slot an op writes -/
def Op.target : Op → Nat
  | .construct dst _ => dst
  | .copy _ dst => dst
  | .delete slot _ => slot
  | .pop slot _ => slot
  | .extend dst _ _ _ => dst
  | .replicate _ dst _ _ _ => dst
  | .getitem _ dst _ => dst

def slotToJson : Option Atoms → Json
  | none => Json.null
  | some a => atomsToJson a

def stateToJson (s : State) : Json := Json.arr (s.map slotToJson).toArray

def parseState (j : Json) : P State := do
  (← arr j).mapM (fun x => if x.isNull then pure none else do pure (some (← parseAtoms x)))

def OpW.target : OpW → Nat
  | .base op => Op.target op
  | .deleteI slot _ => slot
  | .getitemI _ dst _ => dst
  | .extendSelf slot _ _ => slot
  | .extendA dst _ _ _ => dst

def stepResultToJson (full : Bool) (op : OpW) (guarded : Bool) : Option (Except Err State) → Json
  | none => Json.mkObj [("skipped", Json.bool true)]
  | some (.error e) => Json.mkObj [("err", Json.str e.toString)]
  | some (.ok s) =>
    if full then Json.mkObj [("ok", stateToJson s), ("guarded", Json.bool guarded)]
    else Json.mkObj [("ok", Json.mkObj [("slot", natJ (OpW.target op)),
                                         ("a", slotToJson ((s[OpW.target op]?).getD none))]),
                     ("guarded", Json.bool guarded)]

/-- the state each op ran in: the initial state, then the result of the previous step (while steps succeed) -/
def preStates (init : State) : List (Option (Except Err State)) → List State
  | [] => []
  | r :: rest =>
    init :: (match r with
      | some (.ok s) => preStates s rest
      | _ => rest.map (fun _ => init))

def handleHist (op : String) (j : Json) : Option (P Json) :=
  match op with
  | "hist" => some do
      let init ← match j.getObjVal? "init" with
        | .ok v => parseState v
        | .error _ => pure State.init
      let ops ← (← arr (← field j "ops")).mapM parseHistOp
      let full := match (fieldD j "dump" (Json.str "full")).getStr? with
        | .ok "changed" => false
        | _ => true
      let results := traceW init ops
      let pres := preStates init results
      pure (Json.arr ((ops.zip (results.zip pres)).map (fun (o, r, pre) =>
        stepResultToJson full o (decide (GuardedOpW pre o ∧ AlignedOpW o)) r)).toArray)
  | _ => none

end Mofun.Drive
