/- line-protocol handlers for the Topo ops -/
import MofunModel.Drive.Codec

open Lean Mofun.Codec

namespace Mofun.Drive

/-- `some result` when the op belongs to this handler -/
def handleTopo (op : String) (j : Json) : Option (P Json) :=
  match op with
  | "delete" => some do
      let a ← parseAtoms (← field j "a")
      let idx ← parseNatList (← field j "idx")
      pure (resultToJson (a.delete idx))
  | "pop" => some do
      let a ← parseAtoms (← field j "a")
      let i ← (← field j "i").getInt?
      pure (resultToJson (a.pop i))
  | "extend" => some do
      let a ← parseAtoms (← field j "a")
      let b ← parseAtoms (← field j "b")
      let off ← parseOffsets (fieldD j "offsets" Json.null)
      let m ← parsePairs (fieldD j "map" (Json.arr #[]))
      pure (resultToJson (a.extend b off m))
  | "extend_types" => some do
      let a ← parseAtoms (← field j "a")
      let b ← parseAtoms (← field j "b")
      let (r, o) := a.extendTypes b
      pure (Json.mkObj [("ok", atomsToJson r), ("offsets", nats [o.atom, o.bond, o.angle, o.dihedral, o.improper])])
  | "replicate" => some do
      let a ← parseAtoms (← field j "a")
      match ← parseNatList (← field j "dims") with
      | [x, y, z] => pure (resultToJson (a.replicate x y z))
      | _ => throw "dims"
  | "getitem" => some do
      let a ← parseAtoms (← field j "a")
      let idx ← parseNatList (← field j "idx")
      pure (resultToJson (a.getitem idx))
  | "num_types" => some do
      let a ← parseAtoms (← field j "a")
      let o := a.offsets
      pure (Json.mkObj [("ok", nats [o.atom, o.bond, o.angle, o.dihedral, o.improper])])
  | _ => none

end Mofun.Drive
