/- line-protocol handler for the public spellings of extend (Model/ExtendApi.lean)

   {"op":"extend_api","a":Atoms,"b":Atoms,"offsets":null|[nats, any length],"map":[[int,int],…]}  → {"ok":Atoms} | {"err":…}
-/
import MofunModel.Drive.Codec
import MofunModel.Model.ExtendApi

open Lean Mofun.Codec

namespace Mofun.Drive

def parseIntPairs (j : Json) : P (List (Int × Int)) := do
  (← arr j).mapM (fun p => do
    match (← arr p) with
    | [x, y] => pure ((← x.getInt?), (← y.getInt?))
    | _ => throw "pair expected")

def handleExtendApi (op : String) (j : Json) : Option (P Json) :=
  match op with
  | "extend_api" => some do
      let a ← parseAtoms (← field j "a")
      let b ← parseAtoms (← field j "b")
      let offj := fieldD j "offsets" Json.null
      let off ← if offj.isNull then pure none else (do pure (some (← parseNatList offj)))
      let m ← parseIntPairs (fieldD j "map" (Json.arr #[]))
      pure (resultToJson (a.extendApi b off m))
  | _ => none

end Mofun.Drive
