import MofunModel.Drive.TopoOps
