/- line-protocol handlers for the CIF ops: "cif_save", "cif_load", "strip_su"  (model: Model/Cif.lean) -/
import MofunModel.Drive.Codec
import MofunModel.Model.Cif
import MofunModel.Generated.Masses

open Lean Mofun.Codec Mofun.Cif

namespace Mofun.Drive

def entryToJson : Entry → Json
  | .item t v => Json.mkObj [("item", strs [t, v])]
  | .loop ts rows => Json.mkObj [("loop", strs ts), ("rows", Json.arr (rows.map strs).toArray)]

def blockToJson (b : Block) : Json := Json.arr (b.map entryToJson).toArray

def parseEntry (j : Json) : P Entry := do
  match j.getObjVal? "item" with
  | .ok it =>
    match ← parseStrList it with
    | [t, v] => pure (.item t v)
    | _ => throw "item: [tag, value] expected"
  | .error _ =>
    let ts ← parseStrList (← field j "loop")
    let rows ← (← arr (← field j "rows")).mapM parseStrList
    pure (.loop ts rows)

def parseBlock (j : Json) : P Block := do (← arr j).mapM parseEntry

/-- the writing environment: `repr` = table of (charge, printed string); `cellpar` = the six cell strings -/
def parseEnv (j : Json) : P Env := do
  let tbl ← (← arr (fieldD j "repr" (Json.arr #[]))).mapM (fun p => do
    match ← arr p with
    | [q, s] => pure ((← parseRat q), (← s.getStr?))
    | _ => throw "repr: [q, string] expected")
  let cp := fieldD j "cellpar" Json.null
  let cellpar : CellPar ← (if cp.isNull then pure ⟨"?", "?", "?", "?", "?", "?"⟩ else do
    match ← parseStrList cp with
    | [a, b, c, al, be, ga] => pure ⟨a, b, c, al, be, ga⟩
    | _ => throw "cellpar: six strings expected")
  pure { reprQ := fun q => match tbl.find? (fun p => p.1 == q) with
                    | some p => p.2
                    | none => "?",
         cellpar := fun _ => cellpar }

/-- ATOMIC_MASSES as regenerated from the source -/
def massOfTable (e : String) : Option Rat := (lookup Mofun.Generated.atomicMasses e).map Dec.toRat

/-- smallest rounding slack of the printed coordinates -/
def coordSlack (a : Atoms) (fract : Bool) : Rat :=
  let pts : List Vec3 := match fract, a.cell with
    | true, some c => if c.det = 0 then [] else a.atoms.map (fun r => c.frac r.pos)
    | _, _ => a.atoms.map (·.pos)
  (pts.flatMap (fun v => [slack4 v.x, slack4 v.y, slack4 v.z])).foldl min (1 / 2)

def handleCif (op : String) (j : Json) : Option (P Json) :=
  match op with
  | "cif_save" => some do
      let a ← parseAtoms (← field j "a")
      let fract ← (← field j "fract").getBool?
      let env ← parseEnv (fieldD j "env" (Json.mkObj []))
      match saveCif env a fract with
      | .ok b => pure (Json.mkObj [("ok", blockToJson b), ("slack", ratToJson (coordSlack a fract))])
      | .error e => pure (Json.mkObj [("err", Json.str e.toString)])
  | "cif_load" => some do
      let b ← parseBlock (← field j "block")
      let cell ← parseCell (fieldD j "cell" Json.null)
      -- cellpar_to_cell is not modelled: the harness hands over the cell the real reader produced; the model
      -- still demands that the six (s.u.-stripped) items are numbers
      let lenv : LoadEnv := { cellOf := fun ss => if ss.all (fun s => (parseFloat s).isSome) then cell else none,
                              massOf := massOfTable }
      pure (resultToJson (loadCif lenv b))
  | "strip_su" => some do
      let s ← (← field j "s").getStr?
      pure (Json.mkObj [("ok", Json.mkObj [("s", Json.str (stripSu s)),
        ("q", match tofloat s with
              | some q => ratToJson q
              | none => Json.null)])])
  | _ => none

end Mofun.Drive
