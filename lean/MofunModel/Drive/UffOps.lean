/-
  line-protocol handlers for the UFF ops (C18): "bond_order", "uff_bond", "uff_angle", "uff_dihedral", "uff_pair",
  "torsion_case".  The formulas run at the `Float` instance of `ElemFun`; this is the only place where floats are
  printed: every double is written as the EXACT decimal expansion of its binary value (a JSON number), so that the
  harness reads back the same double.
-/
import MofunModel.Drive.Codec
import MofunModel.Model.UffFormula

open Lean Mofun.Codec Mofun.Uff

namespace Mofun.Drive

/-- exact decimal expansion of a finite double; "nan" / "inf" / "-inf" as strings -/
def floatToJson (x : Float) : Json :=
  let bits := x.toBits.toNat
  let neg := bits >>> 63 == 1
  let e := (bits >>> 52) % 2048
  let f := bits % (2 ^ 52)
  if e == 2047 then
    if f != 0 then Json.str "nan" else Json.str (if neg then "-inf" else "inf")
  else
    -- value = m * 2^(p - 1075)
    let (m, p) := if e == 0 then (f, 1) else (2 ^ 52 + f, e)
    if m == 0 then Json.num (0 : Int) else
    -- strip trailing zero bits
    let tz := Id.run do
      let mut t := 0
      let mut mm := m
      while mm % 2 == 0 do
        mm := mm / 2
        t := t + 1
      return t
    let m := m >>> tz
    let p := p + tz
    let sgn : Int := if neg then -1 else 1
    if p ≥ 1075 then Json.num (sgn * (m * 2 ^ (p - 1075) : Nat) : Int)
    else
      let k := 1075 - p
      Json.num (JsonNumber.mk (sgn * (m * 5 ^ k : Nat)) k)

def optRat (j : Json) : P (Option Rat) :=
  match j with
  | .null => pure none
  | _ => do pure (some (← parseRat j))

/-- rules: `[[["N_1","N_2"], "2"], …]` -/
def parseRules (j : Json) : P (List (List String × Rat)) :=
  match j with
  | .null => pure []
  | _ => do
    (← arr j).mapM fun r => do
      match ← arr r with
      | [ts, bo] => pure (← parseStrList ts, ← parseRat bo)
      | _ => throw "rule"

def str (j : Json) (k : String) : P String := do (← field j k).getStr?

def floats (style : String) (v : List Json) : Json :=
  Json.mkObj [("style", Json.str style), ("v", Json.arr v.toArray)]

def errJ (e : String) : Json := Json.mkObj [("err", Json.str e)]

def tbl := Mofun.Generated.uff4mof

def caseName : TorsionCase → String
  | .sp3sp3 => "sp3sp3"
  | .sp3sp3Group6 o1 o2 => s!"sp3sp3Group6:{o1}:{o2}"
  | .sp2sp2 => "sp2sp2"
  | .mixedSp2Sp2 => "mixedSp2Sp2"
  | .mixedOxygen => "mixedOxygen"
  | .mixedDefault => "mixedDefault"
  | .undefined => "undefined"
  | .unsupported => "unsupported"

def handleUff (op : String) (j : Json) : Option (P Json) :=
  match op with
  | "bond_order" => some do
      let r := guessBondOrder (← str j "a1") (← str j "a2") (← parseRules (fieldD j "rules" Json.null))
      pure (Json.mkObj [("ok", ratToJson r)])
  | "uff_bond" => some do
      let r : Except String (Float × Float) :=
        bondParams tbl (← str j "a1") (← str j "a2") (← optRat (fieldD j "bo" Json.null))
          (← parseRules (fieldD j "rules" Json.null))
      match r with
      | .error e => pure (errJ e)
      | .ok (k, r) => pure (floats "bond" [floatToJson k, floatToJson r])
  | "uff_angle" => some do
      let r : Except String (AngleResult Float) :=
        angleParams tbl (← str j "a1") (← str j "a2") (← str j "a3") (← optRat (fieldD j "bo1" Json.null))
          (← optRat (fieldD j "bo2" Json.null)) (← parseRules (fieldD j "rules" Json.null))
      match r with
      | .error e => pure (errJ e)
      | .ok (.cosinePeriodic k b n) => pure (floats "cosine/periodic" [floatToJson k, Json.num b, Json.num (n : Int)])
      | .ok (.fourier k c0 c1 c2) => pure (floats "fourier" [floatToJson k, floatToJson c0, floatToJson c1, floatToJson c2])
  | "uff_dihedral" => some do
      let m ← parseNat (← field j "m")
      let r : Except String (Option (Float × Int × Nat)) :=
        dihedralParams tbl (← str j "a1") (← str j "a2") (← str j "a3") (← str j "a4") m
          (← optRat (fieldD j "bo" Json.null)) (← parseRules (fieldD j "rules" Json.null))
      match r with
      | .error e => pure (errJ e)
      | .ok none => pure (Json.mkObj [("none", Json.bool true)])
      | .ok (some (k, d, n)) => pure (floats "harmonic" [floatToJson k, Json.num d, Json.num (n : Int)])
  | "uff_pair" => some do
      let r : Except String (Float × Float) := pairCoeffs tbl (← str j "a1")
      match r with
      | .error e => pure (errJ e)
      | .ok (eps, sigma) => pure (floats "lj" [floatToJson eps, floatToJson sigma])
  | "torsion_case" => some do
      let c := torsionCase (← str j "a1") (← str j "a2") (← str j "a3") (← str j "a4")
      pure (Json.mkObj [("case", Json.str (caseName c))])
  | _ => none

end Mofun.Drive
