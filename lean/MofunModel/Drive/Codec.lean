/-
  Codec.lean — canonical JSON ⇄ model values (line protocol, DESIGN.md Appendix B).
  Floats cross as exact rationals: a JSON integer or a string "n/d".
-/
import Lean.Data.Json
import MofunModel.Model.Topo

open Lean

namespace Mofun.Codec

abbrev P := Except String

def parseRat (j : Json) : P Rat :=
  match j with
  | .str s =>
    match s.splitOn "/" with
    | [n] => match n.toInt? with
      | some k => pure (k : Rat)
      | none => throw s!"bad rational {s}"
    | [n, d] => match n.toInt?, d.toInt? with
      | some k, some m => if m == 0 then throw s!"zero denominator {s}" else pure (mkRat k m.toNat * (if m < 0 then -1 else 1))
      | _, _ => throw s!"bad rational {s}"
    | _ => throw s!"bad rational {s}"
  | .num _ => do
    let i ← j.getInt?
    pure (i : Rat)
  | _ => throw "rational expected"

def ratToJson (q : Rat) : Json :=
  if q.den == 1 then Json.str (toString q.num) else Json.str (toString q.num ++ "/" ++ toString q.den)

def arr (j : Json) : P (List Json) := do pure (← j.getArr?).toList

def field (j : Json) (k : String) : P Json := j.getObjVal? k

def fieldD (j : Json) (k : String) (d : Json) : Json :=
  match j.getObjVal? k with
  | .ok v => v
  | .error _ => d

def parseNat (j : Json) : P Nat := do
  let i ← j.getInt?
  if i < 0 then throw "negative index" else pure i.toNat

def parseNatList (j : Json) : P (List Nat) := do (← arr j).mapM parseNat
def parseStrList (j : Json) : P (List String) := do (← arr j).mapM (·.getStr?)
def parseRatList (j : Json) : P (List Rat) := do (← arr j).mapM parseRat

def parseVec3 (j : Json) : P Vec3 := do
  match ← parseRatList j with
  | [x, y, z] => pure ⟨x, y, z⟩
  | _ => throw "vec3 expected"

def vec3ToJson (v : Vec3) : Json := Json.arr #[ratToJson v.x, ratToJson v.y, ratToJson v.z]

def parseCell (j : Json) : P (Option Mat3) := do
  if j.isNull then pure none else
  match ← arr j with
  | [a, b, c] => pure (some ⟨← parseVec3 a, ← parseVec3 b, ← parseVec3 c⟩)
  | _ => throw "cell expected"

def cellToJson : Option Mat3 → Json
  | none => Json.null
  | some m => Json.arr #[vec3ToJson m.a, vec3ToJson m.b, vec3ToJson m.c]

def parseTerm (j : Json) : P Term := do
  pure { atoms := ← parseNatList (← field j "a"), ty := ← parseNat (← field j "ty"),
         extra := ← parseStrList (fieldD j "x" (Json.arr #[])) }

def strs (l : List String) : Json := Json.arr (l.map Json.str).toArray
def natJ (n : Nat) : Json := Json.num (Int.ofNat n)
def nats (l : List Nat) : Json := Json.arr (l.map natJ).toArray

def termToJson (t : Term) : Json :=
  Json.mkObj [("a", nats t.atoms), ("ty", natJ t.ty), ("x", strs t.extra)]

def parseAtomRow (j : Json) : P AtomRow := do
  pure { ty := ← parseNat (← field j "ty"), pos := ← parseVec3 (← field j "pos"),
         charge := ← parseRat (← field j "q"), group := ← (← field j "g").getInt?,
         extra := ← parseStrList (fieldD j "x" (Json.arr #[])) }

def atomRowToJson (r : AtomRow) : Json :=
  Json.mkObj [("ty", natJ r.ty), ("pos", vec3ToJson r.pos), ("q", ratToJson r.charge),
              ("g", Json.num r.group), ("x", strs r.extra)]

def parseTable (terms types xl : Json) (k : String) : P TermTable := do
  pure { terms := ← (← arr (fieldD terms k (Json.arr #[]))).mapM parseTerm,
         coeffs := ← parseStrList (fieldD types k (Json.arr #[])),
         xlabels := ← parseStrList (fieldD xl k (Json.arr #[])) }

def parseAtoms (j : Json) : P Atoms := do
  let terms := fieldD j "terms" (Json.mkObj [])
  let types := fieldD j "types" (Json.mkObj [])
  let xl := fieldD j "xlabels" (Json.mkObj [])
  pure {
    atoms := ← (← arr (← field j "atoms")).mapM parseAtomRow
    bonds := ← parseTable terms types xl "bond"
    angles := ← parseTable terms types xl "angle"
    dihedrals := ← parseTable terms types xl "dihedral"
    impropers := ← parseTable terms types xl "improper"
    typeElems := ← parseStrList (fieldD types "elem" (Json.arr #[]))
    typeLabels := ← parseStrList (fieldD types "label" (Json.arr #[]))
    typeMasses := ← parseRatList (fieldD types "mass" (Json.arr #[]))
    pairCoeffs := ← parseStrList (fieldD types "pair" (Json.arr #[]))
    xlabels := ← parseStrList (fieldD xl "atom" (Json.arr #[]))
    cell := ← parseCell (fieldD j "cell" Json.null) }

def atomsToJson (a : Atoms) : Json :=
  let tl := fun (t : TermTable) => Json.arr (t.terms.map termToJson).toArray
  Json.mkObj [
    ("cell", cellToJson a.cell),
    ("atoms", Json.arr (a.atoms.map atomRowToJson).toArray),
    ("terms", Json.mkObj [("bond", tl a.bonds), ("angle", tl a.angles), ("dihedral", tl a.dihedrals),
                          ("improper", tl a.impropers)]),
    ("types", Json.mkObj [("elem", strs a.typeElems), ("label", strs a.typeLabels),
                          ("mass", Json.arr (a.typeMasses.map ratToJson).toArray),
                          ("pair", strs a.pairCoeffs), ("bond", strs a.bonds.coeffs),
                          ("angle", strs a.angles.coeffs), ("dihedral", strs a.dihedrals.coeffs),
                          ("improper", strs a.impropers.coeffs)]),
    ("xlabels", Json.mkObj [("atom", strs a.xlabels), ("bond", strs a.bonds.xlabels),
                            ("angle", strs a.angles.xlabels), ("dihedral", strs a.dihedrals.xlabels),
                            ("improper", strs a.impropers.xlabels)])]

def resultToJson (r : Except Err Atoms) : Json :=
  match r with
  | .ok a => Json.mkObj [("ok", atomsToJson a)]
  | .error e => Json.mkObj [("err", Json.str e.toString)]

def parseOffsets (j : Json) : P (Option Offsets) := do
  if j.isNull then pure none else
  match ← parseNatList j with
  | [a, b, c, d, e] => pure (some ⟨a, b, c, d, e⟩)
  | _ => throw "offsets: 5 numbers expected"

def parsePairs (j : Json) : P (List (Nat × Nat)) := do
  (← arr j).mapM (fun p => do
    match ← parseNatList p with
    | [a, b] => pure (a, b)
    | _ => throw "pair expected")

end Mofun.Codec
