/- line-protocol handler for the CML op (C16): cml -/
import MofunModel.Drive.Codec
import MofunModel.Model.Cml

open Lean Mofun.Codec

namespace Mofun.Drive

def parseCmlAtom (j : Json) : P CmlAtom := do
  pure { id := ← (← field j "id").getStr?, elem := ← (← field j "el").getStr?, pos := ← parseVec3 (← field j "pos") }

def parseCmlBond (j : Json) : P CmlBond := do
  match ← parseStrList (← field j "refs") with
  | [a, b] => pure { ref1 := a, ref2 := b, order := ← parseRat (fieldD j "order" (Json.num 1)) }
  | _ => throw "bond: two references expected"

/-- `some result` when the op belongs to this handler -/
def handleCml (op : String) (j : Json) : Option (P Json) :=
  match op with
  | "cml" => some do
      let atoms ← (← arr (← field j "atoms")).mapM parseCmlAtom
      let bonds ← (← arr (← field j "bonds")).mapM parseCmlBond
      pure (resultToJson (loadCml atoms bonds))
  | _ => none

end Mofun.Drive
