/- line-protocol handler for the CML op (C16): cml -/
import MofunModel.Drive.Codec
import MofunModel.Model.Cml

open Lean Mofun.Codec

namespace Mofun.Drive

def parseCmlAtom (j : Json) : P CmlAtom := do
  pure { id := ← (← field j "id").getStr?, elem := ← (← field j "el").getStr?, pos := ← parseVec3 (← field j "pos") }

def parseCmlBond (j : Json) : P CmlBond := do
  match ← parseStrList (← field j "refs") with
  | [a, b] => pure { ref1 := a, ref2 := b, order := ← parseRat (fieldD j "order" (Json.num 1)) }
  | _ => throw "bond: two references expected"

def optField {α} (j : Json) (k : String) (f : Json → P α) : P (Option α) :=
  match j.getObjVal? k with
  | .ok v => if v.isNull then pure none else do pure (some (← f v))
  | .error _ => pure none

/-- one non-root element: {"ns": null | uri, "loc": local name, and whichever of the attributes id, el (elementType),
    x3, y3, z3, refs (atomRefs2 split), order are present} -/
def parseCmlElem (j : Json) : P CmlElem := do
  pure { name := ⟨← optField j "ns" (·.getStr?), ← (← field j "loc").getStr?⟩
         id := ← optField j "id" (·.getStr?)
         elementType := ← optField j "el" (·.getStr?)
         x3 := ← optField j "x3" parseRat
         y3 := ← optField j "y3" parseRat
         z3 := ← optField j "z3" parseRat
         atomRefs2 := ← optField j "refs" parseStrList
         order := ← optField j "order" parseRat }

/-- `some result` when the op belongs to this handler -/
def handleCml (op : String) (j : Json) : Option (P Json) :=
  match op with
  | "cml" => some do
      let atoms ← (← arr (← field j "atoms")).mapM parseCmlAtom
      let bonds ← (← arr (← field j "bonds")).mapM parseCmlBond
      pure (resultToJson (loadCml atoms bonds))
  | "cml_doc" => some do
      -- the element layer: every non-root element of the document in document order
      let elems ← (← arr (← field j "elems")).mapM parseCmlElem
      pure (resultToJson (loadCmlDoc elems))
  | _ => none

end Mofun.Drive
