/- line-protocol handlers for the Terms ops (C19): angles, dihedrals, adjacency, typekey, assign, retype -/
import MofunModel.Drive.Codec
import MofunModel.Model.Terms
import MofunModel.Generated.Masses

open Lean Mofun.Codec Mofun.Terms

namespace Mofun.Drive

def termsJ (ts : List (List Nat)) : Json := Json.arr (ts.map nats).toArray

def parseTerms (j : Json) : P (List (List Nat)) := do (← arr j).mapM parseNatList

/-- key of a coefficient text in the "params" object: the UFF types joined by `|` (dihedrals: then `|M`) -/
def keyText (k : List String) : String := "|".intercalate k

def parseExclude (j : Json) : P (Option (List Nat)) := do
  if j.isNull then pure none else pure (some (← parseNatList j))

def assignedJ (r : Except Err Assigned) : Json :=
  match r with
  | .ok a => Json.mkObj [("ok", Json.mkObj [("terms", termsJ a.terms), ("types", nats a.types), ("coeffs", strs a.coeffs)])]
  | .error e => Json.mkObj [("err", Json.str e.toString)]

/-- parameter text of a key from the table sent with the op; a key the table lacks is reported in the text itself
    (so it shows up as a disagreement rather than being silently defaulted) -/
def textOf (tbl : Json) (k : List String) : String :=
  match tbl.getObjVal? (keyText k) with
  | .ok (.str s) => s
  | _ => "MISSING-PARAMS " ++ keyText k

def dparamOf (tbl : Json) (k : DKey) : DParam :=
  match tbl.getObjVal? (keyText (k.1 ++ [toString k.2])) with
  | .ok (.str s) => .text s
  | .ok .null => .undefined
  | .ok (.bool false) => .unsupported
  | _ => .text ("MISSING-PARAMS " ++ keyText (k.1 ++ [toString k.2]))

def handleTerms (op : String) (j : Json) : Option (P Json) :=
  match op with
  | "angles" => some do
      let b ← parsePairs (← field j "bonds")
      pure (Json.mkObj [("terms", termsJ (calcAngles b))])
  | "dihedrals" => some do
      let b ← parsePairs (← field j "bonds")
      pure (Json.mkObj [("terms", termsJ (calcDihedrals b))])
  | "adjacency" => some do
      let b ← parsePairs (← field j "bonds")
      pure (Json.mkObj [("nodes", nats (nodes b)),
                        ("adj", termsJ ((adjacency b).map (·.2))),
                        ("edges", termsJ ((graphEdges b).map (fun e => [e.1, e.2])))])
  | "typekey" => some do
      let t ← field j "t"
      match parseStrList t with
      | .ok ss => pure (Json.mkObj [("key", strs (typekey ss))])
      | .error _ => pure (Json.mkObj [("key", nats (typekey (← parseNatList t)))])
  | "assign" => some do
      let kind ← (← field j "kind").getStr?
      let terms ← parseTerms (← field j "terms")
      let uff ← parseStrList (← field j "uff")
      let excl ← parseExclude (fieldD j "exclude" Json.null)
      let tbl ← field j "params"
      match kind with
      | "bond" => pure (assignedJ (assignBonds uff (textOf tbl) excl terms))
      | "angle" => pure (assignedJ (assignAngles uff (textOf tbl) excl terms))
      | "dihedral" => pure (assignedJ (assignDihedrals uff (dparamOf tbl) excl terms))
      | _ => throw "assign: kind"
  | "retype" => some do
      let ts ← parseStrList (← field j "types")
      let tbl ← field j "pair"
      match retype Mofun.Generated.atomicMasses (fun l => textOf tbl [l]) ts with
      | .ok r => pure (Json.mkObj [("ok", Json.mkObj [("label", strs r.labels), ("elem", strs r.elements),
                   ("mass", Json.arr (r.masses.map ratToJson).toArray), ("atom_types", nats r.atomTypes),
                   ("pair", strs r.pairCoeffs)])])
      | .error e => pure (Json.mkObj [("err", Json.str e.toString)])
  | _ => none

end Mofun.Drive
