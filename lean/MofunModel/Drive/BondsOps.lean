/- line-protocol handlers for the bond-detection ops (C17): "bonds", "max_bond_length" -/
import MofunModel.Drive.Codec
import MofunModel.Model.Bonds

open Lean Mofun.Codec

namespace Mofun.Drive

/-- the protocol's error enum for this area: a missing radius is python's `KeyError` -/
def bondErr : Err → String
  | .reject "KeyError" => "error:KeyError"
  | e => e.toString

/-- `some result` when the op belongs to this handler -/
def handleBonds (op : String) (j : Json) : Option (P Json) :=
  match op with
  | "bonds" => some do
      let elems ← parseStrList (← field j "elems")
      let pos ← (← arr (← field j "pos")).mapM parseVec3
      let cell ← parseCell (fieldD j "cell" Json.null)
      match detectBonds elems pos cell with
      | .error e => pure (Json.mkObj [("err", Json.str (bondErr e))])
      | .ok r =>
        let slack := match bondSlack (bondOffsets cell) (elems.zip pos) with
          | some s => ratToJson s
          | none => Json.null
        let guards := match cell with
          | some L => Json.bool (bondGuards elems pos L)
          | none => Json.null
        -- optional "margin": the guards of bonds_eq_minimage_margin for that δ
        let margin := fieldD j "margin" Json.null
        let guardsM ← match cell, margin.isNull with
          | some L, false => do pure (Json.bool (bondGuardsMargin elems pos L (← parseRat margin)))
          | _, _ => pure Json.null
        pure (Json.mkObj [("pairs", Json.arr (r.map (fun p => nats [p.1, p.2])).toArray),
                          ("slack", slack), ("guards", guards), ("guards_margin", guardsM)])
  | "scan_min" => some do
      -- the smallest squared distance among the 27 scanned images, and the two cell guards of Props/C17Min.lean
      let p ← parseVec3 (← field j "p")
      let q ← parseVec3 (← field j "q")
      match ← parseCell (← field j "cell") with
      | none => throw "scan_min needs a cell"
      | some L =>
        pure (Json.mkObj [("scanmin", ratToJson (scanMinDist2 L p q)),
                          ("reduced", Json.bool (decide L.scanReduced)),
                          ("inside", Json.bool (decide (L.inside p) && decide (L.inside q)))])
  | "max_bond_length" => some do
      let e1 ← (← field j "el1").getStr?
      let e2 ← (← field j "el2").getStr?
      match maxBondLength e1 e2 with
      | some c => pure (Json.mkObj [("ok", ratToJson c)])
      | none => pure (Json.mkObj [("err", Json.str "error:KeyError")])
  | _ => none

end Mofun.Drive
