/- line-protocol handler for the constructor (extension of property C09)

   {"op":"construct","kw":{ <keyword arguments of mofun.Atoms(...)>, each optional (absent / null = not passed) }}
      atom_types [nat]  positions [[q,q,q]]  charges [q]  groups [int]  elements [str]
      atom_type_masses [q]  atom_type_elements [str]  atom_type_labels [str]
      bonds|angles|dihedrals|impropers [[nat]]   bond_types|… [nat]
      pair_coeffs|bond_type_coeffs|angle_type_coeffs|dihedral_type_coeffs|improper_type_coeffs [str]
      cell null|[[q,q,q]×3]   extra_<atom|bond|angle|dihedral|improper>_labels [str]   extra_…_fields [[str]]
   → {"ok":Atoms,"ctor_ok":true} | {"err":"reject:<kind>","ctor_ok":false}
      kinds: shape | key | len:<array> | xrows:<kind> | xwidth:<kind>
   "ctor_ok" is `decide (CtorOk massOf kw)`, the guard of theorem `construct_ok_iff`, decided by the instance the theorem
   is stated with.
-/
import MofunModel.Drive.Codec
import MofunModel.Model.Construct
import MofunModel.Model.Mass

open Lean Mofun.Codec Mofun.Construct

namespace Mofun.Drive

/-- an optional list argument -/
def optArr (j : Json) (k : String) : Json :=
  let v := fieldD j k Json.null
  if v.isNull then Json.arr #[] else v

def parseIntList (j : Json) : P (List Int) := do (← arr j).mapM (·.getInt?)
def parseNatRows (j : Json) : P (List (List Nat)) := do (← arr j).mapM parseNatList
def parseStrRows (j : Json) : P (List (List String)) := do (← arr j).mapM parseStrList

def parseKindArgs (j : Json) (tuples types coeffs kind : String) : P KindArgs := do
  pure { tuples := ← parseNatRows (optArr j tuples)
         types := ← parseNatList (optArr j types)
         coeffs := ← parseStrList (optArr j coeffs)
         xlabels := ← parseStrList (optArr j ("extra_" ++ kind ++ "_labels"))
         xfields := ← parseStrRows (optArr j ("extra_" ++ kind ++ "_fields")) }

def parseCtorArgs (j : Json) : P CtorArgs := do
  pure { atomTypes := ← parseNatList (optArr j "atom_types")
         positions := ← (← arr (optArr j "positions")).mapM parseVec3
         charges := ← parseRatList (optArr j "charges")
         groups := ← parseIntList (optArr j "groups")
         elements := ← parseStrList (optArr j "elements")
         typeMasses := ← parseRatList (optArr j "atom_type_masses")
         typeElems := ← parseStrList (optArr j "atom_type_elements")
         typeLabels := ← parseStrList (optArr j "atom_type_labels")
         bonds := ← parseKindArgs j "bonds" "bond_types" "bond_type_coeffs" "bond"
         angles := ← parseKindArgs j "angles" "angle_types" "angle_type_coeffs" "angle"
         dihedrals := ← parseKindArgs j "dihedrals" "dihedral_types" "dihedral_type_coeffs" "dihedral"
         impropers := ← parseKindArgs j "impropers" "improper_types" "improper_type_coeffs" "improper"
         pairCoeffs := ← parseStrList (optArr j "pair_coeffs")
         cell := ← parseCell (fieldD j "cell" Json.null)
         xlabels := ← parseStrList (optArr j "extra_atom_labels")
         xfields := ← parseStrRows (optArr j "extra_atom_fields") }

/-- `ATOMIC_MASSES[s]` on the table of /repo as it is now -/
def repoMassOf (s : String) : Option Rat := lookup massTable s

def handleConstruct (op : String) (j : Json) : Option (P Json) :=
  match op with
  | "construct" => some do
      let k ← parseCtorArgs (← field j "kw")
      let guard := Json.bool (decide (CtorOk repoMassOf k))
      match construct repoMassOf k with
      | .ok a => pure (Json.mkObj [("ok", atomsToJson a), ("ctor_ok", guard)])
      | .error e => pure (Json.mkObj [("err", Json.str e.toString), ("ctor_ok", guard)])
  | _ => none

end Mofun.Drive
