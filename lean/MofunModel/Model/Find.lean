/-
  Find.lean — the pattern search (mofun/mofun.py: _get_positions_from_all_adjacent_unit_cells,
  find_pattern_in_structure), followed step by step over exact rationals.

  * every comparison the code makes with a square root is replaced by the equivalent polynomial one
    (`leSqrt`, `ltSqrt`, `sqrtDiffLeSq`, `leSqrtAdd`; DESIGN.md §4);
  * the rotation of each candidate is an ORACLE parameter (a quaternion per candidate, as the code computed it
    with its trigonometric helpers); the model applies it exactly: `rot q v = M(q) v / |q|²`;
  * `random.choice` is a CHOOSER parameter.
  Core Lean only.
-/
import MofunModel.Model.Lattice

namespace Mofun

/-! ### small helpers -/

def maxRat : List Rat → Rat
  | [] => 0
  | x :: xs => xs.foldl (fun m y => if y > m then y else m) x

/-- position of the first maximum (`np.argmax`) -/
def argmaxFirst (l : List Rat) : Nat :=
  let rec go (l : List Rat) (i best : Nat) (bv : Rat) : Nat :=
    match l with
    | [] => best
    | x :: xs => if x > bv then go xs (i + 1) i x else go xs (i + 1) best bv
  match l with
  | [] => 0
  | x :: xs => go xs 1 0 x

/-- `u ≤ √m` (`m ≥ 0`) -/
def leSqrt (u m : Rat) : Bool := decide (u ≤ 0) || decide (u * u ≤ m)
/-- `u < √m` (`m ≥ 0`) -/
def ltSqrt (u m : Rat) : Bool := decide (u < 0) || decide (u * u < m)

/-- `|√a − √b| ≤ t` given `tsq = t²` (`a, b, tsq ≥ 0`) -/
def sqrtDiffLeSq (a b tsq : Rat) : Bool :=
  let s := a + b - tsq
  decide (s ≤ 0) || decide (s * s ≤ 4 * a * b)

/-- `math.isclose(√a, √b, rel_tol=1e-9, abs_tol=atol)` : `|√a − √b| ≤ max(1e-9·max(√a, √b), atol)` -/
def iscloseSqrt (a b atol : Rat) : Bool :=
  let mx := if a > b then a else b
  sqrtDiffLeSq a b (atol * atol) || sqrtDiffLeSq a b (mx / 1000000000000000000)

def absRat (x : Rat) : Rat := if x < 0 then -x else x

/-! ### quaternion rotation (scipy convention: q = (x, y, z, w), normalised by `from_quat`) -/

structure Quat where
  x : Rat
  y : Rat
  z : Rat
  w : Rat
deriving DecidableEq, Repr, Inhabited

def Quat.normSq (q : Quat) : Rat := q.x * q.x + q.y * q.y + q.z * q.z + q.w * q.w

/-- the homogeneous quadratic rotation matrix of `q` applied to `v` (equals `|q|²·R(q)·v`) -/
def Quat.apply0 (q : Quat) (v : Vec3) : Vec3 :=
  let xx := q.x * q.x; let yy := q.y * q.y; let zz := q.z * q.z; let ww := q.w * q.w
  let xy := q.x * q.y; let xz := q.x * q.z; let yz := q.y * q.z
  let xw := q.x * q.w; let yw := q.y * q.w; let zw := q.z * q.w
  ⟨(ww + xx - yy - zz) * v.x + 2 * (xy - zw) * v.y + 2 * (xz + yw) * v.z,
   2 * (xy + zw) * v.x + (ww - xx + yy - zz) * v.y + 2 * (yz - xw) * v.z,
   2 * (xz - yw) * v.x + 2 * (yz + xw) * v.y + (ww - xx - yy + zz) * v.z⟩

/-- `Rotation.from_quat(q).apply(v)` -/
def rot (q : Quat) (v : Vec3) : Vec3 := Vec3.smul (1 / q.normSq) (q.apply0 v)

def Quat.identity : Quat := ⟨0, 0, 0, 1⟩

/-! ### hints (`axisp1_idx`, `axisp2_idx`, `opoint_idx`) -/

/-- squared distance of `v` from the line through the origin along `u`, times `|u|²` (no division) -/
def offAxisSq (u v : Vec3) : Rat := Vec3.normSq u * Vec3.normSq v - Vec3.dot u v * Vec3.dot u v

/-- the two axis points: both missing → first arg-max pair of squared distances (row-major);
    one missing → the given one and the point farthest from it -/
def resolveAxis (pp : List Vec3) (h1 h2 : Option Nat) : Nat × Nat :=
  let n := pp.length
  match h1, h2 with
  | some a, some b => (a, b)
  | none, none =>
    let flat := pp.flatMap (fun p => pp.map (fun r => distSq p r))
    let k := argmaxFirst flat
    if n = 0 then (0, 0) else (k / n, k % n)
  | some a, none => (a, argmaxFirst (pp.map (fun r => distSq (pp.getD a Vec3.zero) r)))
  | none, some b => (b, argmaxFirst (pp.map (fun r => distSq (pp.getD b Vec3.zero) r)))

/-- the orientation point: given, or (more than two atoms) the first point farthest from the axis -/
def resolveOpoint (pp : List Vec3) (ax1 ax2 : Nat) (ho : Option Nat) : Option Nat :=
  match ho with
  | some o => some o
  | none =>
    if pp.length > 2 then
      let o1 := pp.getD ax1 Vec3.zero
      let u := Vec3.sub (pp.getD ax2 Vec3.zero) o1
      some (argmaxFirst (pp.map (fun p => offAxisSq u (Vec3.sub p o1))))
    else none

/-! ### images and the near window -/

/-- positions of all 27 images, image-major: index = image·N + atom; the home image is first -/
def allPositions (cell : Mat3) (pos : List Vec3) : List Vec3 :=
  (searchOffsets cell).flatMap (fun off => pos.map (fun p => Vec3.add p off))

/-- orthorhombic window: `−D ≤ x < D + a` on each axis, `D = √m + 2·atol` -/
def nearOrtho (cell : Mat3) (m atol : Rat) (p : Vec3) : Bool :=
  let lo := fun (x : Rat) => leSqrt (-x - 2 * atol) m            -- x ≥ −D
  let hi := fun (x len : Rat) => ltSqrt (x - len - 2 * atol) m    -- x < D + len
  lo p.x && hi p.x cell.a.x && lo p.y && hi p.y cell.b.y && lo p.z && hi p.z cell.c.z

def sgn (x : Rat) : Rat := if x < 0 then -1 else 1

/-- triclinic window: three pairs of planes, `−w_k − D ≤ s_k·(n_k·p)/‖n_k‖ ≤ D` with
    `n = (A×B, A×C, B×C)`, `w = |(C·n₀, B·n₁, A·n₂)|/‖n‖`, `s_k = −sign(n_k·centre)` -/
def nearTri (cell : Mat3) (m atol : Rat) (p : Vec3) : Bool :=
  let nvs := [Vec3.cross cell.a cell.b, Vec3.cross cell.a cell.c, Vec3.cross cell.b cell.c]
  let opp := [cell.c, cell.b, cell.a]
  let centre := Vec3.smul (1 / 2) (Vec3.add (Vec3.add cell.a cell.b) cell.c)
  (nvs.zip opp).all (fun (nv, o) =>
    let nn := Vec3.normSq nv
    let vol := absRat (Vec3.dot o nv)                -- planedist·‖n‖
    let s := -(sgn (Vec3.dot nv centre)) * Vec3.dot nv p
    -- s/‖n‖ ≤ D   and   −vol/‖n‖ − D ≤ s/‖n‖
    leSqrtAdd s (m * nn) (4 * atol * atol * nn) && leSqrtAdd (-s - vol) (m * nn) (4 * atol * atol * nn))

/-- all three diagonal entries positive: the box test of the orthorhombic branch presupposes it
    (`np.any(np.diag(cell) <= 0)` sends every other cell through the plane tests) -/
def Mat3.diagPos (c : Mat3) : Bool := decide (0 < c.a.x) && decide (0 < c.b.y) && decide (0 < c.c.z)

def nearTest (cell : Mat3) (m atol : Rat) (p : Vec3) : Bool :=
  if cell.isOrtho && cell.diagPos then nearOrtho cell m atol p else nearTri cell m atol p

/-- `near_indices`: indices into `allPositions` that pass the window, in order -/
def nearIndices (cell : Mat3) (allPos : List Vec3) (m atol : Rat) : List Nat :=
  (List.range allPos.length).filter (fun i => nearTest cell m atol (allPos.getD i Vec3.zero))

/-! ### candidate enumeration -/

def lexLe (a : Vec3 × Nat) (b : Vec3 × Nat) : Bool :=
  if a.1.x < b.1.x then true else if a.1.x > b.1.x then false
  else if a.1.y < b.1.y then true else if a.1.y > b.1.y then false
  else if a.1.z < b.1.z then true else if a.1.z > b.1.z then false
  else a.2 ≤ b.2

def insertLex (x : Vec3 × Nat) : List (Vec3 × Nat) → List (Vec3 × Nat)
  | [] => [x]
  | y :: ys => if lexLe x y then x :: y :: ys else y :: insertLex x ys

/-- `sorted([(*r, i) for i, r in enumerate(near_pos)])` -/
def sortLex (l : List (Vec3 × Nat)) : List (Vec3 × Nat) := l.foldr insertLex []

/-- cubic neighbourhood of a start atom: `|x − c| ≤ D` on each axis -/
def inCube (c p : Vec3) (m atol : Rat) : Bool :=
  let ok := fun (x cx : Rat) => leSqrt (x - cx - 2 * atol) m && leSqrt (cx - x - 2 * atol) m
  ok p.x c.x && ok p.y c.y && ok p.z c.z

/-- one round of extension: every partial match × every nearby atom of the right element that is not (an image of)
    a unit-cell atom already in the partial match (`nearUc` = `near_indices[·] % len(structure)`) and that reproduces
    all distances to the earlier pattern atoms -/
def extendRound (pp : List Vec3) (pelem : String) (i : Nat) (atol : Rat)
    (nearPos : Nat → Vec3) (nearElem : Nat → String) (nearUc : Nat → Nat) (nearby : List Nat)
    (partials : List (List Nat)) : List (List Nat) :=
  partials.flatMap (fun mt =>
    nearby.filterMap (fun cand =>
      if nearElem cand = pelem && !(mt.map nearUc).contains (nearUc cand) &&
         (List.range i).all (fun j =>
            iscloseSqrt (distSq (pp.getD i Vec3.zero) (pp.getD j Vec3.zero))
                        (distSq (nearPos (mt.getD j 0)) (nearPos cand)) atol)
      then some (mt ++ [cand]) else none))

/-- all candidate tuples (as positions in the near list), start atom by start atom -/
def candidates (pp : List Vec3) (pelems : List String) (atol m : Rat) (nStruct : Nat)
    (nearPosL : List Vec3) (nearElemL : List String) (nearUcL : List Nat) : List (List Nat) :=
  let nearPos := fun k => nearPosL.getD k Vec3.zero
  let nearElem := fun k => nearElemL.getD k ""
  let nearUc := fun k => nearUcL.getD k 0
  let sorted := (sortLex (nearPosL.zipIdx)).map (·.2)
  let starts := (List.range (min nStruct nearElemL.length)).filter (fun a => nearElem a = pelems.getD 0 "")
  starts.flatMap (fun a =>
    let nearby := sorted.filter (fun k => inCube (nearPos a) (nearPos k) m atol)
    (List.range (pp.length - 1)).foldl
      (fun partials r => extendRound pp (pelems.getD (r + 1) "") (r + 1) atol nearPos nearElem nearUc nearby partials)
      [[a]])

/-! ### grouping, rotation check, choice -/

/-- `group_duplicates`: key → tuples, keys in first-seen order -/
def groupBy {κ α} [DecidableEq κ] (key : α → κ) (l : List α) : List (κ × List α) :=
  l.foldl (fun acc x =>
    let k := key x
    if acc.any (fun p => p.1 = k) then acc.map (fun p => if p.1 = k then (p.1, p.2 ++ [x]) else p)
    else acc ++ [(k, [x])]) []

def insertNat (x : Nat) : List Nat → List Nat
  | [] => [x]
  | y :: ys => if x ≤ y then x :: y :: ys else y :: insertNat x ys
def sortNat (l : List Nat) : List Nat := l.foldr insertNat []

/-- `np.allclose(a, b, rtol=0, atol=atol)` on one coordinate: `|a − b| ≤ atol` — the requested absolute tolerance is the
    whole tolerance -/
def closeCoord (a b atol : Rat) : Bool := decide (absRat (a - b) ≤ atol)

def closeVec (a b : Vec3) (atol : Rat) : Bool :=
  closeCoord a.x b.x atol && closeCoord a.y b.y atol && closeCoord a.z b.z atol

/-- the final re-check of one candidate: pattern (first axis point at the origin) rotated by `q` and moved to
    the candidate's first axis point must coincide with the candidate positions -/
def goodCheck (pp : List Vec3) (ax1 : Nat) (atol : Rat) (q : Quat) (cpos : List Vec3) : Bool :=
  let o := pp.getD ax1 Vec3.zero
  let t := cpos.getD ax1 Vec3.zero
  (List.range pp.length).all (fun k =>
    closeVec (cpos.getD k Vec3.zero) (Vec3.add (rot q (Vec3.sub (pp.getD k Vec3.zero) o)) t) atol)

structure Group where
  key : List Nat              -- sorted unit-cell indices
  tuples : List (List Nat)    -- candidates as indices into `allPositions`
  good : List Nat             -- positions (within `tuples`) of the candidates that pass the re-check
deriving DecidableEq, Repr, Inhabited

structure FindInput where
  elems : List String         -- element of every structure atom
  pos : List Vec3
  cell : Mat3
  pelems : List String
  ppos : List Vec3
  atol : Rat
deriving Repr, Inhabited

/-- everything up to and including the rotation re-check. `oracle g i` = quaternion of the `i`-th candidate of
    the `g`-th group. -/
def findGroups (inp : FindInput) (ax1 : Nat) (oracle : Nat → Nat → Quat) : List Nat × List Group :=
  let n := inp.pos.length
  let m := maxRat (inp.ppos.flatMap (fun p => inp.ppos.map (fun r => distSq p r)))
  let allPos := allPositions inp.cell inp.pos
  let near := nearIndices inp.cell allPos m inp.atol
  let nearPosL := near.map (fun i => allPos.getD i Vec3.zero)
  let nearElemL := near.map (fun i => inp.elems.getD (i % n) "")
  let nearUcL := near.map (fun i => i % n)
  let cands := candidates inp.ppos inp.pelems inp.atol m n nearPosL nearElemL nearUcL
  let candsAll := cands.map (fun t => t.map (fun k => near.getD k 0))
  let grouped := groupBy (fun t : List Nat => sortNat (t.map (· % n))) candsAll
  (near, grouped.zipIdx.map (fun (kg, g) =>
    let good := (List.range kg.2.length).filter (fun i =>
      let t := kg.2.getD i []
      goodCheck inp.ppos ax1 inp.atol (if t.length > 1 then oracle g i else Quat.identity)
        (t.map (fun k => allPos.getD k Vec3.zero)))
    { key := kg.1, tuples := kg.2, good := good }))

structure Match where
  idx : List Nat      -- unit-cell atom indices, in pattern order
  pos : List Vec3     -- positions of the matched images
  q : Quat
deriving DecidableEq, Repr, Inhabited

/-- the reported matches: one survivor per group; `choose g good` picks among several (random.choice) -/
def find (inp : FindInput) (ax1 : Nat) (oracle : Nat → Nat → Quat) (choose : Nat → List Nat → Nat) : List Match :=
  let n := inp.pos.length
  let allPos := allPositions inp.cell inp.pos
  let (_, groups) := findGroups inp ax1 oracle
  groups.zipIdx.filterMap (fun (g, gi) =>
    let pick : Option Nat :=
      match g.good with
      | [] => none
      | [i] => some i
      | many => some (many.getD (choose gi many % many.length) 0)
    pick.map (fun i =>
      let t := g.tuples.getD i []
      { idx := t.map (· % n), pos := t.map (fun k => allPos.getD k Vec3.zero),
        q := if t.length > 1 then oracle gi i else Quat.identity }))

/-! ### atoms stored outside the unit cell

  `_get_positions_from_all_adjacent_unit_cells` searches every atom through its image INSIDE the cell:
  `cells_away = floor(positions · cell⁻¹ + 1e-9)`, `home_positions = positions − cells_away · cell` — a translation by integer
  lattice vectors (an atom already inside is not moved at all). `find` / `findGroups` above are the search on the
  positions they are given; `findW` / `findGroupsW` are `find_pattern_in_structure` itself. -/

/-- `1e-9`: an atom sitting on a cell face within rounding (fractional coordinate `−1e-17`, say) counts as inside -/
def faceEps : Rat := 1 / 1000000000

/-- how many whole cells an atom is away from the home cell, along each lattice vector: `floor(frac + 1e-9)` -/
def Mat3.cellsAway (m : Mat3) (v : Vec3) : Int × Int × Int :=
  let f := m.frac v
  ((f.x + faceEps).floor, (f.y + faceEps).floor, (f.z + faceEps).floor)

/-- the image of `v` inside the cell: `v − (i·A + j·B + k·C)` with `(i, j, k) = cellsAway v` -/
def Mat3.intoCell (m : Mat3) (v : Vec3) : Vec3 :=
  let s := m.cellsAway v
  Vec3.sub v (m.lattice s.1 s.2.1 s.2.2)

/-- the structure with every atom replaced by its image inside the cell (same atoms, same order, same elements) -/
def FindInput.wrapped (inp : FindInput) : FindInput :=
  { inp with pos := inp.pos.map inp.cell.intoCell }

/-- `find_pattern_in_structure`: candidate groups -/
def findGroupsW (inp : FindInput) (ax1 : Nat) (oracle : Nat → Nat → Quat) : List Nat × List Group :=
  findGroups inp.wrapped ax1 oracle

/-- `find_pattern_in_structure`: the reported matches (indices, positions of the matched images, rotations) -/
def findW (inp : FindInput) (ax1 : Nat) (oracle : Nat → Nat → Quat) (choose : Nat → List Nat → Nat) : List Match :=
  find inp.wrapped ax1 oracle choose

end Mofun
