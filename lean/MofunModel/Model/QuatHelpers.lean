/-
  QuatHelpers.lean — the ROTATION CONSTRUCTION of the pattern search, modelled statement by statement:

    mofun/helpers.py   quaternion_from_two_vectors, quaternion_from_two_vectors_around_axis,
                       position_index_farthest_from_axis
    mofun/mofun.py     find_pattern_in_structure: the hint defaults, `pattern.translate(-pattern.positions[axisp1_idx])`,
                       `search_axis`, `match_axis`, `q = quaternion_from_two_vectors_around_axis(...) * q`
    scipy              Rotation.from_quat (normalises), Rotation.__mul__ (Hamilton product, then normalises),
                       Rotation.apply (matrix of the unit quaternion times the vector), Rotation.identity

  ONE generic definition each over a number type `α` with `class QNum α` (= `Mofun.Uff.ElemFun` + `arccos`, `abs` and the
  three float comparisons as `Bool`-valued fields).  Instantiated at `Float` here (executable; `Drive/QuatOps.lean`,
  `drivers/Quat.lean`) and at `ℝ` in `Proofs/QuatReal.lean` (theorems; comparisons there are the classical `decide`).
  Core Lean only.

  Conventions / deviations (also recorded in lean/theorems/extra/C02-quat.json):
    * `np.random.random(3)` of the antiparallel branch is the PARAMETER `rv`;
    * `scipy.linalg.norm(v)` of a 3-vector is `sqrt (x*x + y*y + z*z)` (BLAS nrm2 scales, the value is the same up to rounding);
      `np.dot` of 3-vectors is `x*x' + y*y' + z*z'` summed left to right;
    * `np.isclose(a, b, 1e-3)` is `|a − b| <= 1e-8 + 1e-3·|b|` (numpy's formula; its extra clauses for inf / nan are omitted);
    * python's builtin `min(a, b)` = `b if b < a else a`, `max(a, b)` = `b if b > a else a` (this is what makes a NaN dot product
      come out as −1.0, i.e. `angle = π`, exactly as in the code);
    * `Rotation.from_quat` raises on a zero quaternion; here it is total (`x / 0`: NaN in `Float`, 0 in `ℝ`) — the theorems carry
      hypotheses under which the norm is 1;
    * indices are `Nat` (the hints are already resolved / normalised), out-of-range reads give the zero vector.
-/
import MofunModel.Model.UffFormula

namespace Mofun.QuatH
open Mofun.Uff Mofun.Uff.ElemFun

/-- a number type for the rotation helpers: elementary functions + `arccos`, `abs` and the float comparisons -/
class QNum (α : Type) extends ElemFun α where
  arccos : α → α
  abs : α → α
  /-- `a < b` -/
  lt : α → α → Bool
  /-- `a <= b` -/
  le : α → α → Bool
  /-- `a == b` -/
  eq : α → α → Bool

open QNum

instance : QNum Float where
  arccos := Float.acos
  abs := Float.abs
  lt a b := decide (a < b)
  le a b := decide (a ≤ b)
  eq a b := a == b

structure V3 (α : Type) where
  x : α
  y : α
  z : α
deriving Repr, Inhabited

/-- scipy order: (x, y, z, w) -/
structure Q4 (α : Type) where
  x : α
  y : α
  z : α
  w : α
deriving Repr, Inhabited

section
variable {α : Type} [QNum α]

@[reducible] def n0 : α := ofRat 0
@[reducible] def n1 : α := ofRat 1
@[reducible] def n2 : α := ofRat 2
@[reducible] def nNeg1 : α := ofRat (-1)

/-! ### 3-vectors (numpy) -/

def V3.zero : V3 α := ⟨n0, n0, n0⟩
def V3.add (a b : V3 α) : V3 α := ⟨a.x + b.x, a.y + b.y, a.z + b.z⟩
def V3.sub (a b : V3 α) : V3 α := ⟨a.x - b.x, a.y - b.y, a.z - b.z⟩
def V3.neg (a : V3 α) : V3 α := ⟨-a.x, -a.y, -a.z⟩
/-- `s * v` -/
def V3.smul (s : α) (v : V3 α) : V3 α := ⟨s * v.x, s * v.y, s * v.z⟩
/-- `v * s` -/
def V3.muls (v : V3 α) (s : α) : V3 α := ⟨v.x * s, v.y * s, v.z * s⟩
/-- `v / s` -/
def V3.divs (v : V3 α) (s : α) : V3 α := ⟨v.x / s, v.y / s, v.z / s⟩
/-- `np.dot(a, b)` -/
def V3.dot (a b : V3 α) : α := a.x * b.x + a.y * b.y + a.z * b.z
/-- `np.cross(a, b)` -/
def V3.cross (a b : V3 α) : V3 α := ⟨a.y * b.z - a.z * b.y, a.z * b.x - a.x * b.z, a.x * b.y - a.y * b.x⟩
/-- `scipy.linalg.norm(v)` -/
def V3.norm (v : V3 α) : α := sqrt (v.x * v.x + v.y * v.y + v.z * v.z)

/-- python builtin `min(a, b)` -/
def pyMin (a b : α) : α := if lt b a then b else a
/-- python builtin `max(a, b)` -/
def pyMax (a b : α) : α := if lt a b then b else a

/-- `np.isclose(a, b, 1e-3)` (rtol = 1e-3 positional, atol = 1e-8 default) on one component -/
def isclose3 (a b : α) : Bool := le (QNum.abs (a - b)) (dec 1 8 + dec 1 3 * QNum.abs b)

/-- `np.isclose(a, b, 1e-3).all()` -/
def V3.allClose (a b : V3 α) : Bool := isclose3 a.x b.x && isclose3 a.y b.y && isclose3 a.z b.z

/-- `max(-1.0, min(np.dot(v1, v2), 1))` -/
def clampDot (v1 v2 : V3 α) : α := pyMax nNeg1 (pyMin (V3.dot v1 v2) n1)

/-- `if norm(axis) > 1e-15: axis /= norm(axis)` -/
def normaliseAxis (axis : V3 α) : V3 α := if lt (dec 1 15) (V3.norm axis) then V3.divs axis (V3.norm axis) else axis

/-! ### scipy `Rotation` on its quaternion -/

/-- `Rotation.identity()` -/
def Q4.identity : Q4 α := ⟨n0, n0, n0, n1⟩

/-- `xp_vector_norm(quat)` -/
def Q4.norm (q : Q4 α) : α := sqrt (q.x * q.x + q.y * q.y + q.z * q.z + q.w * q.w)

/-- `Rotation.from_quat(q)`: `quat / norm(quat)` -/
def fromQuat (q : Q4 α) : Q4 α :=
  let n := Q4.norm q
  ⟨q.x / n, q.y / n, q.z / n, q.w / n⟩

/-- scipy `compose_quat(p, q)` (Hamilton product `p ⊗ q`: apply `q` first, then `p`) -/
def composeQuat (p q : Q4 α) : Q4 α :=
  let c := V3.cross (⟨p.x, p.y, p.z⟩ : V3 α) ⟨q.x, q.y, q.z⟩
  ⟨p.w * q.x + q.w * p.x + c.x,
   p.w * q.y + q.w * p.y + c.y,
   p.w * q.z + q.w * p.z + c.z,
   p.w * q.w - p.x * q.x - p.y * q.y - p.z * q.z⟩

/-- `p * q` of two `Rotation`s: `Rotation(compose_quat(p, q), normalize=True)` -/
def mulRot (p q : Q4 α) : Q4 α := fromQuat (composeQuat p q)

/-- `Rotation.apply(v)`: `as_matrix(quat) @ v` (the matrix entries exactly as scipy writes them) -/
def applyRot (q : Q4 α) (v : V3 α) : V3 α :=
  let x2 := q.x * q.x; let y2 := q.y * q.y; let z2 := q.z * q.z; let w2 := q.w * q.w
  let xy := q.x * q.y; let zw := q.z * q.w; let xz := q.x * q.z; let yw := q.y * q.w
  let yz := q.y * q.z; let xw := q.x * q.w
  ⟨(x2 - y2 - z2 + w2) * v.x + n2 * (xy - zw) * v.y + n2 * (xz + yw) * v.z,
   n2 * (xy + zw) * v.x + (-x2 + y2 - z2 + w2) * v.y + n2 * (yz - xw) * v.z,
   n2 * (xz - yw) * v.x + n2 * (yz + xw) * v.y + (-x2 - y2 + z2 + w2) * v.z⟩

/-- `[*(axis * s), c]` -/
def axisAngleQuat (axis : V3 α) (s c : α) : Q4 α :=
  let a := V3.muls axis s
  ⟨a.x, a.y, a.z, c⟩

/-! ### mofun/helpers.py -/

/-- the branch condition of `quaternion_from_two_vectors`:
    `np.isclose(axis, [0., 0., 0.], 1e-3).all() and angle != 0.0` -/
def degenerateBranch (axis : V3 α) (angle : α) : Bool :=
  V3.allClose axis (⟨n0, n0, n0⟩ : V3 α) && !(QNum.eq angle n0)

/-- `quaternion_from_two_vectors(p1, p2)`; `rv` = the value of `np.random.random(3)` -/
def quaternionFromTwoVectors (rv p1 p2 : V3 α) : Q4 α :=
  let v1 := V3.divs p1 (V3.norm p1)
  let v2 := V3.divs p2 (V3.norm p2)
  let angle := arccos (clampDot v1 v2)
  let axis := V3.cross v1 v2
  let axis := if degenerateBranch axis angle then V3.cross v1 rv else axis
  let axis := normaliseAxis axis
  fromQuat (axisAngleQuat axis (sin (angle / n2)) (cos (angle / n2)))

/-- `p - (np.dot(p, axis) / np.dot(axis, axis)) * axis` -/
def projectOff (p axis : V3 α) : V3 α := V3.sub p (V3.smul (V3.dot p axis / V3.dot axis axis) axis)

/-- the sign decision of `quaternion_from_two_vectors_around_axis`:
    `angle not in [0., math.pi] and np.isclose(axis, np.cross(v1, v2) / norm(np.cross(v1, v2)), 1e-3).all()` -/
def flipBranch (axis v1 v2 : V3 α) (angle : α) : Bool :=
  !(QNum.eq angle n0 || QNum.eq angle pi) &&
    V3.allClose axis (V3.divs (V3.cross v1 v2) (V3.norm (V3.cross v1 v2)))

/-- `quaternion_from_two_vectors_around_axis(p1, p2, axis)` -/
def quaternionFromTwoVectorsAroundAxis (p1 p2 axis : V3 α) : Q4 α :=
  let p1 := projectOff p1 axis
  let p2 := projectOff p2 axis
  let v1 := V3.divs p1 (V3.norm p1)
  let v2 := V3.divs p2 (V3.norm p2)
  let angle := arccos (clampDot v1 v2)
  let axis := normaliseAxis axis
  let angle := if flipBranch axis v1 v2 angle then angle * nNeg1 else angle
  fromQuat (axisAngleQuat axis (sin (-angle / n2)) (cos (-angle / n2)))

/-- `ss.max()` (first element kept on ties; the value is what matters) -/
def maxL : List α → α
  | [] => n0
  | x :: xs => xs.foldl (fun m y => if lt m y then y else m) x

/-- `np.nonzero(ss == m)[0][0]` -/
def firstEq (l : List α) (m : α) : Nat :=
  let rec go (l : List α) (i : Nat) : Nat :=
    match l with
    | [] => 0
    | x :: xs => if QNum.eq x m then i else go xs (i + 1)
  go l 0

/-- `(ratoms[:, 1:3] ** 2).sum(axis=1)` for the atoms turned by `q` -/
def offAxisSS (q : Q4 α) (positions : List (V3 α)) : List α :=
  positions.map (fun p => let r := applyRot q p; r.y * r.y + r.z * r.z)

/-- `position_index_farthest_from_axis(axis, atoms)` -/
def positionIndexFarthestFromAxis (rv axis : V3 α) (positions : List (V3 α)) : Nat :=
  let q := quaternionFromTwoVectors rv axis (⟨n1, n0, n0⟩ : V3 α)
  let ss := offAxisSS q positions
  firstEq ss (maxL ss)

/-! ### mofun/mofun.py: the glue of `find_pattern_in_structure` -/

def getV (l : List (V3 α)) (i : Nat) : V3 α := l.getD i V3.zero

/-- `cdist(a, b, "sqeuclidean")` for one pair -/
def sqDist (a b : V3 α) : α :=
  let d := V3.sub a b
  d.x * d.x + d.y * d.y + d.z * d.z

/-- `np.argmax` of a flat list: position of the first maximum -/
def argmaxFirst (l : List α) : Nat :=
  let rec go (l : List α) (i best : Nat) (bv : α) : Nat :=
    match l with
    | [] => best
    | x :: xs => if lt bv x then go xs (i + 1) i x else go xs (i + 1) best bv
  match l with
  | [] => 0
  | x :: xs => go xs 1 0 x

/-- the two axis points: both hints missing → `np.unravel_index(np.argmax(p_ss), p_ss.shape)`;
    one missing → the given one and `np.argmax(p_ss[given, :])` -/
def resolveAxis (pp : List (V3 α)) (h1 h2 : Option Nat) : Nat × Nat :=
  let n := pp.length
  match h1, h2 with
  | some a, some b => (a, b)
  | none, none =>
    let k := argmaxFirst (pp.flatMap (fun p => pp.map (fun r => sqDist p r)))
    if n = 0 then (0, 0) else (k / n, k % n)
  | some a, none => (a, argmaxFirst (pp.map (fun r => sqDist (getV pp a) r)))
  | none, some b => (b, argmaxFirst (pp.map (fun r => sqDist (getV pp b) r)))

/-- `pattern.translate(-pattern.positions[axisp1_idx])` -/
def translatePattern (pp : List (V3 α)) (ax1 : Nat) : List (V3 α) :=
  let d := V3.neg (getV pp ax1)
  pp.map (fun p => V3.add p d)

/-- the orientation point: the hint, or for more than two atoms
    `position_index_farthest_from_axis(search_axis, pattern)` on the TRANSLATED pattern -/
def resolveOpoint (rv : V3 α) (tp : List (V3 α)) (ax2 : Nat) (ho : Option Nat) : Option Nat :=
  match ho with
  | some o => some o
  | none => if tp.length > 2 then some (positionIndexFarthestFromAxis rv (getV tp ax2) tp) else none

/-- the body of the candidate loop: the rotation built for ONE candidate.
    `tp` = pattern positions already translated by `-pattern.positions[axisp1_idx]`, `ap` = `atom_positions` of the
    candidate (in pattern order), `op` = the resolved orientation point (read only when there are more than two atoms). -/
def matchQuat (rv : V3 α) (tp ap : List (V3 α)) (ax1 ax2 op : Nat) : Q4 α :=
  let searchAxis := getV tp ax2
  if ap.length > 1 then
    -- the first quaternion aligns the search pattern axis with the axis found in the structure
    let matchAxis := V3.sub (getV ap ax2) (getV ap ax1)
    let q := quaternionFromTwoVectors rv searchAxis matchAxis
    if ap.length > 2 then
      -- the second one turns around the found axis and aligns the orientation point
      let matchOp := V3.sub (getV ap op) (getV ap ax1)
      let rotatedOp := applyRot q (getV tp op)
      mulRot (quaternionFromTwoVectorsAroundAxis rotatedOp matchOp matchAxis) q
    else q
  else Q4.identity

/-- `chk_pattern.positions = q.apply(pattern.positions); chk_pattern.translate(atom_positions[axisp1_idx])` -/
def checkPositions (q : Q4 α) (tp ap : List (V3 α)) (ax1 : Nat) : List (V3 α) :=
  tp.map (fun p => V3.add (applyRot q p) (getV ap ax1))

/-- everything between the hints and the quaternion of one candidate, on the pattern AS GIVEN:
    hint defaults, translation, orientation point, `matchQuat`. `rvO` feeds `position_index_farthest_from_axis`,
    `rv` the candidate's own `quaternion_from_two_vectors`. -/
def searchQuat (rvO rv : V3 α) (pp ap : List (V3 α)) (h1 h2 ho : Option Nat) : (Nat × Nat × Option Nat) × Q4 α :=
  let (ax1, ax2) := resolveAxis pp h1 h2
  let tp := translatePattern pp ax1
  let op := resolveOpoint rvO tp ax2 ho
  ((ax1, ax2, op), matchQuat rv tp ap ax1 ax2 (op.getD 0))

end

end Mofun.QuatH
