/-
  UffFormula.lean — the UFF functional forms of mofun/rough_uff.py, ONE generic definition each, over a number
  type `α` with elementary functions (`class ElemFun α`).  Instantiated at `Float` here (executable; the driver)
  and at `ℝ` in `Proofs/UffReal.lean` (theorems).  Core Lean only.

  The definitions follow the expression trees of the code literally (same association of products and
  quotients, same constants — the decimal constants are the exact decimals of the source text).
  Deviations, recorded in the trusted base: `x**0.5` is written `sqrt x`; python's float `**` with an int
  exponent is `npow` (`Float.pow x n` / `x ^ n`); python ints mixed into float arithmetic are `ofRat n`.

  Exceptions of the code are modelled as `Except String`: "error:KeyError" (type not in the table),
  "error:ValueError" (`log` of a non-positive bond order), "error:ZeroDivisionError" (multiplicity 0),
  "unsupported" (the explicit `raise` of `dihedral_params`).
-/
import MofunModel.Model.UffLogic

namespace Mofun.Uff

/-- a number type with the elementary functions the UFF formulas need -/
class ElemFun (α : Type) extends Add α, Sub α, Mul α, Div α, Neg α where
  /-- an exact rational (python ints; bond orders) -/
  ofRat : Rat → α
  /-- a decimal literal of the python source / of the table -/
  ofDec : Dec → α
  sqrt : α → α
  log : α → α
  cos : α → α
  sin : α → α
  pi : α
  /-- python `x ** y` with a float exponent -/
  rpow : α → α → α
  /-- python `x ** n` with an int literal exponent -/
  npow : α → Nat → α

open ElemFun

instance : ElemFun Float where
  ofRat q := Float.ofInt q.num / Float.ofNat q.den
  ofDec := Dec.toFloat
  sqrt := Float.sqrt
  log := Float.log
  cos := Float.cos
  sin := Float.sin
  pi := 3.141592653589793
  rpow := Float.pow
  npow x n := Float.pow x (Float.ofNat n)

section
variable {α : Type} [ElemFun α]

/-- the decimal constant `m / 10^e` -/
@[reducible] def dec (m : Int) (e : Nat) : α := ofDec ⟨m, e⟩
/-- a python int used in float arithmetic -/
@[reducible] def int (n : Nat) : α := ofRat (n : Rat)

/-! ### bonds -/

/-- the arithmetic of `bond_params`: returns `(kij / 2, rij)` -/
def bondCore (ri zi chii rj zj chij bo : α) : α × α :=
  let rBO := -(dec 1332 4) * (ri + rj) * log bo
  let rEN := (ri * rj * npow (sqrt chii - sqrt chij) 2) / (chii * ri + chij * rj)
  let rij := ri + rj + rBO - rEN
  let kij := dec 66412 2 * zi * zj / npow rij 3
  (kij / int 2, rij)

/-- `UFF4MOF[a][k]` as a number of `α` -/
def colA (tbl : List (String × List Dec)) (a : String) (k : Nat) : Except String α :=
  match lookup tbl a with
  | none => .error "error:KeyError"
  | some row =>
    match row[k]? with
    | none => .error "error:IndexError"
    | some d => .ok (ofDec d)

/-- the bond order `bond_params` / `dihedral_params` use: the explicit one, else the guess -/
def bondOrderOf (a1 a2 : String) (bo : Option Rat) (rules : List (List String × Rat)) : Rat :=
  match bo with
  | some b => b
  | none => guessBondOrder a1 a2 rules

/-- `bond_params(a1, a2, bond_order, bond_order_rules)` → `(kij / 2, rij)` -/
def bondParams (tbl : List (String × List Dec)) (a1 a2 : String) (bo : Option Rat)
    (rules : List (List String × Rat)) : Except String (α × α) := do
  let b := bondOrderOf a1 a2 bo rules
  let ri ← colA tbl a1 0
  let zi ← colA tbl a1 5
  let chii ← colA tbl a1 8
  let rj ← colA tbl a2 0
  let zj ← colA tbl a2 5
  let chij ← colA tbl a2 8
  if b ≤ 0 then .error "error:ValueError"          -- math.log of a non-positive number
  else .ok (bondCore ri zi chii rj zj chij (ofRat b))

/-! ### angles -/

inductive AngleResult (α : Type) where
  /-- `('cosine/periodic', kijk, b, n)` -/
  | cosinePeriodic (k : α) (b : Int) (n : Nat)
  /-- `('fourier', kijk, c0, c1, c2)` -/
  | fourier (k c0 c1 c2 : α)

/-- the force constant `kijk` of either form -/
def AngleResult.k {α : Type} : AngleResult α → α
  | .cosinePeriodic k _ _ => k
  | .fourier k _ _ _ => k

/-- the potential style of the result -/
def AngleResult.style {α : Type} : AngleResult α → AngleStyle
  | .cosinePeriodic _ b n => .cosinePeriodic n b
  | .fourier _ _ _ _ => .fourier

/-- `theta0deg * 2 * pi / 360` -/
def theta0rad (theta0deg : α) : α := theta0deg * int 2 * pi / int 360

/-- `rik = sqrt(rij**2 + rjk**2 - 2 * rij * rjk * cos(theta0rad))` -/
def rikOf (theta0deg rij rjk : α) : α :=
  sqrt (npow rij 2 + npow rjk 2 - int 2 * rij * rjk * cos (theta0rad theta0deg))

/-- the angle force constant `kijk` -/
def angleK (theta0deg rij rjk zi zk : α) : α :=
  let ct := cos (theta0rad theta0deg)
  let rik := rikOf theta0deg rij rjk
  dec 66412 2 * (zi * zk / npow rik 5) * (int 3 * rij * rjk * (int 1 - npow ct 2) - (npow rik 2 * ct))

/-- the three fourier coefficients `(c0, c1, c2)` -/
def fourierCoeffs (theta0deg : α) : α × α × α :=
  let t := theta0rad theta0deg
  let c2 := int 1 / (int 4 * npow (sin t) 2)
  let c1 := -(int 4) * c2 * cos t
  let c0 := c2 * (int 2 * npow (cos t) 2 + int 1)
  (c0, c1, c2)

/-- the arithmetic of `angle_params` once the style is known -/
def angleCore (style : AngleStyle) (theta0deg rij rjk zi zk : α) : AngleResult α :=
  let kijk := angleK theta0deg rij rjk zi zk
  match style with
  | .cosinePeriodic n b => .cosinePeriodic kijk b n
  | .fourier =>
    let c := fourierCoeffs theta0deg
    .fourier kijk c.1 c.2.1 c.2.2

/-- `angle_params(a1, a2, a3, bond_orders=[bo1, bo2], bond_order_rules)` -/
def angleParams (tbl : List (String × List Dec)) (a1 a2 a3 : String) (bo1 bo2 : Option Rat)
    (rules : List (List String × Rat)) : Except String (AngleResult α) := do
  let theta0 ← colA (α := α) tbl a2 1
  let style ← match col tbl a2 1 with
    | some t => pure (angleStyle t a2)
    | none => .error "error:KeyError"
  let b1 ← bondParams (α := α) tbl a1 a2 bo1 rules
  let b2 ← bondParams (α := α) tbl a2 a3 bo2 rules
  let zi ← colA tbl a1 5
  let zk ← colA tbl a3 5
  .ok (angleCore style theta0 b1.2 b2.2 zi zk)

/-! ### torsions -/

/-- `5.0 * sqrt(Uj * Uk) * (1. + 4.18 * log(bond_order)) / M` -/
def sp2Barrier (uj uk bo m : α) : α :=
  dec 50 1 * sqrt (uj * uk) * (dec 1 0 + dec 418 2 * log bo) / m

/-- group-6 replacement value: `2. if el == "O" else 6.8` -/
def group6V (isO : Bool) : α := if isO then dec 2 0 else dec 68 1

/-- `dihedral_params(a1, a2, a3, a4, num_dihedrals_about_bond, bond_order, bond_order_rules)`:
    `some (v/2, d, n)` for `("harmonic", v/2, d, n)`, `none` for `None` -/
def dihedralParams (tbl : List (String × List Dec)) (a1 a2 a3 a4 : String) (mult : Nat) (bo : Option Rat)
    (rules : List (List String × Rat)) : Except String (Option (α × Int × Nat)) := do
  let b := bondOrderOf a2 a3 bo rules
  let m : α := ofRat (mult : Rat)
  let guardM : Except String Unit := if mult == 0 then .error "error:ZeroDivisionError" else .ok ()
  let guardLog : Except String Unit := if b ≤ 0 then .error "error:ValueError" else .ok ()
  match torsionCase a1 a2 a3 a4 with
  | .sp3sp3 =>
    let v1 ← colA (α := α) tbl a2 6
    let v2 ← colA (α := α) tbl a3 6
    guardM
    let v := sqrt (v1 * v2) / m
    .ok (some (v / int 2, 1, 3))
  | .sp3sp3Group6 o1 o2 =>
    let _ ← colA (α := α) tbl a2 6
    let _ ← colA (α := α) tbl a3 6
    guardM
    let v := sqrt (group6V (α := α) o1 * group6V o2) / m
    .ok (some (v / int 2, 1, 2))
  | .sp2sp2 =>
    let uj ← colA (α := α) tbl a2 7
    let uk ← colA (α := α) tbl a3 7
    guardLog
    guardM
    let v := sp2Barrier uj uk (ofRat b) m
    .ok (some (v / int 2, -1, 2))
  | .mixedSp2Sp2 =>
    guardM
    let v : α := dec 2 0 / m
    .ok (some (v / int 2, 1, 3))
  | .mixedOxygen =>
    let uj ← colA (α := α) tbl a2 7
    let uk ← colA (α := α) tbl a3 7
    guardLog
    guardM
    let v := sp2Barrier uj uk (ofRat b) m
    .ok (some (v / int 2, 1, 2))
  | .mixedDefault =>
    guardM
    let v : α := dec 1 0 / m
    .ok (some (v / int 2, -1, 6))
  | .undefined => .ok none
  | .unsupported => .error "unsupported"

/-! ### pair coefficients -/

/-- `2**(-1./6.)` -/
def ljFactor : α := rpow (int 2) (-(dec 1 0) / dec 6 0)

/-- `pair_coeffs(a1)` → `[lj_epsilon, lj_sigma]` -/
def pairCoeffs (tbl : List (String × List Dec)) (a1 : String) : Except String (α × α) := do
  let x1 ← colA (α := α) tbl a1 2
  let d1 ← colA (α := α) tbl a1 3
  .ok (d1, x1 * ljFactor)

end

end Mofun.Uff
