/-
  Construct.lean — the constructor `Atoms.__init__` and `Atoms.assert_arrays_are_consistent_sizes`
  (mofun/atoms.py), which every loader and every operation ends in.

  The model follows the code branch by branch and in the code's order:

    __init__                                                       here
    ------------------------------------------------------------   ---------------------------------------------
    listdefault(v)                                                 an absent keyword argument is the empty list
    np.array(bonds, dtype=int) … (ragged rows: ValueError)         `rect` on the four tuple lists      → "shape"
    charges / groups: as given when non-empty, else zeros          `chargesOf`, `groupsOf`
    len(atom_types) > 0   : types as given, atom_type_elements     `typesOf`, `elemsOf`   (first branch)
    elif len(elements) > 0: table = dict.fromkeys(elements),       `dedup`, `indexOf?`    (second branch)
                            types = [table.index(s) for s in …]
    else                  : no types, atom_type_elements as passed  (third branch; since 84d3f69 the table is kept)
    masses from ATOMIC_MASSES when none are passed and the          `massesOf`  (unknown element: KeyError → "key")
       element table is non-empty
    labels: as given when non-empty, else the element table        `labelsOf`
    extra_*_labels = OrderedSet(labels)                            `dedup`
    shaped_fields(fields, (len(self.X_types), len(extra_X_labels)))  `shaped`: "." filled default whose width is the
       (np.array(fields): ragged rows: ValueError)                   number of labels passed for THAT kind → "shape"

    assert_arrays_are_consistent_sizes                             `check` = first failing entry of `checks`
    ------------------------------------------------------------
    len(positions) vs atom_types, charges, groups                  "len:atom_types" "len:charges" "len:groups"
    len(bonds) vs bond_types, … (four kinds)                       "len:bonds" "len:angles" "len:dihedrals" "len:impropers"
    len(atom_type_labels) < num_atom_types                         "len:labels"
    len(atom_type_elements) < num_atom_types                       (never: num_atom_types IS len(atom_type_elements))
    len(atom_type_masses) < num_atom_types                         "len:masses"
    fix_extra_fields (no labels and wrong row count: reset)        `fixX`
    check_extra_fields: rows, then width, for atom, bond, angle,   "xrows:<kind>" "xwidth:<kind>"
       dihedral, improper in this order

  What the constructor does NOT check (left to the caller): that type ids have table entries when the tables are
  longer than zero but shorter than the ids, that term tuples refer to existing atoms, that term tuples have the
  arity of their kind, that coefficient tables cover the term type ids, the length of `pair_coeffs`.

  Out of scope: `elements` given as a string / Formula; positions that are not n×3; negative type ids.
  Core Lean only.
-/
import MofunModel.Model.Topo

namespace Mofun.Construct

open Mofun

/-! ## keyword arguments -/

/-- the keyword arguments of one term kind: `bonds`, `bond_types`, `bond_type_coeffs`, `extra_bond_labels`,
    `extra_bond_fields` (and the same for angles, dihedrals, impropers) -/
structure KindArgs where
  tuples : List (List Nat) := []
  types : List Nat := []
  coeffs : List String := []
  xlabels : List String := []
  xfields : List (List String) := []
deriving DecidableEq, Repr, Inhabited

/-- the keyword arguments of `Atoms(...)`; an argument that is not passed (`None`) is the empty list -/
structure CtorArgs where
  atomTypes : List Nat := []
  positions : List Vec3 := []
  charges : List Rat := []
  groups : List Int := []
  elements : List String := []         -- list form only
  typeMasses : List Rat := []          -- atom_type_masses
  typeElems : List String := []        -- atom_type_elements
  typeLabels : List String := []       -- atom_type_labels
  bonds : KindArgs := {}
  angles : KindArgs := {}
  dihedrals : KindArgs := {}
  impropers : KindArgs := {}
  pairCoeffs : List String := []
  cell : Option Mat3 := none
  xlabels : List String := []          -- extra_atom_labels
  xfields : List (List String) := []   -- extra_atom_fields
deriving DecidableEq, Repr, Inhabited

/-! ## errors (all `Err.reject`, so the line protocol prints `reject:<kind>`) -/

/-- numpy cannot build a rectangular array (ValueError) -/
def eShape : Err := .reject "shape"
/-- `ATOMIC_MASSES[s]` for an unknown element (KeyError) -/
def eKey : Err := .reject "key"
/-- one of the `len(...)` comparisons of `assert_arrays_are_consistent_sizes` -/
def eLen (what : String) : Err := .reject ("len:" ++ what)
/-- `check_extra_fields`: number of rows -/
def eRows (kind : String) : Err := .reject ("xrows:" ++ kind)
/-- `check_extra_fields`: number of columns vs number of labels -/
def eWidth (kind : String) : Err := .reject ("xwidth:" ++ kind)

/-! ## `__init__` -/

/-- the rows can be stacked into a 2-d numpy array -/
def rect {α} : List (List α) → Bool
  | [] => true
  | r :: rest => rest.all (fun r' => r'.length == r.length)

/-- all entries present -/
def allSome {α} : List (Option α) → Option (List α)
  | [] => some []
  | none :: _ => none
  | some x :: xs =>
    match allSome xs with
    | some ys => some (x :: ys)
    | none => none

/-- `self.atom_types` -/
def typesOf (k : CtorArgs) : List Nat :=
  if !k.atomTypes.isEmpty then k.atomTypes
  else if !k.elements.isEmpty then
    k.elements.map (fun e => (indexOf? (dedup k.elements) e).getD 0)
  else []

/-- `self.atom_type_elements` -/
def elemsOf (k : CtorArgs) : List String :=
  if !k.atomTypes.isEmpty then k.typeElems
  else if !k.elements.isEmpty then dedup k.elements
  else k.typeElems     -- no atoms: the passed type elements are kept (since 84d3f69; masses / labels follow from them)

/-- `self.atom_type_masses`; `none` = KeyError -/
def massesOf (massOf : String → Option Rat) (k : CtorArgs) : Option (List Rat) :=
  if k.typeMasses.isEmpty && !(elemsOf k).isEmpty then allSome ((elemsOf k).map massOf)
  else some k.typeMasses

/-- `self.atom_type_labels` -/
def labelsOf (k : CtorArgs) : List String :=
  if !k.typeLabels.isEmpty then k.typeLabels else elemsOf k

/-- `self.charges` -/
def chargesOf (k : CtorArgs) : List Rat :=
  if !k.charges.isEmpty then k.charges else List.replicate k.positions.length 0

/-- `self.groups` -/
def groupsOf (k : CtorArgs) : List Int :=
  if !k.groups.isEmpty then k.groups else List.replicate k.positions.length 0

/-- an `extra_*_fields` array: its rows and its number of columns (`shape[1]`, defined also when there is no row) -/
structure XTable where
  rows : List (List String)
  width : Nat
deriving DecidableEq, Repr, Inhabited

/-- `shaped_fields(fields, (n, w))`; the caller checks `rect fields` first -/
def shaped (fields : List (List String)) (n w : Nat) : XTable :=
  if fields.isEmpty then ⟨List.replicate n (List.replicate w "."), w⟩
  else ⟨fields, (fields.head?.map List.length).getD 0⟩

/-- one term kind of `self` after `__init__` -/
structure RKind where
  tuples : List (List Nat)
  types : List Nat
  coeffs : List String
  xlabels : List String       -- OrderedSet(extra_X_labels)
  xt : XTable
deriving DecidableEq, Repr, Inhabited

def resolveKind (ka : KindArgs) : RKind :=
  ⟨ka.tuples, ka.types, ka.coeffs, dedup ka.xlabels, shaped ka.xfields ka.types.length ka.xlabels.length⟩

/-- `self` at the end of `__init__`, before the consistency assertion -/
structure Resolved where
  types : List Nat
  positions : List Vec3
  charges : List Rat
  groups : List Int
  elems : List String
  labels : List String
  masses : List Rat
  bonds : RKind
  angles : RKind
  dihedrals : RKind
  impropers : RKind
  pair : List String
  cell : Option Mat3
  xlabels : List String       -- OrderedSet(extra_atom_labels)
  xt : XTable
deriving DecidableEq, Repr, Inhabited

/-- the four tuple arrays can be built -/
def tuplesRect (k : CtorArgs) : Bool :=
  rect k.bonds.tuples && rect k.angles.tuples && rect k.dihedrals.tuples && rect k.impropers.tuples

/-- the five extra-field arrays can be built -/
def fieldsRect (k : CtorArgs) : Bool :=
  rect k.xfields && rect k.bonds.xfields && rect k.angles.xfields && rect k.dihedrals.xfields
    && rect k.impropers.xfields

/-- `self` at the end of `__init__`, given the masses that were resolved -/
def resolvedWith (k : CtorArgs) (masses : List Rat) : Resolved :=
  { types := typesOf k
    positions := k.positions
    charges := chargesOf k
    groups := groupsOf k
    elems := elemsOf k
    labels := labelsOf k
    masses := masses
    bonds := resolveKind k.bonds
    angles := resolveKind k.angles
    dihedrals := resolveKind k.dihedrals
    impropers := resolveKind k.impropers
    pair := k.pairCoeffs
    cell := k.cell
    xlabels := dedup k.xlabels
    xt := shaped k.xfields (typesOf k).length k.xlabels.length }

/-- the body of `__init__` up to the call of the assertion; the exceptions in the order the code reaches them:
    the tuple arrays are built first, the mass lookup comes next, the extra-field arrays last -/
def resolve (massOf : String → Option Rat) (k : CtorArgs) : Except Err Resolved :=
  if !tuplesRect k then .error eShape
  else
    match massesOf massOf k with
    | none => .error eKey
    | some masses => if !fieldsRect k then .error eShape else .ok (resolvedWith k masses)

/-! ## `assert_arrays_are_consistent_sizes` -/

/-- the error of the first check that fires -/
def firstErr : List (Bool × Err) → Option Err
  | [] => none
  | (b, e) :: rest => if b then some e else firstErr rest

/-- `fix_extra_fields`: without labels a table of the wrong height is reset to `(n, 0)` -/
def fixX (labels : List String) (t : XTable) (n : Nat) : XTable :=
  if labels.isEmpty && t.rows.length != n then ⟨List.replicate n [], 0⟩ else t

/-- `check_extra_fields` on the fixed table -/
def xChecks (kind : String) (labels : List String) (t : XTable) (n : Nat) : List (Bool × Err) :=
  [((fixX labels t n).rows.length != n, eRows kind), (labels.length != (fixX labels t n).width, eWidth kind)]

def kindLenCheck (what : String) (rk : RKind) : Bool × Err := (rk.tuples.length != rk.types.length, eLen what)

/-- every check of the assertion, in the order of the code (`num_atom_types` is `len(atom_type_elements)`) -/
def checks (r : Resolved) : List (Bool × Err) :=
  [(r.positions.length != r.types.length, eLen "atom_types"),
   (r.positions.length != r.charges.length, eLen "charges"),
   (r.positions.length != r.groups.length, eLen "groups"),
   kindLenCheck "bonds" r.bonds, kindLenCheck "angles" r.angles,
   kindLenCheck "dihedrals" r.dihedrals, kindLenCheck "impropers" r.impropers,
   (decide (r.labels.length < r.elems.length), eLen "labels"),
   (decide (r.masses.length < r.elems.length), eLen "masses")]
  ++ xChecks "atom" r.xlabels r.xt r.types.length
  ++ xChecks "bond" r.bonds.xlabels r.bonds.xt r.bonds.types.length
  ++ xChecks "angle" r.angles.xlabels r.angles.xt r.angles.types.length
  ++ xChecks "dihedral" r.dihedrals.xlabels r.dihedrals.xt r.dihedrals.types.length
  ++ xChecks "improper" r.impropers.xlabels r.impropers.xt r.impropers.types.length

/-- the exception the assertion raises, if any -/
def check (r : Resolved) : Option Err := firstErr (checks r)

/-! ## the object -/

/-- the terms of one kind as rows (tuple, type id, extra row) -/
def buildKind (rk : RKind) : TermTable :=
  let xt := fixX rk.xlabels rk.xt rk.types.length
  { terms := (List.range rk.types.length).map (fun i =>
      ({ atoms := rk.tuples.getD i [], ty := rk.types.getD i 0, extra := xt.rows.getD i [] } : Term))
    coeffs := rk.coeffs
    xlabels := rk.xlabels }

/-- the per-atom arrays as rows -/
def buildAtoms (r : Resolved) : List AtomRow :=
  let xt := fixX r.xlabels r.xt r.types.length
  (List.range r.types.length).map (fun i =>
    ({ ty := r.types.getD i 0, pos := r.positions.getD i Vec3.zero, charge := r.charges.getD i 0,
       group := r.groups.getD i 0, extra := xt.rows.getD i [] } : AtomRow))

def build (r : Resolved) : Atoms :=
  { atoms := buildAtoms r
    bonds := buildKind r.bonds
    angles := buildKind r.angles
    dihedrals := buildKind r.dihedrals
    impropers := buildKind r.impropers
    typeElems := r.elems
    typeLabels := r.labels
    typeMasses := r.masses
    pairCoeffs := r.pair
    xlabels := r.xlabels
    cell := r.cell }

/-- `Atoms(**k)`; `massOf` is the lookup in `ATOMIC_MASSES` -/
def construct (massOf : String → Option Rat) (k : CtorArgs) : Except Err Atoms :=
  match resolve massOf k with
  | .error e => .error e
  | .ok r =>
    match check r with
    | some e => .error e
    | none => .ok (build r)

/-! ## when construction succeeds (the guard of `construct_ok_iff`, decidable; used by the driver too) -/

/-- the extra-field arguments of one kind pass `fix_extra_fields` / `check_extra_fields` for `n` rows -/
def XOk (labels : List String) (fields : List (List String)) (n : Nat) : Prop :=
  (fixX (dedup labels) (shaped fields n labels.length) n).rows.length = n
  ∧ (dedup labels).length = (fixX (dedup labels) (shaped fields n labels.length) n).width

instance (labels : List String) (fields : List (List String)) (n : Nat) : Decidable (XOk labels fields n) := by
  unfold XOk; infer_instance

/-- the masses resolve (no KeyError) and cover the element table -/
def MassesOk (massOf : String → Option Rat) (k : CtorArgs) : Prop :=
  match massesOf massOf k with
  | some m => (elemsOf k).length ≤ m.length
  | none => False

instance (massOf : String → Option Rat) (k : CtorArgs) : Decidable (MassesOk massOf k) := by
  unfold MassesOk; split <;> infer_instance

/-- **exactly the keyword arguments the constructor accepts** -/
def CtorOk (massOf : String → Option Rat) (k : CtorArgs) : Prop :=
  tuplesRect k = true ∧ fieldsRect k = true ∧ MassesOk massOf k
  ∧ (typesOf k).length = k.positions.length
  ∧ (chargesOf k).length = k.positions.length
  ∧ (groupsOf k).length = k.positions.length
  ∧ k.bonds.tuples.length = k.bonds.types.length
  ∧ k.angles.tuples.length = k.angles.types.length
  ∧ k.dihedrals.tuples.length = k.dihedrals.types.length
  ∧ k.impropers.tuples.length = k.impropers.types.length
  ∧ (elemsOf k).length ≤ (labelsOf k).length
  ∧ XOk k.xlabels k.xfields (typesOf k).length
  ∧ XOk k.bonds.xlabels k.bonds.xfields k.bonds.types.length
  ∧ XOk k.angles.xlabels k.angles.xfields k.angles.types.length
  ∧ XOk k.dihedrals.xlabels k.dihedrals.xfields k.dihedrals.types.length
  ∧ XOk k.impropers.xlabels k.impropers.xfields k.impropers.types.length

instance (massOf : String → Option Rat) (k : CtorArgs) : Decidable (CtorOk massOf k) := by
  unfold CtorOk; infer_instance

end Mofun.Construct
