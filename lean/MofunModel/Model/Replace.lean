/-
  Replace.lean — the combinatorial and placement part of `replace_pattern_in_structure` (mofun/mofun.py) and
  `find_unchanged_atom_pairs` (mofun/atoms.py).  The matches (unit-cell indices, image positions, quaternion)
  are inputs: they come from the search (Model/Find.lean).  Core Lean only.
-/
import MofunModel.Model.Topo
import MofunModel.Model.Find

namespace Mofun

def Atoms.elemOf (a : Atoms) (i : Nat) : String :=
  match a.atoms[i]? with
  | some r => a.typeElems.getD r.ty ""
  | none => ""

/-- `find_unchanged_atom_pairs(orig, final)`: for every atom `i` of `orig`, the FIRST atom `j` of `final` with
    the same element closer than 1e-5 (`‖p₂ − p₁‖ < 10⁻⁵`, i.e. squared distance `< 10⁻¹⁰`) -/
def unchangedPairs (orig final : Atoms) : List (Nat × Nat) :=
  (List.range orig.atoms.length).filterMap (fun i =>
    match orig.atoms[i]? with
    | none => none
    | some ri =>
      ((List.range final.atoms.length).find? (fun j =>
        match final.atoms[j]? with
        | none => false
        | some rj => decide (distSq rj.pos ri.pos < 1 / 10000000000) && orig.elemOf i = final.elemOf j)).map
        (fun j => (i, j)))

structure PlacedMatch where
  idx : List Nat      -- matched unit-cell atoms, in search-pattern order
  pos : List Vec3     -- positions of the matched images
  q : Quat            -- rotation of the search pattern onto the match
deriving DecidableEq, Repr, Inhabited

/-- the replacement pattern placed for one match: translated into the search pattern's frame (first search atom
    at the origin), rotated by the match rotation, translated to the first matched atom, wrapped into the cell -/
def placeAtoms (cell : Option Mat3) (p0 : Vec3) (r : Atoms) (m : PlacedMatch) : Atoms :=
  let t := m.pos.getD 0 Vec3.zero
  { r with atoms := r.atoms.map (fun row =>
      let v := Vec3.add (rot m.q (Vec3.sub row.pos p0)) t
      { row with pos := match cell with
                        | some c => c.wrap v
                        | none => v }) }

/-- atoms of the structure a match wants removed: its atoms minus those retained through the index map -/
def toDeleteOf (m : PlacedMatch) (retained : List Nat) : List Nat :=
  (dedup m.idx).filter (fun i => !retained.contains i)

structure ReplaceState where
  s : Atoms
  del : List Nat
deriving Repr, Inhabited

/-- `replace_pattern_in_structure` after the search: `ms` are the matches selected for replacement, in order -/
def replaceCore (s p r : Atoms) (ms : List PlacedMatch) (replaceAll ignore : Bool) : Except Err Atoms :=
  if r.atoms.isEmpty then
    s.delete (dedup (ms.flatMap (·.idx)))
  else
    let p0 := match p.atoms[0]? with
      | some row => row.pos
      | none => Vec3.zero
    let pairs := unchangedPairs r p          -- replace-pattern index ↦ search-pattern index
    let (s1, offs) := s.extendTypes r
    let step := fun (acc : Except Err ReplaceState) (m : PlacedMatch) =>
      match acc with
      | .error e => .error e
      | .ok st =>
        let newAtoms := placeAtoms s.cell p0 r m
        let map : List (Nat × Nat) :=
          if replaceAll then [] else pairs.map (fun kv => (kv.1, m.idx.getD kv.2 0))
        match st.s.extend newAtoms (some offs) map with
        | .error e => .error e
        | .ok s' =>
          let td := toDeleteOf m (map.map (·.2))
          if td.all (fun i => !st.del.contains i) || ignore then
            .ok { s := s', del := st.del ++ td.filter (fun i => !st.del.contains i) }
          else .error .overlap
    match ms.foldl step (.ok { s := s1, del := [] }) with
    | .error e => .error e
    | .ok st => st.s.delete st.del

end Mofun
