/-
  Hist.lean — operation histories over a few named `Atoms` objects (property C09).

  A `State` is a small fixed number of slots (the harness uses `numSlots = 4`), each empty or holding an
  `Atoms` object.  An `Op` is one call of the public API of mofun/atoms.py on the objects in the slots:

    construct  slot := Atoms(...)                       (a literal object)
    copy       dst  := src.copy()
    delete     del slot[idx]                            (in place)
    pop        slot.pop(i)                              (in place)
    extend     dst.extend(src, offsets, structure_index_map)   (in place on dst; src untouched)
    replicate  dst  := src.replicate(dims)
    getitem    dst  := src[idx]

  `step` applies one op with the executable model of Model/Topo.lean and raises what the model raises
  (`Except Err`); an op on an empty / non-existing slot is outside the modelled domain (`Err.domain`).
  `run` applies a list of ops and stops at the first error; `trace` keeps every intermediate result (this is
  what the line-protocol driver prints).  Core Lean only.
-/
import MofunModel.Model.Topo

namespace Mofun.Hist

/-- number of slots the harness uses -/
def numSlots : Nat := 4

abbrev State := List (Option Atoms)

def State.init : State := List.replicate numSlots none

inductive Op where
  | construct (dst : Nat) (a : Atoms)
  | copy (src dst : Nat)
  | delete (slot : Nat) (idx : List Nat)
  | pop (slot : Nat) (i : Int)
  | extend (dst src : Nat) (off : Option Offsets) (map : List (Nat × Nat))
  | replicate (src dst : Nat) (da db dc : Nat)
  | getitem (src dst : Nat) (idx : List Nat)
deriving Repr

/-- the object in slot `i`; an empty or non-existing slot is outside the domain -/
def getSlot (s : State) (i : Nat) : Except Err Atoms :=
  match s[i]? with
  | some (some a) => .ok a
  | _ => .error .domain

/-- store an object into slot `i` (which must exist) -/
def putSlot (s : State) (i : Nat) (a : Atoms) : Except Err State :=
  if i < s.length then .ok (s.set i (some a)) else .error .domain

def step (s : State) : Op → Except Err State
  | .construct dst a => putSlot s dst a
  | .copy src dst => do
      let a ← getSlot s src
      putSlot s dst a
  | .delete slot idx => do
      let a ← getSlot s slot
      let r ← a.delete idx
      putSlot s slot r
  | .pop slot i => do
      let a ← getSlot s slot
      let r ← a.pop i
      putSlot s slot r
  | .extend dst src off map => do
      let a ← getSlot s dst
      let b ← getSlot s src
      let r ← a.extend b off map
      putSlot s dst r
  | .replicate src dst da db dc => do
      let a ← getSlot s src
      let r ← a.replicate da db dc
      putSlot s dst r
  | .getitem src dst idx => do
      let a ← getSlot s src
      let r ← a.getitem idx
      putSlot s dst r

/-- apply the ops in order, stop at the first error -/
def run (s : State) : List Op → Except Err State
  | [] => .ok s
  | op :: rest =>
    match step s op with
    | .error e => .error e
    | .ok s' => run s' rest

/-- per-step results: `some (ok state)` / `some (error e)` for the steps that ran, `none` for the steps after
    the first error (reported as skipped) -/
def trace (s : State) : List Op → List (Option (Except Err State))
  | [] => []
  | op :: rest =>
    match step s op with
    | .error e => some (.error e) :: rest.map (fun _ => none)
    | .ok s' => some (.ok s') :: trace s' rest

end Mofun.Hist
