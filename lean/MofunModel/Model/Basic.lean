/-
  Basic.lean — shared vocabulary of the mofun model (core Lean only, no Mathlib).

  Numbers that are doubles in the Python code are exact rationals here (`Rat`); every float crosses the
  line protocol as the exact rational it is.
-/
namespace Mofun

/-- A point / vector in Cartesian space. -/
structure Vec3 where
  x : Rat
  y : Rat
  z : Rat
deriving DecidableEq, Repr, Inhabited

namespace Vec3
def zero : Vec3 := ⟨0, 0, 0⟩
def add (a b : Vec3) : Vec3 := ⟨a.x + b.x, a.y + b.y, a.z + b.z⟩
def sub (a b : Vec3) : Vec3 := ⟨a.x - b.x, a.y - b.y, a.z - b.z⟩
def smul (k : Rat) (a : Vec3) : Vec3 := ⟨k * a.x, k * a.y, k * a.z⟩
def dot (a b : Vec3) : Rat := a.x * b.x + a.y * b.y + a.z * b.z
def cross (a b : Vec3) : Vec3 :=
  ⟨a.y * b.z - a.z * b.y, a.z * b.x - a.x * b.z, a.x * b.y - a.y * b.x⟩
def normSq (a : Vec3) : Rat := dot a a
instance : Add Vec3 := ⟨add⟩
instance : Sub Vec3 := ⟨sub⟩
end Vec3

/-- A cell: the three lattice vectors are the ROWS (numpy convention of the code). -/
structure Mat3 where
  a : Vec3
  b : Vec3
  c : Vec3
deriving DecidableEq, Repr, Inhabited

namespace Mat3
/-- `i·A + j·B + k·C` : the lattice vector with integer (or rational) multipliers. -/
def lattice (m : Mat3) (i j k : Rat) : Vec3 :=
  Vec3.add (Vec3.add (Vec3.smul i m.a) (Vec3.smul j m.b)) (Vec3.smul k m.c)
def det (m : Mat3) : Rat := Vec3.dot (Vec3.cross m.a m.b) m.c
/-- rows scaled individually -/
def scaleRows (m : Mat3) (i j k : Rat) : Mat3 := ⟨Vec3.smul i m.a, Vec3.smul j m.b, Vec3.smul k m.c⟩
end Mat3

/-- errors the model can raise; mirrors the small enum of the line protocol -/
inductive Err where
  | index        -- an index outside the array (numpy IndexError)
  | overlap      -- AtomsShouldNotBeDeletedTwice
  | nocell       -- operation needs a unit cell
  | domain       -- input outside the modelled domain
  | reject (why : String)
deriving DecidableEq, Repr

def Err.toString : Err → String
  | .index => "error:index"
  | .overlap => "overlap"
  | .nocell => "error:nocell"
  | .domain => "domain"
  | .reject w => "reject:" ++ w

/-- position of the first occurrence -/
def indexOf? {α} [DecidableEq α] (l : List α) (x : α) : Option Nat :=
  match l with
  | [] => none
  | y :: ys => if y = x then some 0 else (indexOf? ys x).map (· + 1)

/-- order-preserving de-duplication (python `dict.fromkeys`, `OrderedSet`) -/
def dedup {α} [DecidableEq α] : List α → List α
  | [] => []
  | x :: xs => x :: (dedup xs).filter (· ≠ x)

/-- `l` without the positions listed in `idx` (numpy `np.delete(l, idx, axis=0)` for valid indices). -/
def deleteIdx {α} (l : List α) (idx : List Nat) : List α :=
  let rec go (l : List α) (i : Nat) : List α :=
    match l with
    | [] => []
    | x :: xs => if idx.contains i then go xs (i + 1) else x :: go xs (i + 1)
  go l 0

/-- maximum of a list of naturals, 0 for the empty list -/
def maxNat : List Nat → Nat
  | [] => 0
  | x :: xs => max x (maxNat xs)

end Mofun

namespace Mofun

/-- an exact decimal literal of the Python source: value = `m / 10^e` -/
structure Dec where
  m : Int
  e : Nat
deriving DecidableEq, Repr, Inhabited

def Dec.toRat (d : Dec) : Rat := (d.m : Rat) / ((10 ^ d.e : Nat) : Rat)

def Dec.toFloat (d : Dec) : Float :=
  if d.m < 0 then -(Float.ofScientific d.m.natAbs true d.e) else Float.ofScientific d.m.natAbs true d.e

/-- first value bound to the key (python dict lookup on a table given as an association list) -/
def lookup {β} (tbl : List (String × β)) (k : String) : Option β :=
  match tbl with
  | [] => none
  | (k', v) :: rest => if k' = k then some v else lookup rest k

end Mofun
