/-
  Terms.lean — model of the term enumeration and term typing of `mofun/rough_uff.py` (property C19).
  Core Lean only.

  Modelled functions (same order of operations as the Python code):
    calc_angles, calc_dihedrals            (networkx graph = `nodes` / `neighbours` / `graphEdges`, see below)
    helpers.typekey
    delete_if_all_in_set
    assign_bond_types, assign_angle_types  (`assignSimple`, `assignBonds`, `assignAngles`)
    assign_dihedral_types                  (`assignDihedrals`, with the reversed drop loop `dropLoop`)
    retype_atoms_from_uff_types + assign_pair_coeffs   (`retype`)

  The UFF parameter formulas are NOT modelled here: the coefficient text of a key is a PARAMETER of the model
  (`params : List String → String`, `dparams : DKey → DParam`), so every theorem holds for every parameter function.

  networkx contract (`nx.Graph().add_edges_from(bonds)`), as used by the code:
    * `g.nodes`      = end points of the listed bonds in first-seen order            → `nodes`
    * `g.adj[n]`     = the other end points of the bonds that mention `n`, in listing order, without
                       repetition, direction ignored; a self-loop `(n,n)` puts `n` into its own list → `neighbours`
    * `g.edges`      = for every node `n` in order, `(n, m)` for every neighbour `m` of `n` that is not a node
                       already completed (so a self-loop is reported once, as `(n,n)`)        → `graphEdges`
-/
import MofunModel.Model.Basic

namespace Mofun.Terms

open Mofun

/-! ## the graph -/

/-- the other end of bond `e` seen from `n` (`none` when the bond does not mention `n`) -/
def otherEnd (n : Nat) (e : Nat × Nat) : Option Nat :=
  if e.1 = n then some e.2 else if e.2 = n then some e.1 else none

/-- `list(g.adj[n])` -/
def neighbours (bonds : List (Nat × Nat)) (n : Nat) : List Nat :=
  dedup (bonds.filterMap (otherEnd n))

/-- `list(g.nodes)` -/
def nodes (bonds : List (Nat × Nat)) : List Nat :=
  dedup (bonds.flatMap (fun e => [e.1, e.2]))

/-- nodes in first-seen order with their neighbour lists in insertion order, de-duplicated -/
def adjacency (bonds : List (Nat × Nat)) : List (Nat × List Nat) :=
  (nodes bonds).map (fun n => (n, neighbours bonds n))

/-- networkx `EdgeView.__iter__`: `seen` = nodes already completed -/
def edgesFrom (adj : Nat → List Nat) : List Nat → List Nat → List (Nat × Nat)
  | [], _ => []
  | n :: rest, seen =>
      ((adj n).filter (fun m => !seen.contains m)).map (fun m => (n, m)) ++ edgesFrom adj rest (n :: seen)

/-- `list(g.edges)` -/
def graphEdges (bonds : List (Nat × Nat)) : List (Nat × Nat) :=
  edgesFrom (neighbours bonds) (nodes bonds) []

/-! ## enumeration -/

/-- `itertools.combinations(l, 2)` -/
def pairs {α} : List α → List (α × α)
  | [] => []
  | x :: xs => xs.map (fun y => (x, y)) ++ pairs xs

/-- the angles about node `n` -/
def anglesAt (bonds : List (Nat × Nat)) (n : Nat) : List (List Nat) :=
  (pairs (neighbours bonds n)).map (fun p => [p.1, n, p.2])

/-- `calc_angles(bonds)` -/
def calcAngles (bonds : List (Nat × Nat)) : List (List Nat) :=
  (nodes bonds).flatMap (anglesAt bonds)

/-- the dihedrals about the edge `(a, b)` -/
def dihedralsAt (bonds : List (Nat × Nat)) (e : Nat × Nat) : List (List Nat) :=
  ((neighbours bonds e.1).erase e.2).flatMap (fun a1 =>
    ((neighbours bonds e.2).erase e.1).map (fun b1 => [a1, e.1, e.2, b1]))

/-- `calc_dihedrals(bonds)` -/
def calcDihedrals (bonds : List (Nat × Nat)) : List (List Nat) :=
  (graphEdges bonds).flatMap (dihedralsAt bonds)

/-! ## typekey -/

/-- `helpers.typekey`: the reversed tuple when it is `<=` the tuple (python tuple comparison = lexicographic),
    else the tuple itself -/
def typekey {α} [LT α] [DecidableEq α] [DecidableLT α] (t : List α) : List α :=
  if t.reverse ≤ t then t.reverse else t

/-! ## exclusion -/

/-- `len(set(tup) - s) == 0` -/
def allInSet (s : List Nat) (t : List Nat) : Bool := t.all (fun a => s.contains a)

/-- `delete_if_all_in_set(arr, s)` -/
def deleteIfAllInSet (terms : List (List Nat)) (s : List Nat) : List (List Nat) :=
  terms.filter (fun t => !allInSet s t)

/-- `if exclude is not None and len(exclude) >= arity: terms = delete_if_all_in_set(terms, exclude)`;
    `exclude` is a python set, its `len` is the number of distinct members -/
def applyExclude (arity : Nat) (excl : Option (List Nat)) (terms : List (List Nat)) : List (List Nat) :=
  match excl with
  | some s => if (dedup s).length ≥ arity then deleteIfAllInSet terms s else terms
  | none => terms

/-! ## type assignment -/

/-- result of an `assign_*_types` call: the term list, the per-term type ids and the coefficient table -/
structure Assigned where
  terms : List (List Nat)
  types : List Nat
  coeffs : List String
deriving DecidableEq, Repr

/-- `unique.index(k)` -/
def typeIndex {κ} [DecidableEq κ] (uniq : List κ) (k : κ) : Nat := (indexOf? uniq k).getD 0

/-- key of a bond / angle: `typekey([uff_atom_types[a] for a in atup])` -/
def seqKey (uff : Nat → String) (t : List Nat) : List String := typekey (t.map uff)

/-- `assign_bond_types` / `assign_angle_types` for terms of the given arity: exclusion, keys, first-seen unique
    keys, type = position of the key, one coefficient text per unique key -/
def assignSimple (arity : Nat) (uff : Nat → String) (params : List String → String)
    (excl : Option (List Nat)) (terms : List (List Nat)) : Assigned :=
  let ts := applyExclude arity excl terms
  let keys := ts.map (seqKey uff)
  let uniq := dedup keys
  { terms := ts, types := keys.map (typeIndex uniq), coeffs := uniq.map params }

/-- dihedral type: the UFF key and the number of dihedrals about the central bond -/
abbrev DKey := List String × Nat

/-- outcome of `dihedral_params` for a key: a coefficient text, `None` (no torsion defined), or the
    exception "we don't know how to handle this dihedral" -/
inductive DParam where
  | text (s : String)
  | undefined
  | unsupported
deriving DecidableEq, Repr

def DParam.isUndefined : DParam → Bool
  | .undefined => true
  | _ => false

def DParam.toText : DParam → String
  | .text s => s
  | _ => ""

/-- `typekey([a2, a3])` on atom indices -/
def centralKey (t : List Nat) : List Nat := typekey [t.getD 1 0, t.getD 2 0]

/-- `num_dihedrals_per_bond[typekey([a2, a3])]`, counted over the term list as it is BEFORE exclusion -/
def torsionCount (all : List (List Nat)) (t : List Nat) : Nat := (all.map centralKey).count (centralKey t)

/-- `(*typekey(uff types), num_dihedrals_per_bond[...])` -/
def dihedralKey (uff : Nat → String) (all : List (List Nat)) (t : List Nat) : DKey :=
  (seqKey uff t, torsionCount all t)

/-- one round of the deletion loop, for unique type `d`: when its parameters are `None`, the dihedrals of that
    type, their keys, and the unique type itself are removed -/
def dropStep (dparams : DKey → DParam)
    (st : List (List Nat × DKey) × List DKey) (d : DKey) : List (List Nat × DKey) × List DKey :=
  if (dparams d).isUndefined then (st.1.filter (fun p => p.2 ≠ d), st.2.filter (fun k => k ≠ d)) else st

/-- `for i in reversed(range(len(params))): if params[i][0] is None: …` -/
def dropLoop (dparams : DKey → DParam) (uniq : List DKey)
    (st : List (List Nat × DKey) × List DKey) : List (List Nat × DKey) × List DKey :=
  uniq.reverse.foldl (dropStep dparams) st

/-- `assign_dihedral_types` -/
def assignDihedralsCore (uff : Nat → String) (dparams : DKey → DParam)
    (excl : Option (List Nat)) (terms : List (List Nat)) : Except Err Assigned :=
  let ts := applyExclude 4 excl terms
  let keys := ts.map (dihedralKey uff terms)
  let uniq := dedup keys
  -- the parameters of every unique type are computed first; an unsupported combination raises
  if uniq.any (fun k => dparams k == .unsupported) then .error (.reject "unsupported") else
  let st := dropLoop dparams uniq (ts.zip keys, uniq)
  .ok { terms := st.1.map (·.1), types := st.1.map (fun p => typeIndex st.2 p.2),
        coeffs := st.2.map (fun k => (dparams k).toText) }

/-- table lookup of a per-atom UFF type list as a total function -/
def uffFn (uff : List String) (a : Nat) : String := uff[a]?.getD ""

/-- the input domain of the `assign_*` functions: every term has the right number of atoms (else the tuple
    unpacking of the code raises) and every atom has a UFF type (else `IndexError`) -/
def checkTerms (arity : Nat) (uff : List String) (terms : List (List Nat)) : Except Err Unit :=
  if terms.any (fun t => t.length != arity) then .error .domain
  else if terms.any (fun t => t.any (fun a => decide (a ≥ uff.length))) then .error .index
  else .ok ()

def assignBonds (uff : List String) (params : List String → String) (excl : Option (List Nat))
    (terms : List (List Nat)) : Except Err Assigned := do
  checkTerms 2 uff terms
  pure (assignSimple 2 (uffFn uff) params excl terms)

def assignAngles (uff : List String) (params : List String → String) (excl : Option (List Nat))
    (terms : List (List Nat)) : Except Err Assigned := do
  checkTerms 3 uff terms
  pure (assignSimple 3 (uffFn uff) params excl terms)

def assignDihedrals (uff : List String) (dparams : DKey → DParam) (excl : Option (List Nat))
    (terms : List (List Nat)) : Except Err Assigned := do
  checkTerms 4 uff terms
  assignDihedralsCore (uffFn uff) dparams excl terms

/-! ## retype -/

/-- `s[0:2].replace('_', '')` -/
def elementOf (s : String) : String := String.ofList ((s.toList.take 2).filter (fun c => c ≠ '_'))

/-- `list(ATOMIC_MASSES.keys()).index(e)` -/
def ptableIndex (tbl : List (String × Dec)) (e : String) : Option Nat := indexOf? (tbl.map (·.1)) e

structure Retyped where
  labels : List String
  elements : List String
  masses : List Rat
  atomTypes : List Nat
  pairCoeffs : List String
deriving DecidableEq, Repr

/-- insert `x` in front of the first element it is `le` to (so `x` stays before elements of equal key) -/
def insertBy {α} (le : α → α → Bool) (x : α) : List α → List α
  | [] => [x]
  | y :: ys => if le x y then x :: y :: ys else y :: insertBy le x ys

/-- stable insertion sort (structural; python's `list.sort` / `sorted` is a stable sort as well, and the result of a
    stable sort by a total preorder is unique): elements are inserted from the right, each in front of its equals -/
def sortBy {α} (le : α → α → Bool) : List α → List α
  | [] => []
  | x :: xs => insertBy le x (sortBy le xs)

/-- second sort key of retype: `list(ATOMIC_MASSES.keys()).index(s[0:2].replace('_', ''))` -/
def ptableKeyOf (tbl : List (String × Dec)) (s : String) : Nat := (ptableIndex tbl (elementOf s)).getD 0

/-- the unique types, sorted by string and then (stably) by periodic-table position of their element:
    `unique_types = list(set(new_types)); unique_types.sort(); unique_types.sort(key=ptable_order)` -/
def sortedTypes (tbl : List (String × Dec)) (newTypes : List String) : List String :=
  let byString := sortBy (fun a b => decide (a ≤ b)) (dedup newTypes)
  sortBy (fun a b => decide (ptableKeyOf tbl a ≤ ptableKeyOf tbl b)) byString

/-- `retype_atoms_from_uff_types(atoms, new_types)` followed by `assign_pair_coeffs(atoms)`;
    a type whose element is not in the mass table raises (`ValueError` from `list.index`) -/
def retype (tbl : List (String × Dec)) (pairText : String → String) (newTypes : List String) : Except Err Retyped :=
  if newTypes.any (fun s => (ptableIndex tbl (elementOf s)).isNone) then .error (.reject "element") else
  let labels := sortedTypes tbl newTypes
  let elements := labels.map elementOf
  .ok { labels := labels, elements := elements,
        masses := elements.map (fun e => ((lookup tbl e).map Dec.toRat).getD 0),
        atomTypes := newTypes.map (typeIndex labels),
        pairCoeffs := labels.map pairText }

end Mofun.Terms
