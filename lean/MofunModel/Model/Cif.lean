/-
  Cif.lean — P1 CIF writing and reading (mofun/atoms.py: Atoms.save_p1_cif, Atoms.load_p1_cif, the element /
  extra-field handling of Atoms.__init__ that load_p1_cif goes through).            Core Lean only.

  What is modelled
  * PyCifRW's DATA MODEL (not its text): a block is an ordered list of single items (tag, value string) and loops
    (tag list + rows of strings), all values strings exactly as `CifFile.ReadCif` hands them back, all tags
    lower-cased (PyCifRW stores and looks up data names case-insensitively, keys are lower case).
  * number printing by the code: `"%.4f" % x` is explicit (`fmt4`: sign, round-half-even at 10⁻⁴, zero padding);
    the printed number is the fixed-point integer `fix4i x` in units of 10⁻⁴.
  * number reading by the code: `tofloat` = `float(re.sub(r"\(\d+\)", "", s))` (`stripSu` + `parseFloat`, plain
    ASCII decimal grammar with optional exponent; `inf`, `nan`, `_`, blanks, non-ASCII digits are out of domain).
  * label generation, label → index resolution by FIRST occurrence, placeholder term types, extra-column
    bookkeeping, P1 rejection, Cartesian-before-fractional precedence, the wrap `positions %= 1.0`.

  What is NOT modelled and enters as a parameter (opaque)
  * `Env.cellpar`  : the six cell items as they come back from the file, i.e. `cell_abc_alpha_beta_gamma` (square
                     roots, arccos) printed by PyCifRW (`str(float)`) resp. by `"%.4f"`;
  * `Env.reprQ`    : `str(numpy.float64)` — how PyCifRW prints the charges;
  * `LoadEnv.cellOf`: `ase.geometry.cellpar_to_cell` applied to the six numbers `tofloat` read (trigonometry);
                      it receives the six strings AFTER s.u. stripping;
  * `LoadEnv.massOf`: the ATOMIC_MASSES table (the driver plugs in the generated table);
  * PyCifRW's text writer / parser (quoting, line folding) — exercised by the correspondence run only.
-/
import MofunModel.Model.Topo
import MofunModel.Model.Lattice

namespace Mofun.Cif

/-! ## small list helpers -/

/-- `some` of all elements, or `none` as soon as one is missing (a Python exception somewhere in a comprehension) -/
def allSome {α} : List (Option α) → Option (List α)
  | [] => some []
  | none :: _ => none
  | some x :: xs => (allSome xs).map (x :: ·)

def allOk {α} : List (Except Err α) → Except Err (List α)
  | [] => .ok []
  | .error e :: _ => .error e
  | .ok x :: xs => match allOk xs with
    | .ok r => .ok (x :: r)
    | .error e => .error e

/-! ## text level: s.u. stripping, float parsing, "%.4f", "%d" -/

/-- `re.sub(r"\(\d+\)", "", s)` as a one-pass scanner.  State `none`: outside a candidate group; `some buf`: a `(`
    followed by the digits `buf` has been read and is being held back.  A candidate that fails is flushed
    literally (the regex engine restarts one character later; the held-back digits cannot start a match). -/
def stripGo : Option (List Char) → List Char → List Char
  | none, [] => []
  | none, c :: cs => if c = '(' then stripGo (some []) cs else c :: stripGo none cs
  | some buf, [] => '(' :: buf
  | some buf, c :: cs =>
    if c.isDigit then stripGo (some (buf ++ [c])) cs
    else if c = ')' && !buf.isEmpty then stripGo none cs
    else if c = '(' then '(' :: (buf ++ stripGo (some []) cs)
    else '(' :: (buf ++ c :: stripGo none cs)

def stripSuL (s : List Char) : List Char := stripGo none s

/-- the string with every `(digits)` group removed -/
def stripSu (s : String) : String := String.ofList (stripSuL s.toList)

def digitsVal (l : List Char) : Nat := Nat.ofDigitChars 10 l 0
def allDigits (l : List Char) : Bool := l.all Char.isDigit

/-- leading sign: (negative?, rest) -/
def parseSign : List Char → Bool × List Char
  | '-' :: r => (true, r)
  | '+' :: r => (false, r)
  | l => (false, l)

/-- unsigned mantissa `ddd`, `ddd.ddd`, `.ddd`, `ddd.` ↦ (value of all digits, number of fractional digits) -/
def parseMant (l : List Char) : Option (Nat × Nat) :=
  let ip := l.takeWhile Char.isDigit
  match l.dropWhile Char.isDigit with
  | [] => if ip.isEmpty then none else some (digitsVal ip, 0)
  | c :: fp =>
    if c = '.' && allDigits fp && !(ip.isEmpty && fp.isEmpty) then some (digitsVal (ip ++ fp), fp.length)
    else none

def parseExp (l : List Char) : Option Int :=
  let (neg, d) := parseSign l
  if d.isEmpty || !allDigits d then none
  else some (if neg then -((digitsVal d : Nat) : Int) else ((digitsVal d : Nat) : Int))

def isE (c : Char) : Bool := c = 'e' || c = 'E'

def pow10 (e : Int) : Rat :=
  if e ≥ 0 then ((10 ^ e.toNat : Nat) : Rat) else 1 / ((10 ^ (-e).toNat : Nat) : Rat)

/-- python `float(s)` on the plain decimal grammar, as an exact rational -/
def parseFloatL (l : List Char) : Option Rat :=
  let (neg, r) := parseSign l
  match parseMant (r.takeWhile (fun c => !isE c)) with
  | none => none
  | some (v, k) =>
    let e? : Option Int := match r.dropWhile (fun c => !isE c) with
      | [] => some 0
      | _ :: d => parseExp d
    match e? with
    | none => none
    | some e =>
      let q : Rat := (v : Rat) / ((10 ^ k : Nat) : Rat) * pow10 e
      some (if neg then -q else q)

def parseFloat (s : String) : Option Rat := parseFloatL s.toList

/-- `tofloat` of load_p1_cif -/
def tofloat (s : String) : Option Rat := parseFloatL (stripSuL s.toList)

/-- nearest integer, ties to even, of a non-negative rational (what a correctly rounded `%.nf` does) -/
def roundHalfEven (y : Rat) : Nat :=
  let fl := y.floor.toNat
  let r := y - (fl : Rat)
  if r < 1 / 2 then fl else if 1 / 2 < r then fl + 1 else if fl % 2 = 0 then fl else fl + 1

/-- magnitude of `x` in units of 10⁻⁴ as `"%.4f"` prints it -/
def mag4 (x : Rat) : Nat := roundHalfEven ((if x < 0 then -x else x) * 10000)

/-- the printed number as a fixed-point integer in units of 10⁻⁴ -/
def fix4i (x : Rat) : Int := if x < 0 then -((mag4 x : Nat) : Int) else ((mag4 x : Nat) : Int)

/-- the printed number as a rational -/
def fix4 (x : Rat) : Rat := (fix4i x : Rat) / 10000

def pad4 (k : Nat) : List Char :=
  let d := Nat.toDigits 10 k
  List.replicate (4 - d.length) '0' ++ d

/-- `"%.4f" % x` (a negative number that rounds to zero prints as `-0.0000`, as in C) -/
def fmt4L (x : Rat) : List Char :=
  (if x < 0 then ['-'] else []) ++ Nat.toDigits 10 (mag4 x / 10000) ++ '.' :: pad4 (mag4 x % 10000)

def fmt4 (x : Rat) : String := String.ofList (fmt4L x)

/-- distance (in units of 10⁻⁴) of `x` from the nearest rounding boundary of `"%.4f"`: the decision slack of a
    printed coordinate (DESIGN.md §4) -/
def slack4 (x : Rat) : Rat :=
  let y := (if x < 0 then -x else x) * 10000
  let r := y - (y.floor : Rat)
  if r < 1 / 2 then 1 / 2 - r else r - 1 / 2

/-! ## labels -/

/-- `"%s%d" % (e, d[e])` with `d[e]` the running count of `e`; `pre` = the elements already seen -/
def labelsFrom (pre : List String) : List String → List String
  | [] => []
  | e :: es => (e ++ toString (pre.count e + 1)) :: labelsFrom (e :: pre) es

def labels (els : List String) : List String := labelsFrom [] els

/-- does the name end in an (ASCII) digit?  Element names that do can make labels collide: "C1"+"1" = "C"+"11". -/
def endsWithDigit (e : String) : Bool :=
  match e.toList.getLast? with
  | some c => c.isDigit
  | none => false

/-! ## the block -/

inductive Entry where
  | item (tag : String) (val : String)
  | loop (tags : List String) (rows : List (List String))
deriving DecidableEq, Repr, Inhabited

abbrev Block := List Entry

/-- what `block[tag]` returns -/
inductive Val where
  | single (s : String)
  | column (l : List String)
deriving DecidableEq, Repr

def Entry.tags : Entry → List String
  | .item t _ => [t]
  | .loop ts _ => ts

def Entry.get? (e : Entry) (tag : String) : Option Val :=
  match e with
  | .item t v => if t = tag then some (.single v) else none
  | .loop ts rows => (indexOf? ts tag).map (fun j => .column (rows.map (fun r => r.getD j "")))

def Block.tags (b : Block) : List String := b.flatMap Entry.tags
def Block.get? (b : Block) (tag : String) : Option Val := b.findSome? (·.get? tag)
def Block.has (b : Block) (tag : String) : Bool := (b.get? tag).isSome
def Block.hasAll (b : Block) (tags : List String) : Bool := tags.all b.has

def Block.col? (b : Block) (tag : String) : Option (List String) :=
  match b.get? tag with
  | some (.column l) => some l
  | _ => none

def Block.single? (b : Block) (tag : String) : Option String :=
  match b.get? tag with
  | some (.single s) => some s
  | _ => none

/-- `block.GetLoop(tag).keys()`: the tag list of the loop that contains `tag` (KeyError for an unlooped item) -/
def Block.loopTags? (b : Block) (tag : String) : Option (List String) :=
  b.findSome? (fun e => match e with
    | .loop ts _ => if ts.contains tag then some ts else none
    | .item _ _ => none)

/-! ### tags (lower case: PyCifRW's keys) -/

def hmTag := "_symmetry_space_group_name_h-m"
def numTag := "_symmetry_int_tables_number"
def cellTags : List String :=
  ["_cell_length_a", "_cell_length_b", "_cell_length_c", "_cell_angle_alpha", "_cell_angle_beta", "_cell_angle_gamma"]
def labelTag := "_atom_site_label"
def typeTag := "_atom_site_type_symbol"
def chargeTag := "_atom_site_charge"
def cartnTags : List String := ["_atom_site_cartn_x", "_atom_site_cartn_y", "_atom_site_cartn_z"]
def fractTags : List String := ["_atom_site_fract_x", "_atom_site_fract_y", "_atom_site_fract_z"]
/-- `all_handled_atom_tags` -/
def handledAtomTags : List String := cartnTags ++ [labelTag] ++ fractTags ++ [typeTag, chargeTag]
def bondTags : List String := ["_geom_bond_atom_site_label_1", "_geom_bond_atom_site_label_2"]
def angleTags : List String :=
  ["_geom_angle_atom_site_label_1", "_geom_angle_atom_site_label_2", "_geom_angle_atom_site_label_3"]
def torsionTags : List String :=
  ["_geom_torsion_atom_site_label_1", "_geom_torsion_atom_site_label_2", "_geom_torsion_atom_site_label_3",
   "_geom_torsion_atom_site_label_4"]

/-- PyCifRW lower-cases data names -/
def lc (s : String) : String := s.toLower

/-! ## writing (`save_p1_cif`) -/

structure CellPar where
  a : String
  b : String
  c : String
  alpha : String
  beta : String
  gamma : String
deriving DecidableEq, Repr, Inhabited

def CellPar.toList (p : CellPar) : List String := [p.a, p.b, p.c, p.alpha, p.beta, p.gamma]

/-- what the model does not compute when writing -/
structure Env where
  /-- `str(numpy.float64(q))` -/
  reprQ : Rat → String
  /-- the six cell items of a cell (lengths printed by PyCifRW, angles by `"%.4f"`) -/
  cellpar : Mat3 → CellPar

/-- element of an atom row: `atom_type_elements[atom_types[i]]` (the type id is checked by `saveCif`) -/
def elemOf (a : Atoms) (r : AtomRow) : String := a.typeElems.getD r.ty ""

/-- `self.elements` -/
def elementsOf (a : Atoms) : List String := a.atoms.map (elemOf a)

/-- constructor invariant `check_extra_fields`: every row is as wide as the label list of its kind -/
def widthsOk (a : Atoms) : Bool :=
  a.atoms.all (fun r => r.extra.length == a.xlabels.length)
  && a.bonds.terms.all (fun t => t.extra.length == a.bonds.xlabels.length)
  && a.angles.terms.all (fun t => t.extra.length == a.angles.xlabels.length)
  && a.dihedrals.terms.all (fun t => t.extra.length == a.dihedrals.xlabels.length)
  && a.impropers.terms.all (fun t => t.extra.length == a.impropers.xlabels.length)

/-- one row of a term loop: the labels of the term's atoms, then the extra columns given -/
def termRow (labs : List String) (arity : Nat) (atoms : List Nat) (extra : List String) : Except Err (List String) :=
  if atoms.length ≠ arity then .error .domain
  else match allSome (atoms.map (fun i => labs[i]?)) with
    | none => .error .index
    | some ls => .ok (ls ++ extra)

def coordRow (v : Vec3) : List String := [fmt4 v.x, fmt4 v.y, fmt4 v.z]

def headItems : Block := [.item hmTag "P 1", .item numTag "1"]

def cellItems (env : Env) (a : Atoms) : Block :=
  match a.cell with
  | none => []
  | some c => List.zipWith Entry.item cellTags (env.cellpar c).toList

/-- coordinate tags and the coordinate printed for a row.  Fractional output needs a cell (`WARNING … Using
    cartesian coordinates`); a singular cell makes `np.linalg.inv` raise (`none`). -/
def coordsFor (a : Atoms) (useFract : Bool) : Option (List String × (AtomRow → Vec3)) :=
  match useFract, a.cell with
  | true, some c => if c.det = 0 then none else some (fractTags, fun r => c.frac r.pos)
  | _, _ => some (cartnTags, fun r => r.pos)

def atomLoop (env : Env) (a : Atoms) (labs : List String) (ctags : List String) (coordOf : AtomRow → Vec3) : Entry :=
  .loop ([labelTag, typeTag] ++ ctags ++ [chargeTag] ++ a.xlabels.map lc)
    ((labs.zip a.atoms).map (fun (p : String × AtomRow) =>
      [p.1, elemOf a p.2] ++ coordRow (coordOf p.2) ++ [env.reprQ p.2.charge] ++ p.2.extra))

/-- one term kind: no loop when there are no terms -/
def termLoop (labs : List String) (tags : List String) (arity : Nat) (t : TermTable) : Except Err Block :=
  if t.terms.isEmpty then .ok []
  else match allOk (t.terms.map (fun x => termRow labs arity x.atoms x.extra)) with
    | .error e => .error e
    | .ok rows => .ok [.loop (tags ++ t.xlabels.map lc) rows]

/-- torsions: dihedrals followed by impropers under the DIHEDRAL extra labels; the extra columns passed are
    `extra_dihedral_fields.T`, which has one entry per dihedral only → with impropers present PyCifRW's
    `CreateLoop` raises ValueError (columns of different lengths).  The impropers' own extra columns are not written. -/
def torsionLoop (labs : List String) (a : Atoms) : Except Err Block :=
  if a.dihedrals.terms.isEmpty && a.impropers.terms.isEmpty then .ok []
  else if !a.impropers.terms.isEmpty && !a.dihedrals.xlabels.isEmpty then .error (.reject "looplength")
  else match allOk (a.dihedrals.terms.map (fun x => termRow labs 4 x.atoms x.extra)
                    ++ a.impropers.terms.map (fun x => termRow labs 4 x.atoms [])) with
    | .error e => .error e
    | .ok rows => .ok [.loop (torsionTags ++ a.dihedrals.xlabels.map lc) rows]

/-- `save_p1_cif(f, use_fract_coords=useFract)` up to the PyCifRW block it builds -/
def saveCif (env : Env) (a : Atoms) (useFract : Bool) : Except Err Block :=
  if a.atoms.isEmpty then .error .domain          -- `positions[:,0]` on an empty array
  else if !widthsOk a then .error .domain         -- the constructor would have raised
  else if a.atoms.any (fun r => r.ty ≥ a.typeElems.length) then .error .index   -- `atom_type_elements[i]`
  else
  let labs := labels (elementsOf a)
  match coordsFor a useFract with
  | none => .error .domain                        -- numpy LinAlgError: singular cell
  | some (ctags, coordOf) =>
  match termLoop labs bondTags 2 a.bonds with
  | .error e => .error e
  | .ok bondLoop =>
  match termLoop labs angleTags 3 a.angles with
  | .error e => .error e
  | .ok angleLoop =>
  match torsionLoop labs a with
  | .error e => .error e
  | .ok torsLoop =>
  let b : Block := headItems ++ cellItems env a ++ [atomLoop env a labs ctags coordOf] ++ bondLoop ++ angleLoop ++ torsLoop
  -- a data name used twice (an extra label equal to a handled tag or to another label) makes PyCifRW overwrite
  -- columns / move them between loops: outside the modelled domain
  if b.tags.Nodup' then .ok b else .error .domain

/-! ## reading (`load_p1_cif`) -/

structure LoadEnv where
  /-- `cellpar_to_cell` of the six numbers read from the six strings (after s.u. stripping); `none`: not numbers -/
  cellOf : List String → Option Mat3
  /-- `ATOMIC_MASSES[e]`; `none`: KeyError -/
  massOf : String → Option Rat

/-- the P1 check: the H-M item is present and its value is not one of the two accepted spellings -/
def rejectsP1 (b : Block) : Bool :=
  match b.get? hmTag with
  | none => false
  | some v => !(v == Val.single "P1" || v == Val.single "P 1")

/-- `atom_name.index(l)` for every label of a column tuple; ValueError ↦ none -/
def resolveRow (names : List String) (row : List String) : Option (List Nat) :=
  allSome (row.map (fun l => indexOf? names l))

/-- `n` rows out of columns (python `list(zip(*cols))`, checked against `n` by the constructor); no columns: `n`
    empty rows (the default `(n, 0)` array) -/
def rowsOf (n : Nat) (cols : List (List String)) : Option (List (List String)) :=
  if cols.all (fun c => c.length == n) then some ((List.range n).map (fun i => cols.map (fun c => c.getD i "")))
  else none

/-- length of the shortest column (python `zip(*cols)` yields that many tuples); no columns: 0 -/
def minLen : List (List String) → Nat
  | [] => 0
  | c :: cs => cs.foldl (fun m c => min m c.length) c.length

/-- one term kind: label columns → index tuples, placeholder types `range(len)`, extra tags = the keys of the loop
    that holds the first label tag minus the label tags, extra columns looked up in the block -/
def loadTerms (b : Block) (names : List String) (tags : List String) : Option TermTable :=
  if !b.hasAll tags then some TermTable.empty
  else do
    let cols ← allSome (tags.map b.col?)
    -- zip(*cols): as many tuples as the shortest column
    let m := minLen cols
    let tuples := (List.range m).map (fun i => cols.map (fun c => c.getD i ""))
    let idx ← allSome (tuples.map (resolveRow names))
    let ltags ← b.loopTags? (tags.headD "")
    let xtags := ltags.filter (fun t => !tags.contains t)
    let xcols ← allSome (xtags.map b.col?)
    let xrows ← rowsOf m xcols
    pure { terms := (idx.zip xrows).mapIdx (fun k (p : List Nat × List String) => ({ atoms := p.1, ty := k, extra := p.2 } : Term)),
           coeffs := [], xlabels := xtags }

def zip3 (x y z : List Rat) : Option (List Vec3) :=
  if x.length = y.length ∧ y.length = z.length then
    some ((x.zip (y.zip z)).map (fun (a, b, c) => (⟨a, b, c⟩ : Vec3)))
  else none

/-- which coordinate tags are used: Cartesian when all four Cartesian tags are present, else fractional when all
    four fractional tags are present.  Result: (fractional?, x, y, z tags) -/
def coordChoice (b : Block) : Option (Bool × List String) :=
  if b.hasAll (cartnTags ++ [labelTag]) then some (false, cartnTags)
  else if b.hasAll (fractTags ++ [labelTag]) then some (true, fractTags)
  else none

/-- raw coordinates as read (before the cell is applied) -/
def readCoords (b : Block) : Option (Bool × List Vec3) := do
  let (fr, ctags) ← coordChoice b
  let cols ← allSome (ctags.map b.col?)
  match cols with
  | [xs, ys, zs] =>
    let x ← allSome (xs.map tofloat)
    let y ← allSome (ys.map tofloat)
    let z ← allSome (zs.map tofloat)
    let p ← zip3 x y z
    pure (fr, p)
  | _ => none

/-- the cell of the file, if all six items are there -/
def readCell (lenv : LoadEnv) (b : Block) : Option (Option Mat3) :=
  if !b.hasAll cellTags then some none
  else do
    let vals ← allSome (cellTags.map b.single?)
    let c ← lenv.cellOf (vals.map stripSu)
    pure (some c)

def wrap3 (f : Vec3) : Vec3 := ⟨fracPart f.x, fracPart f.y, fracPart f.z⟩

/-- `if use_fract_coords: positions %= 1.0; positions = positions.dot(cell)` — only inside `if cell found` -/
def placePositions (fract : Bool) (cell : Option Mat3) (raw : List Vec3) : List Vec3 :=
  match fract, cell with
  | true, some c => raw.map (fun f => c.cart (wrap3 f))
  | _, _ => raw

/-- everything `load_p1_cif` reads besides the coordinates -/
structure Parts where
  names : List String
  els : List String
  charges : List Rat
  xtags : List String
  xrows : List (List String)
  bonds : TermTable
  angles : TermTable
  dihedrals : TermTable
  cell : Option Mat3
  typeElems : List String
  tys : List Nat
  masses : List Rat

/-- `n` = number of coordinate rows read -/
def loadParts (lenv : LoadEnv) (b : Block) (n : Nat) : Option Parts := do
  let names ← b.col? labelTag
  let els ← b.col? typeTag
  let charges ← (if b.has chargeTag then do
      let cs ← b.col? chargeTag
      allSome (cs.map tofloat)            -- `[tofloat(c) for c in block['_atom_site_charge']]`: s.u. stripped too
    else some (List.replicate n 0))
  let ltags ← b.loopTags? typeTag
  let xtags := ltags.filter (fun t => !handledAtomTags.contains t)
  let xcols ← allSome (xtags.map b.col?)
  let xrows ← rowsOf n xcols
  let bonds ← loadTerms b names bondTags
  let angles ← loadTerms b names angleTags
  let dihedrals ← loadTerms b names torsionTags
  let cell ← readCell lenv b
  -- Atoms(elements=…): types by first occurrence, masses from the table, labels = elements
  let typeElems := dedup els
  let tys ← allSome (els.map (indexOf? typeElems))
  let masses ← allSome (typeElems.map lenv.massOf)
  pure { names := names, els := els, charges := charges, xtags := xtags, xrows := xrows, bonds := bonds,
         angles := angles, dihedrals := dihedrals, cell := cell, typeElems := typeElems, tys := tys, masses := masses }

/-- the constructor: array lengths must agree (`assert_arrays_are_consistent_sizes`), then the fields are laid out -/
def assemble (fr : Bool) (raw : List Vec3) (p : Parts) : Option Atoms :=
  if raw.length = 0 ∨ p.tys.length ≠ raw.length ∨ p.charges.length ≠ raw.length ∨ p.xrows.length ≠ raw.length then none
  else
    let pos := placePositions fr p.cell raw
    some { atoms := (p.tys.zip (pos.zip (p.charges.zip p.xrows))).map (fun (t, q, c, x) =>
                      ({ ty := t, pos := q, charge := c, group := 0, extra := x } : AtomRow))
           bonds := p.bonds, angles := p.angles, dihedrals := p.dihedrals, impropers := TermTable.empty
           typeElems := p.typeElems, typeLabels := p.typeElems, typeMasses := p.masses
           pairCoeffs := [], xlabels := p.xtags, cell := p.cell }

/-- everything after the P1 check; `none` = some Python exception (KeyError, ValueError, TypeError, …) -/
def loadBody (lenv : LoadEnv) (b : Block) : Option Atoms :=
  match readCoords b with
  | none => none
  | some (fr, raw) =>
    match loadParts lenv b raw.length with
    | none => none
    | some p => assemble fr raw p

/-- `Atoms.load_p1_cif` on the block PyCifRW has read -/
def loadCif (lenv : LoadEnv) (b : Block) : Except Err Atoms :=
  if rejectsP1 b then .error (.reject "non-P1")
  else match loadBody lenv b with
    | some a => .ok a
    | none => .error .domain

/-! ## what a write followed by a read is supposed to give (specification side of `cif_roundtrip`) -/

def renumber (ts : List Term) : List Term := ts.mapIdx (fun k t => { t with ty := k })

/-- a term kind after the round trip: placeholder types, no coefficient table, lower-cased labels; a kind without
    terms is not written at all, so its label list is not kept either -/
def normTable (ts : List Term) (xl : List String) : TermTable :=
  if ts.isEmpty then TermTable.empty else { terms := renumber ts, coeffs := [], xlabels := xl.map lc }

/-- the structure `load_p1_cif(save_p1_cif(a))` should be: same atoms in order with types renumbered by first
    occurrence of the element, charges kept, printed coordinates (fractional ones wrapped and laid out in the
    re-read cell), term types replaced by placeholders, torsions = dihedrals ++ impropers, labels lower-cased -/
def normCif (env : Env) (lenv : LoadEnv) (a : Atoms) (useFract : Bool) : Atoms :=
  let typeElems := dedup (elementsOf a)
  let cell' : Option Mat3 := match a.cell with
    | none => none
    | some c => lenv.cellOf ((env.cellpar c).toList.map stripSu)
  let pos : AtomRow → Vec3 := fun r =>
    match useFract, a.cell, cell' with
    | true, some c, some c' =>
      let f := c.frac r.pos
      c'.cart (wrap3 ⟨fix4 f.x, fix4 f.y, fix4 f.z⟩)
    | _, _, _ => ⟨fix4 r.pos.x, fix4 r.pos.y, fix4 r.pos.z⟩
  { atoms := a.atoms.map (fun r =>
      ({ ty := (indexOf? typeElems (elemOf a r)).getD 0, pos := pos r, charge := r.charge, group := 0,
         extra := r.extra } : AtomRow))
    bonds := normTable a.bonds.terms a.bonds.xlabels
    angles := normTable a.angles.terms a.angles.xlabels
    -- torsions = dihedrals followed by impropers; the impropers' own extra columns are NOT written by the code
    dihedrals := normTable (a.dihedrals.terms ++ a.impropers.terms.map (fun t => { t with extra := [] })) a.dihedrals.xlabels
    impropers := TermTable.empty
    typeElems := typeElems, typeLabels := typeElems
    typeMasses := typeElems.map (fun e => (lenv.massOf e).getD 0)
    pairCoeffs := [], xlabels := a.xlabels.map lc, cell := cell' }

/-- no extra column may use a data name the reader gives a meaning to (it would be read as coordinates / labels / a
    term loop, or be dropped as "handled") -/
def reservedTags : List String :=
  [hmTag, numTag] ++ cellTags ++ handledAtomTags ++ bondTags ++ angleTags ++ torsionTags

def extraLabelsOk (a : Atoms) : Bool :=
  (a.xlabels ++ a.bonds.xlabels ++ a.angles.xlabels ++ a.dihedrals.xlabels).all (fun l => !reservedTags.contains (lc l))

end Mofun.Cif
