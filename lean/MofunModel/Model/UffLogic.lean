/-
  UffLogic.lean — the string-level decision logic of mofun/rough_uff.py (core Lean only, no Mathlib):
  `guess_bond_order`, the potential-style choice of `angle_params`, the case analysis of `dihedral_params`.

  Everything here is defined for ALL strings (not only table keys), exactly as the Python code reads them:

      el = s[0:2].strip('_')                 -- `el`
      h  = s[2] if len(s) > 2 else 0         -- `hyb` : `none` models the int 0 (which is in none of the
                                             --         character sets the code compares against)

  Python strings are sequences of code points; so is `String.toList`.
-/
import MofunModel.Model.Basic
import MofunModel.Generated.Uff

namespace Mofun.Uff

/-! ### reading a UFF type label -/

/-- python `l.strip('_')` on a list of characters: drop every leading and every trailing underscore -/
def stripU (l : List Char) : List Char :=
  ((l.dropWhile (· == '_')).reverse.dropWhile (· == '_')).reverse

/-- `s[0:2].strip('_')` -/
def el (s : String) : String := String.ofList (stripU (s.toList.take 2))

/-- `s[2] if len(s) > 2 else 0` — `none` is the integer 0 of the code -/
def hyb (s : String) : Option Char := s.toList[2]?

/-- `oxygen_group = {'O', 'S', 'Se', 'Te', 'Po'}` -/
def oxygenGroup : List String := ["O", "S", "Se", "Te", "Po"]

/-! ### guess_bond_order -/

/-- `{a1, a2} == rule_atom_types` where the rule's set is given as a list (set semantics: order and
    repetitions in the list are irrelevant) -/
def pairSetEq (a1 a2 : String) (r : List String) : Bool :=
  r.all (fun x => x == a1 || x == a2) && r.contains a1 && r.contains a2

/-- first user rule whose type set equals `{a1, a2}` -/
def ruleLookup (a1 a2 : String) : List (List String × Rat) → Option Rat
  | [] => none
  | (r, bo) :: rest => if pairSetEq a1 a2 r then some bo else ruleLookup a1 a2 rest

/-- types that force a single bond -/
def singleBondTypes : List String := ["H_", "F_", "Cl", "Br", "I_", "C_3", "N_3", "O_3"]
def doubleBondTypes : List String := ["C_2", "N_2", "O_2"]
def resonantBondTypes : List String := ["C_R", "N_R", "O_R"]

/-- the built-in part of `guess_bond_order` (no user rules) -/
def defaultBondOrder (a1 a2 : String) : Rat :=
  if singleBondTypes.contains a1 || singleBondTypes.contains a2 then 1        -- len({…} & {a1,a2}) > 0
  else if a1 == a2 && doubleBondTypes.contains a1 then 2                         -- len({a1,a2}) == 1 and ⊆ {C_2,N_2,O_2}
  else if a1 == a2 && resonantBondTypes.contains a1 then 3 / 2                   -- len({a1,a2}) == 1 and ⊆ {C_R,N_R,O_R}
  else 1

/-- `guess_bond_order(a1, a2, rules)`; `rules = []` also stands for `rules=None` -/
def guessBondOrder (a1 a2 : String) (rules : List (List String × Rat)) : Rat :=
  match ruleLookup a1 a2 rules with
  | some bo => bo
  | none => defaultBondOrder a1 a2

/-! ### angle style -/

inductive AngleStyle where
  /-- LAMMPS `cosine/periodic` with multiplicity `n` and sign `b` -/
  | cosinePeriodic (n : Nat) (b : Int)
  /-- LAMMPS `fourier` -/
  | fourier
deriving DecidableEq, Repr

/-- `a2_coord_is_4 = (a2[2] == "3") if len(a2) > 2 else False` -/
def coordIs4 (a2 : String) : Bool := hyb a2 == some '3'

/-- the `if theta0deg in [180., 120., 90.]` block; `theta0` is the table's exact decimal (float equality with
    180., 120., 90. coincides with rational equality for decimals of fewer than 16 digits) -/
def angleStyle (theta0 : Rat) (a2 : String) : AngleStyle :=
  if theta0 == 180 then .cosinePeriodic 1 1
  else if theta0 == 120 then .cosinePeriodic 3 (-1)
  else if theta0 == 90 && coordIs4 a2 then .cosinePeriodic 2 (-1)
  else if theta0 == 90 then .cosinePeriodic 4 1
  else .fourier

/-- column `k` of the table row of `a` as an exact rational (`UFF4MOF[a][k]`); `none` = KeyError/IndexError -/
def col (tbl : List (String × List Dec)) (a : String) (k : Nat) : Option Rat :=
  match lookup tbl a with
  | none => none
  | some row => row[k]?.map Dec.toRat

/-- the style `angle_params(a1, a2, a3)` selects (depends on the centre only); `none` = KeyError -/
def angleStyleOf (tbl : List (String × List Dec)) (_a1 a2 _a3 : String) : Option AngleStyle :=
  (col tbl a2 1).map (fun t => angleStyle t a2)

/-! ### torsion case analysis -/

/-- which branch of `dihedral_params` is taken -/
inductive TorsionCase where
  /-- both centres sp3: n = 3, d = 1, V = sqrt(V_j V_k) -/
  | sp3sp3
  /-- both centres sp3 and both from the oxygen column: n = 2, d = 1, V_x = 2 if x is oxygen else 6.8;
      `o1` : `el[1] == "O"`, `o2` : `el[2] == "O"` -/
  | sp3sp3Group6 (o1 o2 : Bool)
  /-- both centres sp2/resonant: n = 2, d = −1, V = 5 sqrt(U_j U_k)(1 + 4.18 ln BO) -/
  | sp2sp2
  /-- mixed, the sp2 centre is bonded to another sp2: n = 3, d = 1, V = 2 -/
  | mixedSp2Sp2
  /-- mixed, sp3 centre from the oxygen column and the other centre not: n = 2, d = 1, V as sp2sp2 -/
  | mixedOxygen
  /-- mixed, default: n = 6, d = −1, V = 1 -/
  | mixedDefault
  /-- `return None` (sp centre, or a centre that is not a main-group element) -/
  | undefined
  /-- `raise Exception("we don't know how to handle this dihedral…")` -/
  | unsupported
deriving DecidableEq, Repr

namespace TorsionCase

/-- the case seen from the other end of the torsion (only the group-6 flags are directional) -/
def reverse : TorsionCase → TorsionCase
  | sp3sp3Group6 o1 o2 => sp3sp3Group6 o2 o1
  | c => c

/-- coarse kind: defined / `None` / raise -/
inductive Kind where
  | defined | undefined | unsupported
deriving DecidableEq, Repr

def kind : TorsionCase → Kind
  | undefined => .undefined
  | unsupported => .unsupported
  | _ => .defined

/-- the LAMMPS dihedral style of every defined case -/
def style : TorsionCase → Option String
  | undefined | unsupported => none
  | _ => some "harmonic"

/-- periodicity `n` -/
def n : TorsionCase → Option Nat
  | sp3sp3 => some 3
  | sp3sp3Group6 _ _ => some 2
  | sp2sp2 => some 2
  | mixedSp2Sp2 => some 3
  | mixedOxygen => some 2
  | mixedDefault => some 6
  | undefined | unsupported => none

/-- sign `d` -/
def d : TorsionCase → Option Int
  | sp3sp3 => some 1
  | sp3sp3Group6 _ _ => some 1
  | sp2sp2 => some (-1)
  | mixedSp2Sp2 => some 1
  | mixedOxygen => some 1
  | mixedDefault => some (-1)
  | undefined | unsupported => none

end TorsionCase

/-- what the case analysis reads from one of the two CENTRE atoms -/
structure MidClass where
  /-- `h == '3'` -/
  is3 : Bool
  /-- `h in {'2', 'R'}` -/
  is2R : Bool
  /-- `h == '2'` -/
  is2 : Bool
  /-- `h == '1'` -/
  is1 : Bool
  /-- `el in oxygen_group` -/
  ox : Bool
  /-- `el == "O"` -/
  isO : Bool
  /-- `el in MAIN_GROUP_ELEMENTS` -/
  mg : Bool
deriving DecidableEq, Repr

def midClass (mainGroup : List String) (s : String) : MidClass :=
  { is3 := hyb s == some '3'
    is2R := hyb s == some '2' || hyb s == some 'R'
    is2 := hyb s == some '2'
    is1 := hyb s == some '1'
    ox := oxygenGroup.contains (el s)
    isO := el s == "O"
    mg := mainGroup.contains (el s) }

/-- what the case analysis reads from one of the two END atoms: `h == '2'` -/
def endClass (s : String) : Bool := hyb s == some '2'

/-! The conditions of the `if / elif` chain of `dihedral_params`, on the attributes it reads (`e0`, `e3`: the end
    atoms are sp2; `m1`, `m2`: the centre atoms).  Python's subset tests on two-element sets, literally:
    `{x,y} <= S` ⟺ `x ∈ S ∧ y ∈ S`; `'1' in {x,y}` ⟺ `x = '1' ∨ y = '1'`. -/

/-- `{h[1], h[2]} <= {'3'}` -/
def condSp3Sp3 (m1 m2 : MidClass) : Bool := m1.is3 && m2.is3
/-- `{el[1], el[2]} <= oxygen_group` -/
def condBothOxygenGroup (m1 m2 : MidClass) : Bool := m1.ox && m2.ox
/-- `{h[1], h[2]} <= {'2', 'R'}` -/
def condSp2Sp2 (m1 m2 : MidClass) : Bool := m1.is2R && m2.is2R
/-- `{h[1], h[2]} <= {'2', 'R', '3'}` -/
def condMixed (m1 m2 : MidClass) : Bool := (m1.is2R || m1.is3) && (m2.is2R || m2.is3)
/-- `{h[0], h[1]} <= {'2'} or {h[2], h[3]} <= {'2'}` -/
def condSp2Neighbour (e0 : Bool) (m1 m2 : MidClass) (e3 : Bool) : Bool := (e0 && m1.is2) || (m2.is2 && e3)
/-- `(h[1] == '3' and el[1] in oxygen_group and el[2] not in oxygen_group) or
     (h[2] == '3' and el[2] in oxygen_group and el[1] not in oxygen_group)` -/
def condSp3Oxygen (m1 m2 : MidClass) : Bool := (m1.is3 && m1.ox && !m2.ox) || (m2.is3 && m2.ox && !m1.ox)
/-- `'1' in {h[1], h[2]}` -/
def condSp (m1 m2 : MidClass) : Bool := m1.is1 || m2.is1
/-- `not {el[1], el[2]} <= set(MAIN_GROUP_ELEMENTS)` -/
def condNotMainGroup (m1 m2 : MidClass) : Bool := !(m1.mg && m2.mg)

/-- the `if / elif` chain of `dihedral_params` -/
def torsionOfClasses (e0 : Bool) (m1 m2 : MidClass) (e3 : Bool) : TorsionCase :=
  if condSp3Sp3 m1 m2 then
    if condBothOxygenGroup m1 m2 then .sp3sp3Group6 m1.isO m2.isO
    else .sp3sp3
  else if condSp2Sp2 m1 m2 then .sp2sp2
  else if condMixed m1 m2 then
    if condSp2Neighbour e0 m1 m2 e3 then .mixedSp2Sp2
    else if condSp3Oxygen m1 m2 then .mixedOxygen
    else .mixedDefault
  else if condSp m1 m2 then .undefined
  else if condNotMainGroup m1 m2 then .undefined
  else .unsupported

/-- the branch of `dihedral_params(a1, a2, a3, a4)` for arbitrary strings, relative to a main-group list -/
def torsionCaseWith (mainGroup : List String) (a1 a2 a3 a4 : String) : TorsionCase :=
  torsionOfClasses (endClass a1) (midClass mainGroup a2) (midClass mainGroup a3) (endClass a4)

/-- the branch of `dihedral_params(a1, a2, a3, a4)` with the repo's `MAIN_GROUP_ELEMENTS` -/
def torsionCase (a1 a2 a3 a4 : String) : TorsionCase :=
  torsionCaseWith Mofun.Generated.mainGroupElements a1 a2 a3 a4

end Mofun.Uff
