/-
  Topo.lean — the `Atoms` container and its index / type bookkeeping
  (mofun/atoms.py: __delitem__, _delete_and_reindex_atom_index_array, pop, num_*_types, extend_types,
   _extend_extra_fields, extend, replicate, __getitem__).

  The model follows the code step by step (same order of operations, same guards); what numpy does to
  arrays is done to lists.  Core Lean only.
-/
import MofunModel.Model.Basic

namespace Mofun

/-- one bond / angle / dihedral / improper -/
structure Term where
  atoms : List Nat
  ty : Nat
  extra : List String
deriving DecidableEq, Repr, Inhabited

/-- all terms of one kind + the coefficient table + the labels of the extra columns -/
structure TermTable where
  terms : List Term
  coeffs : List String
  xlabels : List String
deriving DecidableEq, Repr, Inhabited

structure AtomRow where
  ty : Nat
  pos : Vec3
  charge : Rat
  group : Int
  extra : List String
deriving DecidableEq, Repr, Inhabited

structure Atoms where
  atoms : List AtomRow
  bonds : TermTable
  angles : TermTable
  dihedrals : TermTable
  impropers : TermTable
  typeElems : List String
  typeLabels : List String
  typeMasses : List Rat
  pairCoeffs : List String
  xlabels : List String        -- labels of the per-atom extra columns
  cell : Option Mat3
deriving DecidableEq, Repr, Inhabited

def TermTable.empty : TermTable := ⟨[], [], []⟩

def Atoms.empty : Atoms :=
  ⟨[], TermTable.empty, TermTable.empty, TermTable.empty, TermTable.empty, [], [], [], [], [], none⟩

/-! ### type counts (`num_*_types`) -/

/-- `num_bond_types` etc.: table entries count even when unused; ids in use count even without a table -/
def numTermTypes (t : TermTable) : Nat :=
  if t.terms.isEmpty then t.coeffs.length
  else max t.coeffs.length (maxNat (t.terms.map (·.ty)) + 1)

def numAtomTypes (a : Atoms) : Nat := a.typeElems.length

/-! ### deletion (`__delitem__`) -/

/-- one pass of `np.subtract(arr, 1, out=arr, where=arr > i)` -/
def shiftAbove (i x : Nat) : Nat := if x > i then x - 1 else x

/-- the re-index loop: for every deleted index, highest first, entries above it drop by one -/
def reindex (sortedDesc : List Nat) (x : Nat) : Nat :=
  sortedDesc.foldl (fun x i => shiftAbove i x) x

/-- python `sorted(indices, reverse=True)` (insertion sort: structurally recursive, so the kernel can evaluate it) -/
def insertDesc (x : Nat) : List Nat → List Nat
  | [] => [x]
  | y :: ys => if x ≥ y then x :: y :: ys else y :: insertDesc x ys

def sortDesc (idx : List Nat) : List Nat := idx.foldr insertDesc []

/-- `_delete_and_reindex_atom_index_array` together with the parallel deletes on types / extra fields -/
def deleteTerms (ts : List Term) (idx : List Nat) : List Term :=
  let sd := sortDesc idx
  (ts.filter (fun t => !(t.atoms.any (fun a => idx.contains a)))).map
    (fun t => { t with atoms := t.atoms.map (reindex sd) })

def TermTable.delete (t : TermTable) (idx : List Nat) : TermTable :=
  { t with terms := deleteTerms t.terms idx }

/-- `del atoms[idx]` for a list of indices; numpy raises IndexError for an index outside the array -/
def Atoms.delete (a : Atoms) (idx : List Nat) : Except Err Atoms :=
  if idx.any (fun i => i ≥ a.atoms.length) then .error .index
  else .ok { a with
    atoms := deleteIdx a.atoms idx
    bonds := a.bonds.delete idx
    angles := a.angles.delete idx
    dihedrals := a.dihedrals.delete idx
    impropers := a.impropers.delete idx }

/-- `pop(pos)`: `del self[[pos % len(self)]]` (python `%`: result in `[0, len)`); `ZeroDivisionError` when empty -/
def Atoms.pop (a : Atoms) (pos : Int) : Except Err Atoms :=
  if a.atoms.isEmpty then .error .index
  else a.delete [(pos % (a.atoms.length : Int)).toNat]

/-! ### type tables (`extend_types`) -/

structure Offsets where
  atom : Nat
  bond : Nat
  angle : Nat
  dihedral : Nat
  improper : Nat
deriving DecidableEq, Repr, Inhabited

def Offsets.zero : Offsets := ⟨0, 0, 0, 0, 0⟩

def Atoms.offsets (a : Atoms) : Offsets :=
  ⟨numAtomTypes a, numTermTypes a.bonds, numTermTypes a.angles, numTermTypes a.dihedrals,
   numTermTypes a.impropers⟩

/-- appends `b`'s type-level tables to `a`'s; returns the ids at which `b`'s types now start -/
def Atoms.extendTypes (a b : Atoms) : Atoms × Offsets :=
  ({ a with
      typeElems := a.typeElems ++ b.typeElems
      typeMasses := a.typeMasses ++ b.typeMasses
      typeLabels := a.typeLabels ++ b.typeLabels
      pairCoeffs := a.pairCoeffs ++ b.pairCoeffs
      bonds := { a.bonds with coeffs := a.bonds.coeffs ++ b.bonds.coeffs }
      angles := { a.angles with coeffs := a.angles.coeffs ++ b.angles.coeffs }
      dihedrals := { a.dihedrals with coeffs := a.dihedrals.coeffs ++ b.dihedrals.coeffs }
      impropers := { a.impropers with coeffs := a.impropers.coeffs ++ b.impropers.coeffs } },
   a.offsets)

/-! ### extra columns (`_extend_extra_fields`) -/

/-- label union: self's labels first, then the other's new ones in their order (`OrderedSet |=`) -/
def mergeLabels (mine theirs : List String) : List String :=
  mine ++ (dedup theirs).filter (fun l => !mine.contains l)

/-- `_pad_fields`: a row of self widened to `w` columns with "." -/
def padRow (row : List String) (w : Nat) : List String :=
  row ++ List.replicate (w - row.length) "."

/-- `_match_fields`: a row of the other structure re-laid out under the merged labels -/
def matchRow (labels : List String) (otherLabels : List String) (row : List String) : List String :=
  labels.map (fun l => match indexOf? otherLabels l with
    | some j => row.getD j "."
    | none => ".")

/-! ### extension (`extend`) -/

/-- boolean `Nodup` -/
def _root_.List.Nodup' {α} [DecidableEq α] : List α → Bool
  | [] => true
  | x :: xs => !xs.contains x && Nodup' xs

/-- python dict lookup `structure_index_map.get` on an association list (last binding wins on
    duplicate keys, as `dict.update` / dict literals do) -/
def lookupLast (m : List (Nat × Nat)) (k : Nat) : Option Nat :=
  m.foldl (fun acc kv => if kv.1 = k then some kv.2 else acc) none

/-- `find_existing_topo`: positions in `old` whose atom tuple equals a new tuple forwards or reversed.
    Only membership matters (`np.delete` ignores order and repetition of the positions). -/
def existingIdx (old : List Term) (new : List (List Nat)) : List Nat :=
  (List.range old.length).filter (fun i =>
    match old[i]? with
    | some t => new.any (fun u => t.atoms = u) || new.any (fun u => t.atoms = u.reverse)
    | none => false)

/-- one term kind of `extend` -/
def TermTable.extendWith (mine other : TermTable) (off : Nat) (conv : Nat → Option Nat) :
    Except Err TermTable :=
  let labels := mergeLabels mine.xlabels other.xlabels
  let minePadded := mine.terms.map (fun t => { t with extra := padRow t.extra labels.length })
  if other.terms.isEmpty then
    .ok { mine with terms := minePadded, xlabels := labels }
  else
    -- np.vectorize(dict.get): a missing key gives None and the int array cannot hold it
    if other.terms.any (fun t => t.atoms.any (fun a => (conv a).isNone)) then .error .index
    else
      let newTerms := other.terms.map (fun t =>
        ({ atoms := t.atoms.map (fun a => (conv a).getD 0), ty := t.ty + off,
           extra := matchRow labels other.xlabels t.extra } : Term))
      let ex := existingIdx mine.terms (newTerms.map (·.atoms))
      .ok { mine with terms := deleteIdx (minePadded ++ newTerms) ex, xlabels := labels }

/-- `a.extend(b, offsets, structure_index_map)`; `off = none` is the default (types are merged) -/
def Atoms.extend (a b : Atoms) (off : Option Offsets) (map : List (Nat × Nat)) : Except Err Atoms :=
  let n := a.atoms.length
  let (a1, offs) := match off with
    | some o => (a, o)
    | none => a.extendTypes b
  let labels := mergeLabels a1.xlabels b.xlabels
  let w := labels.length
  let bx : List (List String) := b.atoms.map (fun r => matchRow labels b.xlabels r.extra)
  -- atoms of self: widened, then mapped ones adopt the other's type (+offset) and extra fields
  if !(map.map (·.1)).Nodup' then .error .domain
  else if map.any (fun kv => kv.1 ≥ b.atoms.length || kv.2 ≥ n) then .error .index
  else
    let padded := a1.atoms.map (fun r => { r with extra := padRow r.extra w })
    let anyFields : Bool := n * w > 0         -- `self.extra_atom_fields.size > 0`
    let updated := map.foldl (fun (rows : List AtomRow) kv =>
        match b.atoms[kv.1]?, rows[kv.2]? with
        | some br, some r =>
            rows.set kv.2 { r with ty := br.ty + offs.atom,
                                   extra := if anyFields then bx.getD kv.1 [] else r.extra }
        | _, _ => rows) padded
    let keys := map.map (·.1)
    let toAdd := (List.range b.atoms.length).filter (fun i => !keys.contains i)
    let added := toAdd.filterMap (fun i => match b.atoms[i]? with
        | some br => some { br with ty := br.ty + offs.atom, extra := bx.getD i [] }
        | none => none)
    -- structure_index_map2: appended atoms first, then the caller's map overrides
    let conv : Nat → Option Nat := fun k =>
      match lookupLast map k with
      | some v => some v
      | none => (indexOf? toAdd k).map (· + n)
    do
      let bonds ← a1.bonds.extendWith b.bonds offs.bond conv
      let angles ← a1.angles.extendWith b.angles offs.angle conv
      let dihedrals ← a1.dihedrals.extendWith b.dihedrals offs.dihedral conv
      let impropers ← a1.impropers.extendWith b.impropers offs.improper conv
      pure { a1 with
        atoms := updated ++ added
        xlabels := labels
        bonds := bonds, angles := angles, dihedrals := dihedrals, impropers := impropers }

/-! ### replication (`replicate`) -/

def Atoms.translate (a : Atoms) (d : Vec3) : Atoms :=
  { a with atoms := a.atoms.map (fun r => { r with pos := Vec3.add r.pos d }) }

/-- the image multipliers in the order numpy produces them
    (`np.array(np.meshgrid(range(a), range(b), range(c))).T.reshape(-1, 3)`): z slowest, then x, then y;
    (0,0,0) removed -/
def ucMults (da db dc : Nat) : List (Nat × Nat × Nat) :=
  ((List.range dc).flatMap (fun k => (List.range da).flatMap (fun i => (List.range db).map (fun j => (i, j, k))))).filter
    (fun m => m != (0, 0, 0))

def Atoms.replicate (a : Atoms) (da db dc : Nat) : Except Err Atoms :=
  match a.cell with
  | none => .error .nocell
  | some cell =>
    let step := fun (acc : Except Err Atoms) (m : Nat × Nat × Nat) =>
      match acc with
      | .error e => .error e
      | .ok r => r.extend (a.translate (cell.lattice m.1 m.2.1 m.2.2)) (some Offsets.zero) []
    match (ucMults da db dc).foldl step (.ok a) with
    | .error e => .error e
    | .ok r => .ok { r with cell := some (cell.scaleRows da db dc) }

/-! ### subset (`__getitem__`) -/

/-- atoms only: types, positions, charges, groups of the selected atoms + the atom type tables + cell -/
def Atoms.getitem (a : Atoms) (idx : List Nat) : Except Err Atoms :=
  if idx.isEmpty then .error .domain
  else if idx.any (fun i => i ≥ a.atoms.length) then .error .index
  else .ok { Atoms.empty with
    atoms := idx.filterMap (fun i => (a.atoms[i]?).map (fun r => { r with extra := [] }))
    typeElems := a.typeElems
    typeLabels := a.typeLabels
    typeMasses := a.typeMasses
    cell := a.cell }

end Mofun
