/-
  Lmp.lean — LAMMPS data files at LINE / TOKEN level
  (mofun/atoms.py: Atoms.save_lmpdat, Atoms.load_lmpdat, label_atoms, Atoms.load / Atoms.save;
   mofun/helpers.py: use_or_open).

  A `Line` is what the reader sees of one text line: `unprocessed_line.split('#', 1)`, `.strip()`, `.split()`.
  Numbers in the file are fixed-point integers at the printed precision (micro-units for `%10.6f`):
  the writer rounds a value to micro-units (`quantMicro`, round-half-even like C's printf), prints the
  integer with a decimal point (`showMicro`), and the reader reads it back exactly (`readMicro`).
  Character-level layout (field widths, number of blanks) is not modelled: it is covered by the
  correspondence run, which tokenises the real text into the same `Line` records.

  Core Lean only.
-/
import MofunModel.Model.Topo
import MofunModel.Model.Lattice

namespace Mofun.Lmp

/-! ## text primitives (on `List Char`) -/

/-- python `str.isspace` on ASCII: blank, `\t \n \v \f \r`, `\x1c … \x1f` -/
def isWs (c : Char) : Bool :=
  c.val == 32 || (9 ≤ c.val && c.val ≤ 13) || (28 ≤ c.val && c.val ≤ 31)

/-- python `str.split()` (no argument): maximal runs of non-blank characters; `cur` is the token being read -/
def splitWsGo : List Char → List Char → List (List Char)
  | [], cur => if cur.isEmpty then [] else [cur]
  | c :: cs, cur =>
    if isWs c then (if cur.isEmpty then splitWsGo cs [] else cur :: splitWsGo cs [])
    else splitWsGo cs (cur ++ [c])

def splitWs (l : List Char) : List (List Char) := splitWsGo l []

/-- python `str.rstrip()`: without the trailing blanks -/
def stripRight : List Char → List Char
  | [] => []
  | c :: cs =>
    match stripRight cs with
    | [] => if isWs c then [] else [c]
    | r => c :: r

/-- python `str.strip()` -/
def strip (l : List Char) : List Char := stripRight (l.dropWhile isWs)

/-- the text before the first `#`, and the text after it when there is one -/
def splitHash : List Char → List Char × Option (List Char)
  | [] => ([], none)
  | c :: cs => if c = '#' then ([], some cs) else ((c :: (splitHash cs).1), (splitHash cs).2)

/-- python `sep.join(parts)` -/
def joinWith (sep : List Char) : List (List Char) → List Char
  | [] => []
  | [x] => x
  | x :: y :: rest => x ++ sep ++ joinWith sep (y :: rest)

def joinS (sep : String) (parts : List String) : String :=
  String.ofList (joinWith sep.toList (parts.map String.toList))

def hasHash (s : String) : Bool := s.toList.any (· == '#')

/-- a string that would break the line structure of the file -/
def hasNewline (s : String) : Bool := s.toList.any (fun c => c == '\n' || c == '\r')

/-! ## lines -/

/-- one line as the reader sees it: blank-separated tokens of the part before the first `#`; the stripped text
    after the first `#` (`none` when the line has no `#`; further `#` belong to the comment) -/
structure Line where
  tokens : List String
  comment : Option String
deriving DecidableEq, Repr, Inhabited

def blank : Line := ⟨[], none⟩

/-- the reader's view of the text line made of `fields` (separated by blanks) followed by the text `rest` -/
def lineOf (fields : List String) (rest : String) : Line :=
  let p := splitHash rest.toList
  ⟨fields ++ (splitWs p.1).map String.ofList, p.2.map (fun c => String.ofList (strip c))⟩

/-! ## numbers as text -/

/-- `%d` of a natural number -/
def showNat (n : Nat) : String := String.ofList (Nat.toDigits 10 n)

/-- `%d` -/
def showInt (i : Int) : String :=
  if i < 0 then String.ofList ('-' :: Nat.toDigits 10 i.natAbs) else showNat i.toNat

/-- six digits, zero-padded on the left (for a number below 10⁶) -/
def pad6 (k : Nat) : List Char :=
  List.replicate (6 - (Nat.toDigits 10 k).length) '0' ++ Nat.toDigits 10 k

/-- `%.6f` of the fixed-point number `μ · 10⁻⁶` (field width / padding are layout, not modelled; the sign of a
    value that rounds to zero is not kept: `-0.000000` and `0.000000` are the same number) -/
def showMicro (μ : Int) : String :=
  String.ofList ((if μ < 0 then ['-'] else []) ++ Nat.toDigits 10 (μ.natAbs / 1000000)
    ++ '.' :: pad6 (μ.natAbs % 1000000))

def readDigits (l : List Char) : Option Nat :=
  if !l.isEmpty && l.all Char.isDigit then some (Nat.ofDigitChars 10 l 0) else none

/-- unsigned decimal `digits` or `digits.digits` with at most six decimals, in micro-units
    (the decimal forms the writer produces; other float syntaxes are outside the modelled domain) -/
def readUMicro (l : List Char) : Option Nat :=
  match readDigits (l.takeWhile (· != '.')) with
  | none => none
  | some i =>
    match l.dropWhile (· != '.') with
    | [] => some (i * 1000000)
    | _ :: fr =>
      if fr.length ≤ 6 && fr.all Char.isDigit then
        some (i * 1000000 + Nat.ofDigitChars 10 fr 0 * 10 ^ (6 - fr.length))
      else none

def signed (rd : List Char → Option Nat) (l : List Char) : Option Int :=
  match l with
  | '-' :: r => (rd r).map (fun (n : Nat) => -(Int.ofNat n))
  | '+' :: r => (rd r).map (fun (n : Nat) => Int.ofNat n)
  | r => (rd r).map (fun (n : Nat) => Int.ofNat n)

/-- python `float(token)`, in micro-units -/
def readMicro (s : String) : Option Int := signed readUMicro s.toList

/-- python `int(token)` -/
def readInt (s : String) : Option Int := signed readDigits s.toList

/-! ## printed precision -/

/-- `x` rounded to micro-units, ties to even (what `%.6f` does to the exact value of a double) -/
def quantMicro (x : Rat) : Int :=
  let y := x * 1000000
  let f := y.floor
  let r := y - (f : Rat)
  if r < 1 / 2 then f else if 1 / 2 < r then f + 1 else if f % 2 = 0 then f else f + 1

def ofMicro (μ : Int) : Rat := (μ : Rat) / 1000000

/-- a value as it is after one trip through the file -/
def quant (x : Rat) : Rat := ofMicro (quantMicro x)

def quantV (v : Vec3) : Vec3 := ⟨quant v.x, quant v.y, quant v.z⟩
def quantM (m : Mat3) : Mat3 := ⟨quantV m.a, quantV m.b, quantV m.c⟩

/-! ## sections -/

inductive Sec where
  | masses | pairCoeffs | bondCoeffs | angleCoeffs | dihedralCoeffs | improperCoeffs
  | atoms | bonds | angles | dihedrals | impropers
deriving DecidableEq, Repr, Inhabited

def Sec.name : Sec → List String
  | .masses => ["Masses"]
  | .pairCoeffs => ["Pair", "Coeffs"]
  | .bondCoeffs => ["Bond", "Coeffs"]
  | .angleCoeffs => ["Angle", "Coeffs"]
  | .dihedralCoeffs => ["Dihedral", "Coeffs"]
  | .improperCoeffs => ["Improper", "Coeffs"]
  | .atoms => ["Atoms"]
  | .bonds => ["Bonds"]
  | .angles => ["Angles"]
  | .dihedrals => ["Dihedrals"]
  | .impropers => ["Impropers"]

/-- `line in sections_handled`: the WHOLE stripped line is a section name (two-word names: joined by one blank) -/
def sectionOf (toks : List String) : Option Sec :=
  match toks with
  | [w] =>
    if w = "Masses" then some .masses else if w = "Atoms" then some .atoms
    else if w = "Bonds" then some .bonds else if w = "Angles" then some .angles
    else if w = "Dihedrals" then some .dihedrals else if w = "Impropers" then some .impropers else none
  | [w, c] =>
    if c = "Coeffs" then
      if w = "Pair" then some .pairCoeffs else if w = "Bond" then some .bondCoeffs
      else if w = "Angle" then some .angleCoeffs else if w = "Dihedral" then some .dihedralCoeffs
      else if w = "Improper" then some .improperCoeffs else none
    else none
  | _ => none

inductive Style where
  | atomic | full
deriving DecidableEq, Repr, Inhabited

/-! ## the writer (`save_lmpdat`) -/

/-- `f i x` for the elements of a list, numbered from `i` -/
def numbered {α β} (f : Nat → α → β) : Nat → List α → List β
  | _, [] => []
  | i, x :: xs => f i x :: numbered f (i + 1) xs

/-- `label_atoms(ty)` -/
def typeLabel (a : Atoms) (ty : Nat) : String := a.typeLabels.getD ty ""

/-- `label_atoms(tup, atom_indices=True)` -/
def atomsLabel (a : Atoms) (idx : List Nat) : String :=
  joinS " " (idx.map (fun i => typeLabel a ((a.atoms[i]?.map (·.ty)).getD 0)))

def countLine (n : Nat) (kw : List String) : Line := ⟨showNat n :: kw, none⟩

/-- the `N xxx types` line is written only for a positive count -/
def typeCountLine (n : Nat) (kw : List String) : List Line := if n > 0 then [countLine n kw] else []

def boxLine (hi : Rat) (k1 k2 : String) : Line := ⟨[showMicro 0, showMicro (quantMicro hi), k1, k2], none⟩

def tiltLine (m : Mat3) : Line :=
  ⟨[showMicro (quantMicro m.b.x), showMicro (quantMicro m.c.x), showMicro (quantMicro m.c.y), "xy", "xz", "yz"], none⟩

def cellLines : Option Mat3 → List Line
  | none => []
  | some m =>
    [boxLine m.a.x "xlo" "xhi", boxLine m.b.y "ylo" "yhi", boxLine m.c.z "zlo" "zhi"]
      ++ (if m.isOrtho then [] else [tiltLine m])

/-- a section: blank line, its name, blank line, its rows -/
def block (sec : Sec) (rows : List Line) : List Line := blank :: ⟨sec.name, none⟩ :: blank :: rows

/-- sections that are written only when they have rows -/
def optBlock (sec : Sec) (rows : List Line) : List Line := if rows.isEmpty then [] else block sec rows

def massLine (a : Atoms) (i : Nat) (m : Rat) : Line :=
  lineOf [showNat (i + 1), showMicro (quantMicro m)] ("   # " ++ typeLabel a i)

/-- ` %d %s`: the coefficient string is printed verbatim after the id -/
def coeffLine (i : Nat) (s : String) : Line := lineOf [showNat (i + 1)] (" " ++ s)

def coeffLines (tbl : List String) : List Line := numbered coeffLine 0 tbl

def atomLine (a : Atoms) (st : Style) (i : Nat) (r : AtomRow) : Line :=
  let xyz := [showMicro (quantMicro r.pos.x), showMicro (quantMicro r.pos.y), showMicro (quantMicro r.pos.z)]
  match st with
  | .atomic => lineOf (showNat (i + 1) :: showNat (r.ty + 1) :: xyz) ("   # " ++ typeLabel a r.ty)
  | .full =>
    lineOf (showNat (i + 1) :: showInt (r.group + 1) :: showNat (r.ty + 1) :: showMicro (quantMicro r.charge) :: xyz)
      ("   # " ++ typeLabel a r.ty)

def termLine (a : Atoms) (i : Nat) (t : Term) : Line :=
  lineOf (showNat (i + 1) :: showNat (t.ty + 1) :: t.atoms.map (fun x => showNat (x + 1)))
    ("   # " ++ atomsLabel a t.atoms)

def termLines (a : Atoms) (ts : List Term) : List Line := numbered (termLine a) 0 ts

/-- the file written with the default `file_comment=""` -/
def saveLines (a : Atoms) (st : Style) : List Line :=
  [⟨["(written", "by", "mofun)"], none⟩, blank,
   countLine a.atoms.length ["atoms"], countLine a.bonds.terms.length ["bonds"],
   countLine a.angles.terms.length ["angles"], countLine a.dihedrals.terms.length ["dihedrals"],
   countLine a.impropers.terms.length ["impropers"], blank]
  ++ typeCountLine (numAtomTypes a) ["atom", "types"]
  ++ typeCountLine (numTermTypes a.bonds) ["bond", "types"]
  ++ typeCountLine (numTermTypes a.angles) ["angle", "types"]
  ++ typeCountLine (numTermTypes a.dihedrals) ["dihedral", "types"]
  ++ typeCountLine (numTermTypes a.impropers) ["improper", "types"]
  ++ cellLines a.cell
  ++ block .masses (numbered (massLine a) 0 a.typeMasses)
  ++ optBlock .pairCoeffs (coeffLines a.pairCoeffs)
  ++ optBlock .bondCoeffs (coeffLines a.bonds.coeffs)
  ++ optBlock .angleCoeffs (coeffLines a.angles.coeffs)
  ++ optBlock .dihedralCoeffs (coeffLines a.dihedrals.coeffs)
  ++ optBlock .improperCoeffs (coeffLines a.impropers.coeffs)
  ++ block .atoms (numbered (atomLine a st) 0 a.atoms)
  ++ optBlock .bonds (termLines a a.bonds.terms)
  ++ optBlock .angles (termLines a a.angles.terms)
  ++ optBlock .dihedrals (termLines a a.dihedrals.terms)
  ++ optBlock .impropers (termLines a a.impropers.terms)

def termsInRange (n : Nat) (t : TermTable) : Bool := t.terms.all (fun t => t.atoms.all (· < n))

/-- every tuple of the (n, k) integer array has k entries -/
def arityOk (k : Nat) (t : TermTable) : Bool := t.terms.all (fun t => t.atoms.length == k)

/-- every string the writer prints: labels and coefficient strings -/
def allStrings (a : Atoms) : List String :=
  a.typeLabels ++ a.pairCoeffs ++ a.bonds.coeffs ++ a.angles.coeffs ++ a.dihedrals.coeffs ++ a.impropers.coeffs

/-- a tilted cell is written only if its first vector is along x and its second in the xy plane -/
def cellRejected : Option Mat3 → Bool
  | some m => !m.isOrtho && (m.a.y != 0 || m.a.z != 0 || m.b.z != 0)
  | none => false

/-- the exception the writer raises, if any (in the order the code reaches them) -/
def saveCheck (a : Atoms) : Option Err :=
  if (allStrings a).any hasNewline then some .domain      -- would change the line structure: not modelled
  else if !(arityOk 2 a.bonds && arityOk 3 a.angles && arityOk 4 a.dihedrals && arityOk 4 a.impropers) then
    some .domain                                            -- not (n, k) arrays: not modelled
  else if cellRejected a.cell then some (.reject "triclinic")
  else if a.typeLabels.length < a.typeMasses.length then some .index           -- label_atoms(i)
  else if a.atoms.any (fun r => r.ty ≥ a.typeLabels.length) then some .index   -- label_atoms(atom_types[i])
  else if !(termsInRange a.atoms.length a.bonds && termsInRange a.atoms.length a.angles
      && termsInRange a.atoms.length a.dihedrals && termsInRange a.atoms.length a.impropers) then some .index
  else none

/-- `save_lmpdat(f, atom_format=st)` -/
def saveLmp (a : Atoms) (st : Style) : Except Err (List Line) :=
  match saveCheck a with
  | some e => .error e
  | none => .ok (saveLines a st)

/-! ## the reader (`load_lmpdat`): the state machine over lines -/

/-- what the loop accumulates -/
structure PData where
  masses : List (Int × String × Option String) := []    -- (int(tup[0]), tup[1], comment) per Masses line
  pair : List String := []
  bond : List String := []
  angle : List String := []
  dihedral : List String := []
  improper : List String := []
  atoms : List (List String) := []
  bonds : List (List String) := []
  angles : List (List String) := []
  dihedrals : List (List String) := []
  impropers : List (List String) := []
  cellx : Int := 0                  -- micro-units
  celly : Int := 0
  cellz : Int := 0
  xy : Int := 0
  xz : Int := 0
  yz : Int := 0
deriving Repr, Inhabited, DecidableEq

structure PState where
  cur : Option Sec := none          -- current_section
  start : Bool := false             -- start_section
  d : PData := {}
deriving Repr, Inhabited, DecidableEq

/-- `"   # " + comment`, or nothing -/
def commentString : Option String → String
  | some c => "   # " ++ c
  | none => ""

/-- `"%s%s" % (sep.join(tup[1:]), comment_string)` -/
def coeffOf (sep : String) (l : Line) : String := joinS sep (l.tokens.drop 1) ++ commentString l.comment

/-- `"xlo xhi" in line` at token level: the keyword's words are consecutive tokens -/
def hasInfix (kw : List String) : List String → Bool
  | [] => kw.isEmpty
  | t :: ts => kw.isPrefixOf (t :: ts) || hasInfix kw ts

/-- `float(tup[1]) - float(tup[0])` -/
def readLoHi (toks : List String) : Except Err Int :=
  match toks with
  | lo :: hi :: _ =>
    match readMicro hi, readMicro lo with
    | some h, some l => .ok (h - l)
    | _, _ => .error (.reject "value")
  | _ => .error .index

/-- one data line of a section -/
def push (sec : Sec) (s : PData) (l : Line) : Except Err PData :=
  match sec with
  | .masses =>
    -- `masses.append((int(tup[0]), tup[1], comment))`
    match l.tokens with
    | i :: rest =>
      match readInt i with
      | none => .error (.reject "value")
      | some k =>
        match rest with
        | m :: _ => .ok { s with masses := s.masses ++ [(k, m, l.comment)] }
        | [] => .error .index
    | [] => .error .index
  | .pairCoeffs => .ok { s with pair := s.pair ++ [coeffOf " " l] }
  | .bondCoeffs => .ok { s with bond := s.bond ++ [coeffOf " " l] }
  | .angleCoeffs => .ok { s with angle := s.angle ++ [coeffOf "  " l] }
  | .dihedralCoeffs => .ok { s with dihedral := s.dihedral ++ [coeffOf " " l] }
  | .improperCoeffs => .ok { s with improper := s.improper ++ [coeffOf " " l] }
  | .atoms => .ok { s with atoms := s.atoms ++ [l.tokens] }
  | .bonds => .ok { s with bonds := s.bonds ++ [l.tokens] }
  | .angles => .ok { s with angles := s.angles ++ [l.tokens] }
  | .dihedrals => .ok { s with dihedrals := s.dihedrals ++ [l.tokens] }
  | .impropers => .ok { s with impropers := s.impropers ++ [l.tokens] }

/-- a non-blank line while no section is active: only the box / tilt keyword lines mean something -/
def header (s : PData) (l : Line) : Except Err PData :=
  if hasInfix ["xlo", "xhi"] l.tokens then
    match readLoHi l.tokens with
    | .ok d => .ok { s with cellx := d }
    | .error e => .error e
  else if hasInfix ["ylo", "yhi"] l.tokens then
    match readLoHi l.tokens with
    | .ok d => .ok { s with celly := d }
    | .error e => .error e
  else if hasInfix ["zlo", "zhi"] l.tokens then
    match readLoHi l.tokens with
    | .ok d => .ok { s with cellz := d }
    | .error e => .error e
  else if hasInfix ["xy", "xz", "yz"] l.tokens then
    match (l.tokens.take 3).map readMicro with
    | [some a, some b, some c] => .ok { s with xy := a, xz := b, yz := c }
    | _ => .error (.reject "value")
  else .ok s

/-- the body of `for unprocessed_line in f`.  The comment is the text after the FIRST `#`
    (`unprocessed_line.split('#', 1)`), so further `#` are part of the comment. -/
def step (s : PState) (l : Line) : Except Err PState :=
  match sectionOf l.tokens with
  | some sec => .ok { s with cur := some sec, start := true }
  | none =>
    if l.tokens.isEmpty then
      -- a blank line right after a section name does not end the section; the next one does
      .ok { s with cur := if s.start then s.cur else none, start := false }
    else
      match (match s.cur with
        | some sec => push sec s.d l
        | none => header s.d l) with
      | .ok d => .ok { s with d := d }
      | .error e => .error e

def run : PState → List Line → Except Err PState
  | s, [] => .ok s
  | s, l :: ls =>
    match step s l with
    | .ok s' => run s' ls
    | .error e => .error e

/-! ### after the loop: arrays, 0-based ids, cell, elements, labels -/

def mapOpt {α β} (f : α → Option β) : List α → Option (List β)
  | [] => some []
  | x :: xs =>
    match f x, mapOpt f xs with
    | some y, some ys => some (y :: ys)
    | _, _ => none

def mapExc {α β} (f : α → Except Err β) : List α → Except Err (List β)
  | [] => .ok []
  | x :: xs =>
    match f x with
    | .error e => .error e
    | .ok y =>
      match mapExc f xs with
      | .error e => .error e
      | .ok ys => .ok (y :: ys)

/-- `np.array(rows, dtype=…)`: every token must parse and the rows must have one length -/
def readTable (rd : String → Option Int) (rows : List (List String)) : Except Err (List (List Int)) :=
  match mapOpt (mapOpt rd) rows with
  | none => .error (.reject "value")
  | some t =>
    match t with
    | [] => .ok []
    | r :: rest => if rest.all (fun r' => r'.length == r.length) then .ok t else .error (.reject "value")

/-- `int(x - 1)` of a float in micro-units (truncation towards zero) -/
def idMinusOne (μ : Int) : Int := Int.tdiv (μ - 1000000) 1000000

def natOf (i : Int) : Except Err Nat := if i < 0 then .error .domain else .ok i.toNat

/-- one row of the float table → an atom -/
def atomOfRow (st : Style) (r : List Int) : Except Err AtomRow :=
  match st, r with
  | .atomic, _ :: ty :: x :: y :: z :: _ => do
    let ty ← natOf (idMinusOne ty)
    pure ⟨ty, ⟨ofMicro x, ofMicro y, ofMicro z⟩, 0, 0, []⟩
  | .full, _ :: g :: ty :: q :: x :: y :: z :: _ => do
    let ty ← natOf (idMinusOne ty)
    pure ⟨ty, ⟨ofMicro x, ofMicro y, ofMicro z⟩, ofMicro q, idMinusOne g, []⟩
  | .atomic, _ :: _ :: _ => .error .domain     -- fewer than three coordinate columns
  | .full, _ :: _ :: _ :: _ :: _ => .error .domain
  | _, _ => .error .index                      -- `atoms[:, k]` outside the table

/-- `get_types_tups`: `types = arr[:, 1] - 1`, `tups = arr[:, 2:] - 1` -/
def termOfRow (r : List Int) : Except Err Term :=
  match r with
  | _ :: ty :: rest => do
    let ty ← natOf (ty - 1)
    let ids ← mapExc (fun x => natOf (x - 1)) rest
    pure ⟨ids, ty, []⟩
  | _ => .error .index

def termsOf (rows : List (List String)) : Except Err (List (List Int)) := readTable readInt rows

/-- cell reconstruction from the lengths and tilt factors (micro-units) -/
def cellOf (s : PData) : Option Mat3 :=
  if s.cellx > 0 && s.celly > 0 && s.cellz > 0 then
    if s.xy != 0 || s.xz != 0 || s.yz != 0 then
      some ⟨⟨ofMicro s.cellx, 0, 0⟩, ⟨ofMicro s.xy, ofMicro s.celly, 0⟩, ⟨ofMicro s.xz, ofMicro s.yz, ofMicro s.cellz⟩⟩
    else
      some ⟨⟨ofMicro s.cellx, 0, 0⟩, ⟨0, ofMicro s.celly, 0⟩, ⟨0, 0, ofMicro s.cellz⟩⟩
  else none

/-- `x` put into a list that is ascending by id, before the first entry whose id is not smaller -/
def insertById {β} (x : Int × β) : List (Int × β) → List (Int × β)
  | [] => [x]
  | y :: ys => if x.1 ≤ y.1 then x :: y :: ys else y :: insertById x ys

/-- `masses.sort(key=lambda m: m[0])`: ascending by type id, entries with equal ids keep their order (stable) -/
def sortById {β} (l : List (Int × β)) : List (Int × β) := l.foldr insertById []

/-- element names: the guess when it succeeds, else the type numbers for ALL types -/
def elementsOf (guess : List Rat → Option (List String)) (masses : List Rat) : List String :=
  match guess masses with
  | some e => e
  | none => (List.range masses.length).map (fun i => showNat (i + 1))

/-- type labels: the Masses comments iff every Masses line has one, else the element names -/
def labelsOf (comments : List (Option String)) (elements : List String) : List String :=
  if comments.all Option.isSome then comments.map (fun c => c.getD "") else elements

/-- everything `load_lmpdat` does after the loop.  `guess` is `guess_elements_from_masses` (property C14):
    `none` when it raises. -/
def finish (guess : List Rat → Option (List String)) (s : PData) (st : Style) : Except Err Atoms := do
  -- every Masses line binds its mass and its label to its type id, whatever the order of the lines
  let byId := sortById s.masses
  let masses ← match mapOpt (fun m => readMicro m.2.1) byId with
    | some m => pure (m.map ofMicro)
    | none => throw (.reject "value")
  let atomTable ← readTable readMicro s.atoms
  let bonds ← termsOf s.bonds
  let angles ← termsOf s.angles
  let dihedrals ← termsOf s.dihedrals
  let impropers ← termsOf s.impropers
  -- a file without atoms gives an empty (0 × 7) table: no atoms, the type tables are kept
  let atoms ← mapExc (atomOfRow st) atomTable
  let elements := elementsOf guess masses
  let labels := labelsOf (byId.map (·.2.2)) elements
  let bonds ← mapExc termOfRow bonds
  let angles ← mapExc termOfRow angles
  let dihedrals ← mapExc termOfRow dihedrals
  let impropers ← mapExc termOfRow impropers
  pure {
    atoms := atoms
    bonds := ⟨bonds, s.bond, []⟩
    angles := ⟨angles, s.angle, []⟩
    dihedrals := ⟨dihedrals, s.dihedral, []⟩
    impropers := ⟨impropers, s.improper, []⟩
    typeElems := elements
    typeLabels := labels
    typeMasses := masses
    pairCoeffs := s.pair
    xlabels := []
    cell := cellOf s }

/-- `load_lmpdat(f, atom_format=st)` on the lines of `f` -/
def loadLmp (guess : List Rat → Option (List String)) (lines : List Line) (st : Style) : Except Err Atoms :=
  match run {} lines with
  | .ok s => finish guess s.d st
  | .error e => .error e

/-! ## what one trip through a file does to a structure -/

/-- a coefficient string after one trip: tokens joined by `sep`, `"   # "` before the comment -/
def normCoeff (sep : String) (s : String) : String :=
  let l := lineOf [] (" " ++ s)
  joinS sep l.tokens ++ commentString l.comment

def normTerms (t : TermTable) (sep : String) : TermTable :=
  ⟨t.terms.map (fun t => { t with extra := [] }), t.coeffs.map (normCoeff sep), []⟩

/-- the structure that comes back: numbers at the printed precision, coefficient whitespace normalised,
    elements derived from the masses, extra columns (which the format does not store) dropped; for the atomic
    style charges and groups are zero -/
def norm (guess : List Rat → Option (List String)) (st : Style) (a : Atoms) : Atoms :=
  let masses := a.typeMasses.map quant
  { atoms := a.atoms.map (fun r =>
      match st with
      | .full => ⟨r.ty, quantV r.pos, quant r.charge, r.group, []⟩
      | .atomic => ⟨r.ty, quantV r.pos, 0, 0, []⟩)
    bonds := normTerms a.bonds " "
    angles := normTerms a.angles "  "
    dihedrals := normTerms a.dihedrals " "
    impropers := normTerms a.impropers " "
    typeElems := elementsOf guess masses
    typeLabels := a.typeLabels
    typeMasses := masses
    pairCoeffs := a.pairCoeffs.map (normCoeff " ")
    xlabels := []
    cell := a.cell.map quantM }

/-! ## `Atoms.load` / `Atoms.save`: which reader / writer a call reaches -/

inductive Target where
  | fileObj                      -- an open text file (`io.TextIOBase`)
  | path (ext : String)          -- anything else; `ext` = `os.path.splitext(path)[1][1:]`
deriving DecidableEq, Repr

/-- the file type used: the explicit one, else the extension; a file object needs an explicit type -/
def resolveType (t : Target) (filetype : Option String) : Except Err String :=
  match t, filetype with
  | _, some ft => .ok ft
  | .fileObj, none => .error (.reject "filetype")
  | .path ext, none => .ok ext

/-- `Atoms.load` reaches `load_lmpdat` exactly for type "lmpdat" (others: cml, cif, or an exception) -/
def loadsLmp (t : Target) (filetype : Option String) : Except Err Bool :=
  match resolveType t filetype with
  | .error e => .error e
  | .ok ft => if ft = "lmpdat" then .ok true else if ft = "cml" || ft = "cif" then .ok false
              else .error (.reject "filetype")

def savesLmp (t : Target) (filetype : Option String) : Except Err Bool :=
  match resolveType t filetype with
  | .error e => .error e
  | .ok ft => if ft = "lmpdat" then .ok true else if ft = "mol" || ft = "cif" then .ok false
              else .error (.reject "filetype")

end Mofun.Lmp
