/-
  Cli.lean — model of the command line entry point `mofun/cli/mofun_cli.py : mofun_cli` (property C20).
  Core Lean only.

  The entry point is pure wiring: it turns the click options into a fixed sequence of library calls.  The model is
  `plan : Options → Option CellInfo → Except Err (List Call)`: the list of abstract API calls, with their arguments,
  that the function makes from top to bottom.  What the calls themselves do is the subject of other properties
  (load/save C13–C16, replicate C12, find C01–C03, replace C04–C08); here only *which* calls, *in which order*, with
  *which arguments*.

  The only arithmetic in the function is the replication that enforces the minimum-image convention:
  `np.maximum(1, np.ceil(2*mic / np.diag(atoms.cell)))`, exact here over `Rat` (`Rat.ceil`).  It needs the cell of the structure
  as loaded (after an `--extract-uc` override): that is the second argument of `plan`.
-/
import MofunModel.Model.Basic

namespace Mofun.Cli

/-! ## suffix dispatch (`pathlib.PurePath.suffix`) -/

/-- the last path component: the characters after the last `/` -/
def baseName : List Char → List Char
  | [] => []
  | c :: rest => if rest.contains '/' then baseName rest else if c = '/' then rest else c :: rest

/-- position of the last `.` of a name, counted from the left -/
def lastDot (l : List Char) (i : Nat) (acc : Option Nat) : Option Nat :=
  match l with
  | [] => acc
  | c :: rest => lastDot rest (i + 1) (if c = '.' then some i else acc)

/-- `pathlib` suffix of the last path component: the text from the last `.` on, when that dot is neither the
    first nor the last character of the name; otherwise empty.  (On lists of characters.) -/
def suffixChars (path : List Char) : List Char :=
  let name := baseName path
  match lastDot name 0 none with
  | none => []
  | some i => if 0 < i ∧ i + 1 < name.length then name.drop i else []

def suffixOf (path : String) : String := String.ofList (suffixChars path.toList)

/-- `inputpath.suffix in ['.lmpdat', '.cml', '.cif']` -/
def inputIsNative (path : String) : Bool := [".lmpdat", ".cml", ".cif"].contains (suffixOf path)

/-- `outputpath.suffix in ['.lmpdat', '.mol', '.cif']` -/
def outputIsNative (path : String) : Bool := [".lmpdat", ".mol", ".cif"].contains (suffixOf path)

/-! ## options and calls -/

/-- the three optional pattern indices `-ap1 / -ap2 / -op` -/
structure Hints where
  axisp1 : Option Int
  axisp2 : Option Int
  opoint : Option Int
deriving DecidableEq, Repr, Inhabited

/-- the click options of `mofun_cli`, after parsing.  `inputNative` / `outputNative` are the suffix classes of the
    two positional paths (`true` = handled by `Atoms.load` / `Atoms.save`, `false` = handed to ASE). -/
structure Options where
  input : String
  inputNative : Bool
  output : String
  outputNative : Bool
  findPath : Option String := none
  replacePath : Option String := none
  replaceFraction : Rat := 1
  atol : Rat := 1 / 20
  hints : Hints := ⟨none, none, none⟩
  dumpPath : Option String := none
  extractUc : Option String := none
  chargefile : Option String := none
  replicate : Option (Nat × Nat × Nat) := none
  mic : Option Rat := none
  frameworkElement : Option String := none
  pp : Bool := false
deriving DecidableEq, Repr, Inhabited

/-- one library call made by the entry point, with the arguments that come from the options -/
inductive Call where
  | load (path : String)                       -- `Atoms.load(inputpath)`
  | loadAse (path : String)                    -- `Atoms.from_ase_atoms(ase.io.read(inputpath))`
  | setCellFrom (path : String)                -- `atoms.cell = Atoms.load(extract_uc_path).cell`
  | setPositionsFromDump (path : String)       -- `atoms.positions = ase.io.read(dumppath, …).positions`
  | setCharges (file : String)                 -- `atoms.charges = <numbers in chargefile>`
  | replicate (dims : Nat × Nat × Nat)         -- `atoms = atoms.replicate(replicate)`
  | micReplicate (dims : Int × Int × Int)      -- `atoms = atoms.replicate(ceil(2 mic / diag cell))`
  | micSkippedNotOrtho                         -- the warning branch: nothing is replicated
  | assignPair                                 -- `assign_pair_params_to_structure(atoms)`
  | loadPattern (path : String)                -- `Atoms.load(find_path)` / `Atoms.load(replace_path)`
  | find (atol : Rat) (hints : Hints)          -- `find_pattern_in_structure(atoms, search, atol=…, hints…)`
  | replace (atol : Rat) (hints : Hints) (fraction : Rat)  -- `atoms = replace_pattern_in_structure(…)`
  | warnReplaceWithoutFind                     -- "Cannot perform a replace operation without a find operation"
  | setFrameworkElement (e : String)           -- `atoms.symbols[atoms.atom_groups == 0] = e`
  | save (path : String)                       -- `atoms.save(outputpath)`
  | saveAse (path : String)                    -- `atoms.to_ase() … .write(outputpath)`
deriving DecidableEq, Repr, Inhabited

/-- what the minimum-image step reads from the structure: the diagonal of its cell matrix and whether the matrix
    equals its own diagonal (`cell_is_orthorhombic`) -/
structure CellInfo where
  diag : Rat × Rat × Rat
  ortho : Bool
deriving DecidableEq, Repr, Inhabited

/-! ## the minimum-image replication factors -/

/-- `max(1, ceil(2·mic / a))` for one diagonal entry: at least one copy in every direction -/
def micDim (mic a : Rat) : Int := max 1 (Rat.ceil (2 * mic / a))

/-- `np.maximum(1, np.array(np.ceil(2*mic / np.diag(cell)), dtype=int))` -/
def micDims (mic : Rat) (d : Rat × Rat × Rat) : Int × Int × Int :=
  (micDim mic d.1, micDim mic d.2.1, micDim mic d.2.2)

/-- diagonal of the cell after `atoms.replicate(dims)`: the rows are scaled by the factors -/
def scaleDiag (d : Rat × Rat × Rat) : Option (Nat × Nat × Nat) → Rat × Rat × Rat
  | none => d
  | some (i, j, k) => ((i : Rat) * d.1, (j : Rat) * d.2.1, (k : Rat) * d.2.2)

/-! ## the plan, one segment per block of the function, top to bottom -/

/-- `if inputpath.suffix in [...]: Atoms.load(inputpath) else: Atoms.from_ase_atoms(ase.io.read(inputpath))` -/
def loadSeg (o : Options) : List Call :=
  if o.inputNative then [.load o.input] else [.loadAse o.input]

/-- `if extract_uc_path is not None: atoms.cell = Atoms.load(extract_uc_path).cell` -/
def cellSeg (o : Options) : List Call :=
  match o.extractUc with
  | some p => [.setCellFrom p]
  | none => []

/-- `if dumppath is not None: atoms.positions = dumpatoms.positions` -/
def dumpSeg (o : Options) : List Call :=
  match o.dumpPath with
  | some p => [.setPositionsFromDump p]
  | none => []

/-- `if chargefile is not None: atoms.charges = charges` -/
def chargeSeg (o : Options) : List Call :=
  match o.chargefile with
  | some f => [.setCharges f]
  | none => []

/-- `if replicate is not None: atoms = atoms.replicate(replicate)` -/
def replSeg (o : Options) : List Call :=
  match o.replicate with
  | some d => [.replicate d]
  | none => []

/-- `if mic is not None:` orthorhombic → replicate by `ceil(2 mic / diag)` of the cell *as it is now* (after
    `--replicate`), otherwise the warning.  Without a cell nothing is listed (the run fails, see `planError`). -/
def micSeg (o : Options) (c : Option CellInfo) : List Call :=
  match o.mic, c with
  | some m, some ci =>
    if ci.ortho then [.micReplicate (micDims m (scaleDiag ci.diag o.replicate))] else [.micSkippedNotOrtho]
  | _, _ => []

/-- `if pp: assign_pair_params_to_structure(atoms)` -/
def ppSeg (o : Options) : List Call := if o.pp then [.assignPair] else []

/-- the find / replace block -/
def findSeg (o : Options) : List Call :=
  match o.findPath, o.replacePath with
  | none, some _ => [.warnReplaceWithoutFind]
  | none, none => []
  | some f, some r => [.loadPattern f, .loadPattern r, .replace o.atol o.hints o.replaceFraction]
  | some f, none => [.loadPattern f, .find o.atol o.hints]

/-- `if framework_element is not None: atoms.symbols[atoms.atom_groups == 0] = framework_element` -/
def fwSeg (o : Options) : List Call :=
  match o.frameworkElement with
  | some e => [.setFrameworkElement e]
  | none => []

/-- `if outputpath.suffix in [...]: atoms.save(outputpath) else: … aseatoms.write(outputpath)` -/
def saveSeg (o : Options) : List Call :=
  if o.outputNative then [.save o.output] else [.saveAse o.output]

/-- segment number `k` of the function body (0 … 9) -/
def seg (o : Options) (c : Option CellInfo) : Nat → List Call
  | 0 => loadSeg o
  | 1 => cellSeg o
  | 2 => dumpSeg o
  | 3 => chargeSeg o
  | 4 => replSeg o
  | 5 => micSeg o c
  | 6 => ppSeg o
  | 7 => findSeg o
  | 8 => fwSeg o
  | 9 => saveSeg o
  | _ => []

/-- the calls of a run that does not fail, in program order -/
def planCalls (o : Options) (c : Option CellInfo) : List Call :=
  seg o c 0 ++ (seg o c 1 ++ (seg o c 2 ++ (seg o c 3 ++ (seg o c 4 ++ (seg o c 5 ++ (seg o c 6 ++
    (seg o c 7 ++ (seg o c 8 ++ seg o c 9))))))))

/-- the block of the function body a call belongs to -/
def stage : Call → Nat
  | .load _ | .loadAse _ => 0
  | .setCellFrom _ => 1
  | .setPositionsFromDump _ => 2
  | .setCharges _ => 3
  | .replicate _ => 4
  | .micReplicate _ | .micSkippedNotOrtho => 5
  | .assignPair => 6
  | .loadPattern _ | .find _ _ | .replace _ _ _ | .warnReplaceWithoutFind => 7
  | .setFrameworkElement _ => 8
  | .save _ | .saveAse _ => 9

/-- Runs the library rejects, as far as the options and the cell decide it:
    * `replicate`, the minimum-image step and the pattern search all need a unit cell;
    * the minimum-image step divides by the diagonal entries: a non-positive entry is outside the modelled domain
      (numpy yields `inf`/negative counts there). -/
def planError (o : Options) (c : Option CellInfo) : Option Err :=
  match c with
  | none =>
    if o.replicate.isSome ∨ o.mic.isSome ∨ o.findPath.isSome then some .nocell else none
  | some ci =>
    match o.mic with
    | some _ =>
      let d := scaleDiag ci.diag o.replicate
      if ci.ortho ∧ ¬ (0 < d.1 ∧ 0 < d.2.1 ∧ 0 < d.2.2) then some .domain else none
    | none => none

/-- **the model**: options and cell ↦ the sequence of library calls -/
def plan (o : Options) (c : Option CellInfo) : Except Err (List Call) :=
  match planError o c with
  | some e => .error e
  | none => .ok (planCalls o c)

/-! ## classification of calls (used by the specification) -/

def Call.isLoad : Call → Bool
  | .load _ | .loadAse _ => true
  | _ => false

def Call.isSave : Call → Bool
  | .save _ | .saveAse _ => true
  | _ => false

def Call.isFind : Call → Bool
  | .find _ _ => true
  | _ => false

def Call.isReplace : Call → Bool
  | .replace _ _ _ => true
  | _ => false

def Call.isReplicate : Call → Bool
  | .replicate _ => true
  | _ => false

def Call.isMic : Call → Bool
  | .micReplicate _ | .micSkippedNotOrtho => true
  | _ => false

def Call.isAssignPair : Call → Bool
  | .assignPair => true
  | _ => false

def Call.isSetCharges : Call → Bool
  | .setCharges _ => true
  | _ => false

/-- calls that modify the structure that will be written -/
def Call.changesStructure : Call → Bool
  | .setCellFrom _ | .setPositionsFromDump _ | .setCharges _ | .replicate _ | .micReplicate _
  | .assignPair | .replace _ _ _ | .setFrameworkElement _ => true
  | _ => false

end Mofun.Cli
